#![allow(dead_code)]
//! C03 Part 1 scenario: one real receiver node R (transport + responder + logging handler)
//! with mirrored secure sessions and real group keys; the script injects mutants and
//! controls built by the harness-side "sender" and records what R did with each.

use core::num::NonZeroU8;
use std::cell::{Cell, RefCell};
use std::panic::{catch_unwind, AssertUnwindSafe};
use std::rc::Rc;

use embassy_futures::select::{select, Either};

use rs_matter::crypto::Crypto;
use rs_matter::error::Error;
use rs_matter::fabric::GroupKeyMapping;
use rs_matter::group_keys::{GroupEpochKeyEntry, GroupKeySet, KeySet};
use rs_matter::respond::{ExchangeHandler, Responder};
use rs_matter::transport::exchange::{Exchange, MessageMeta};
use rs_matter::transport::session::verif::VerifSession;
use rs_matter::transport::session::{derive_group_session_id, ReservedSession, SessionMode};
use rs_matter::utils::storage::Vec as MVec;
use rs_matter::Matter;

use crate::sim::exec::{self, BoxFut, Limits, RunStatus};
use crate::sim::net::NetHub;
use crate::sim::node::{self, FabricCa};
use crate::sim::rng::{subseed, Fnv, Rng};
use crate::sim::{clock, tapmon, wire};
use crate::util::{hex, panic_msg};

use super::c03_codec::{decode, encode, key_of, len_class, HdrParams, Key};
use super::c03_gen::*;

#[derive(Clone, Debug)]
pub struct RxLog {
    pub via: &'static str,
    pub session_internal: u32,
    pub local_sid: u16,
    pub secure: bool,
    pub mode: String,
    pub group_id: Option<u16>,
    pub exch_id: Option<u16>,
    pub proto_id: u16,
    pub opcode: u8,
    pub reliable: bool,
    pub payload: Vec<u8>,
}

impl RxLog {
    pub fn brief(&self) -> String {
        format!(
            "via {} session#{} sid {:#06x} {} exch {:?} proto {:#06x} op {:#04x} reliable {} payload {} B",
            self.via,
            self.session_internal,
            self.local_sid,
            self.mode,
            self.exch_id,
            self.proto_id,
            self.opcode,
            self.reliable,
            self.payload.len()
        )
    }
}

struct LogHandler {
    log: Rc<RefCell<Vec<RxLog>>>,
    /// 0 drop, 1 explicit ack then drop, 2 echo reply, 3 hold the exchange 20 ms then drop
    behaviour: Rc<Cell<u8>>,
}

fn lookup(m: &Matter<'_>, idstr: &str) -> (u32, Option<VerifSession>, Option<u16>) {
    let mut it = idstr.split("::");
    let sid: u32 = it.next().and_then(|s| s.parse().ok()).unwrap_or(u32::MAX);
    let idx: usize = it.next().and_then(|s| s.parse().ok()).unwrap_or(usize::MAX);
    let snap = node::snapshot(m);
    let sess = snap.into_iter().find(|s| s.id == sid);
    let exch = sess.as_ref().and_then(|s| s.exchanges.iter().find(|e| e.index == idx).map(|e| e.exch_id));
    (sid, sess, exch)
}

fn make_log(via: &'static str, m: &Matter<'_>, idstr: &str, meta: MessageMeta, payload: Vec<u8>) -> RxLog {
    let (sid, sess, exch) = lookup(m, idstr);
    RxLog {
        via,
        session_internal: sid,
        local_sid: sess.as_ref().map(|s| s.local_sess_id).unwrap_or(0),
        secure: sess.as_ref().map(|s| s.encrypted).unwrap_or(false),
        mode: sess.as_ref().map(|s| format!("{:?}", s.mode)).unwrap_or_else(|| "?".into()),
        group_id: sess.as_ref().and_then(|s| match s.mode {
            SessionMode::Group { group_id, .. } => Some(group_id),
            _ => None,
        }),
        exch_id: exch,
        proto_id: meta.proto_id,
        opcode: meta.proto_opcode,
        reliable: meta.reliable,
        payload,
    }
}

impl ExchangeHandler for LogHandler {
    async fn handle(&self, mut exchange: Exchange<'_>) -> Result<(), Error> {
        let idstr = format!("{}", exchange.id());
        exchange.recv_fetch().await?;
        let (meta, payload) = {
            let rx = exchange.rx()?;
            (rx.meta(), rx.payload().to_vec())
        };
        let entry = make_log("responder", exchange.matter(), &idstr, meta, payload.clone());
        self.log.borrow_mut().push(entry);
        exchange.rx_done()?;
        match self.behaviour.get() {
            1 => exchange.acknowledge().await?,
            2 => {
                let n = payload.len().min(1000);
                exchange
                    .send(MessageMeta::new(meta.proto_id, meta.proto_opcode ^ 0x80, false), &payload[..n])
                    .await?;
            }
            3 => exec::sleep_ms(20).await,
            _ => {}
        }
        Ok(())
    }
}

#[derive(Clone, Debug)]
pub struct BatchParams {
    pub node_seed: u64,
    pub n_orig: usize,
    pub thorough: bool,
    /// Replay: (original index, Some(mutant index) | None = control only)
    pub only: Option<(usize, Option<usize>)>,
    /// Replay: also deliver all mutants of the earlier originals
    pub full_prefix: bool,
    /// Stop after this many mutants (budget of the shard)
    pub max_mutants: usize,
    /// Replay-only probe: deliver ONE authentic group message with the R (reliable) flag
    /// and let the handler drop the exchange. On the unchanged tree this never returns
    /// (the transport spins in `process_dropped_exchanges`), so it is never part of a run.
    pub probe_group_reliable: bool,
}

#[derive(Clone, Debug)]
pub struct MutRec {
    pub orig_index: usize,
    pub mut_index: usize,
    pub class: String,
    pub bucket: u32,
    pub judged: bool,
    pub shape: String,
    pub mode: &'static str,
    pub plen: usize,
    pub total: usize,
    pub i0: bool,
    pub delivered_secure: Vec<RxLog>,
    pub delivered_unsecured: usize,
    pub changed: Option<String>,
    pub unsecured_sessions_delta: i64,
    pub replies: usize,
    /// (original hex, mutant hex) kept only when something was wrong
    pub witness: Option<(String, String)>,
}

#[derive(Clone, Debug)]
pub struct CtlRec {
    pub orig_index: usize,
    pub expect: Expect,
    pub shape: String,
    pub mode: &'static str,
    pub hp: HdrParams,
    pub payload: Vec<u8>,
    pub i0: bool,
    pub behaviour: u8,
    pub exhaustive: bool,
    pub n_mutants: usize,
    pub delivered: Vec<RxLog>,
    pub target_local_sid: u16,
    pub dgram_hex: String,
    pub sid_collision: bool,
    /// echo reply check: None = not applicable, Some(Ok) = reply decoded identical
    pub echo: Option<Result<(), String>>,
    pub quiesced: bool,
}

#[derive(Clone, Debug)]
pub struct PairRec {
    pub orig_index: usize,
    pub first_delivered: bool,
    /// authentic message for the other mapped group of the same key set, while the
    /// ephemeral session of the first one is alive
    pub second: Vec<RxLog>,
    pub second_group: u16,
    /// authentic (key-wise) message for a group R has no mapping for
    pub third: Vec<RxLog>,
    pub third_group: u16,
    pub hexes: [String; 3],
    /// verbatim replay of the second datagram after the live session has gone
    pub replay_second: Vec<RxLog>,
}

#[derive(Default)]
pub struct BatchOut {
    pub muts: Vec<MutRec>,
    pub ctls: Vec<CtlRec>,
    pub pairs: Vec<PairRec>,
    pub panic: Option<String>,
    pub status: Option<RunStatus>,
    pub tap_unicast: Vec<String>,
    pub tap_group: Vec<String>,
    pub notes: Vec<String>,
    pub tx_mismatch: Vec<String>,
    pub tx_checked: u64,
    pub aborted: bool,
    pub setup_failed: Option<String>,
    pub secured_sent: u64,
    pub sched_hash: u64,
}

fn secure_diff(a: &[VerifSession], b: &[VerifSession]) -> Option<String> {
    let sa: Vec<&VerifSession> = a.iter().filter(|s| s.encrypted).collect();
    let sb: Vec<&VerifSession> = b.iter().filter(|s| s.encrypted).collect();
    for x in &sa {
        match sb.iter().find(|y| y.id == x.id) {
            None => return Some("session-removed".into()),
            Some(y) => {
                if x.msg_ctr != y.msg_ctr {
                    return Some("send-counter".into());
                }
                if x.rx_ctr_state != y.rx_ctr_state {
                    return Some("receive-counter-window".into());
                }
                if x.exchanges != y.exchanges {
                    return Some("exchanges".into());
                }
                if x.dec_key != y.dec_key || x.enc_key != y.enc_key {
                    return Some("keys".into());
                }
                if x.expired != y.expired || x.reserved != y.reserved {
                    return Some("expired-reserved".into());
                }
                if x != y {
                    return Some("identity".into());
                }
            }
        }
    }
    if sb.len() != sa.len() {
        return Some("session-added".into());
    }
    None
}

fn any_exchange_open(s: &[VerifSession]) -> bool {
    s.iter().any(|x| !x.exchanges.is_empty())
}

pub fn build_keyring_and_node<C: Crypto>(
    rng: &mut Rng,
    matter: &Matter<'_>,
    crypto_r: &C,
    sender_addr: rs_matter::transport::network::Address,
) -> Result<Keyring, String> {
    let fabric_id = 0x10 + rng.below(1000);
    let ca = FabricCa::new(crypto_r, rng, fabric_id, false).map_err(|e| format!("ca {:?}", e.code()))?;
    let creds = ca.mint(crypto_r, R_NODE, &[]).map_err(|e| format!("mint {:?}", e.code()))?;
    let fab_idx: NonZeroU8 = ca.install(matter, crypto_r, &creds, S_NODE).map_err(|e| format!("install {:?}", e.code()))?;

    // --- group keys
    let mut epoch: Vec<(usize, Key)> = Vec::new();
    for ks in [0usize, 0, 1] {
        let mut k = [0u8; 16];
        k.copy_from_slice(&rng.bytes(16));
        epoch.push((ks, k));
    }
    let cfid = matter.with_state(|s| s.fabrics.fabric(fab_idx).map(|f| f.compressed_fabric_id())).map_err(|e| format!("fabric {:?}", e.code()))?;
    let mut gk: Vec<GroupKey> = Vec::new();
    for (ks, ek) in &epoch {
        let mut set = KeySet::new();
        set.update(crypto_r, key_of(ek).reference(), &cfid).map_err(|e| format!("keyset {:?}", e.code()))?;
        let sid = derive_group_session_id(crypto_r, set.op_key()).map_err(|e| format!("gsid {:?}", e.code()))?;
        let mut op = [0u8; 16];
        op.copy_from_slice(set.op_key().access());
        gk.push(GroupKey { key_set: *ks, op_key: op, sid });
    }
    matter
        .with_state(|s| -> Result<(), Error> {
            let fabric = s.fabrics.fabric_mut(fab_idx)?;
            for ks in 0..2usize {
                let mut epoch_keys = MVec::new();
                for (i, (k, ek)) in epoch.iter().enumerate() {
                    if *k == ks {
                        let _ = epoch_keys.push(GroupEpochKeyEntry { epoch_key: key_of(ek), epoch_start_time: i as u64 });
                    }
                }
                fabric.groups_mut().key_set_add(GroupKeySet { group_key_set_id: KEY_SET_IDS[ks], group_key_security_policy: 0, epoch_keys })?;
            }
            for (g, ks) in [(GROUP_IDS[0], 0usize), (GROUP_IDS[1], 1), (GROUP_IDS[2], 0)] {
                fabric.groups_mut().key_map_add(GroupKeyMapping { group_id: g, group_key_set_id: KEY_SET_IDS[ks] })?;
            }
            Ok(())
        })
        .map_err(|e| format!("groups {:?}", e.code()))?;

    // --- unicast sessions (all with the same peer address: session ids / keys / node ids
    //     are what must tell them apart)
    let sid_collision = rng.chance(1, 8);
    let mut sids: Vec<u16> = Vec::new();
    while sids.len() < 6 {
        let x = if rng.chance(1, 6) { 1u16 << rng.usize(16) } else { 1 + rng.below(0xffff) as u16 };
        if !sids.contains(&x) && !gk.iter().any(|g| g.sid == x) {
            sids.push(x);
        }
    }
    let mut uni: Vec<UniSess> = Vec::new();
    let defs: [(&'static str, bool, u64, u64); 3] = [("A", false, S_NODE, R_NODE), ("B", false, S2_NODE, R_NODE), ("P", true, 0, 0)];
    for (i, (name, pase, peer_node, local_node)) in defs.into_iter().enumerate() {
        let mut rx_key = [0u8; 16];
        rx_key.copy_from_slice(&rng.bytes(16));
        let mut tx_key = [0u8; 16];
        tx_key.copy_from_slice(&rng.bytes(16));
        let mut local_sid = sids[i];
        if name == "B" && sid_collision {
            local_sid = gk[2].sid;
        }
        // sometimes both ends picked the same session id (legal)
        let peer_sid = if rng.chance(1, 5) { local_sid } else { sids[3 + i] };
        let mode = if pase { SessionMode::Pase { fab_idx: 0 } } else { SessionMode::Case { fab_idx, cat_ids: Default::default() } };
        let internal_id = {
            let mut s = ReservedSession::reserve_now(matter, crypto_r).map_err(|e| format!("reserve {:?}", e.code()))?;
            s.update(local_node, peer_node, peer_sid, local_sid, sender_addr, mode, Some(key_of(&rx_key).reference()), Some(key_of(&tx_key).reference()), None, None)
                .map_err(|e| format!("update {:?}", e.code()))?;
            s.complete();
            drop(s);
            node::session_id_by_local(matter, local_sid).ok_or("session not found after install")?
        };
        uni.push(UniSess { name, pase, local_sid, peer_sid, rx_key, tx_key, peer_node, local_node, internal_id, next_ctr: if rng.chance(1, 6) { 0 } else { 1 + rng.below(1 << 27) as u32 } });
    }
    Ok(Keyring { uni, gk, group_ctr: [1 + rng.below(1 << 30) as u32, 1 + rng.below(1 << 30) as u32], sid_collision })
}

pub fn run_batch(bp: &BatchParams) -> BatchOut {
    clock::reset(1_000_000);
    let trace = std::env::var("RSMV_TRACE").is_ok();
    let mut rng = Rng::new(bp.node_seed);
    let crypto_r = node::crypto(rng.fork());
    let crypto_h = node::crypto(rng.fork());
    let matter = node::new_matter();
    let matter: &Matter<'_> = &matter;
    let hub = NetHub::new(rng.u64(), 2);
    hub.set_up(1, false);
    let sender_addr = hub.addr(1);

    let out = RefCell::new(BatchOut::default());

    let kr = match catch_unwind(AssertUnwindSafe(|| build_keyring_and_node(&mut rng, matter, &crypto_r, sender_addr))) {
        Ok(Ok(k)) => k,
        Ok(Err(e)) => {
            out.borrow_mut().setup_failed = Some(e);
            return out.into_inner();
        }
        Err(e) => {
            out.borrow_mut().setup_failed = Some(format!("panic {}", panic_msg(&e)));
            return out.into_inner();
        }
    };
    let kr = RefCell::new(kr);
    let log: Rc<RefCell<Vec<RxLog>>> = Rc::new(RefCell::new(Vec::new()));
    let behaviour = Rc::new(Cell::new(0u8));

    let limits = Limits { max_polls: 200_000_000, horizon: u64::MAX / 2, shuffle: true };
    let mut exec_rng = Rng::new(subseed(bp.node_seed, &[7]));

    let run = {
        let out = &out;
        let kr = &kr;
        let hub = hub.clone();
        let log = log.clone();
        let behaviour = behaviour.clone();
        let crypto_r = &crypto_r;
        let crypto_h = &crypto_h;
        let bp = bp.clone();
        catch_unwind(AssertUnwindSafe(move || {
            let handler = LogHandler { log: log.clone(), behaviour: behaviour.clone() };
            let hub2 = hub.clone();
            let script: BoxFut = Box::pin(async move {
                let hub = hub2;
                let mut total_mutants = 0usize;
                if bp.probe_group_reliable {
                    let krs = kr.borrow().clone();
                    let hp = HdrParams {
                        sess_id: krs.gk[0].sid,
                        ctr: krs.group_ctr[0],
                        group: true,
                        control: false,
                        src: Some(S_NODE),
                        dst_uni: None,
                        dst_grp: Some(GROUP_IDS[0]),
                        exch_id: 0x1234,
                        proto_id: 0x7e57,
                        opcode: 1,
                        initiator: true,
                        reliable: true,
                        ack: None,
                        vendor: None,
                    };
                    if let Ok(d) = encode(crypto_h, &hp, &krs.gk[0].op_key, S_NODE, b"probe") {
                        eprintln!("probe: injecting authentic group data message with R flag: {}", hex(&d));
                        behaviour.set(0);
                        hub.inject(0, sender_addr, d, 0);
                        exec::sleep_ms(500).await;
                        let n = log.borrow().len();
                        eprintln!("probe: returned; delivered {} message(s); transport still alive", n);
                        out.borrow_mut().notes.push(format!("probe-group-reliable-returned-delivered-{}", n));
                    }
                    return;
                }
                'origs: for k in 0..bp.n_orig {
                    if let Some((ok, _)) = bp.only {
                        if k > ok {
                            break;
                        }
                    }
                    if bp.only.is_none() && total_mutants >= bp.max_mutants {
                        break;
                    }
                    let mut orng = Rng::new(subseed(bp.node_seed, &[100, k as u64]));

                    // ---- optionally an R-initiated exchange, so that the original is a
                    //      response (initiator flag clear) matched by exchange id + role
                    let mut i0: Option<(Exchange<'_>, String)> = None;
                    let mut force: Option<(usize, u16)> = None;
                    if orng.chance(1, 6) {
                        let si = orng.usize(3);
                        let sess = kr.borrow().uni[si].clone();
                        let req_len = orng.usize(48);
                        let req = orng.bytes(req_len);
                        let meta = MessageMeta::new(0x0100 + orng.below(0x100) as u16, orng.u32() as u8, false);
                        if let Ok(mut ex) = Exchange::initiate_for_session(matter, crypto_r, sess.internal_id) {
                            let mark = hub.tap_len();
                            if ex.send(meta, &req).await.is_ok() {
                                exec::sleep_us(300).await;
                                let sent = hub.with_tap(|t| t[mark..].iter().filter(|e| !e.injected && e.dgram.src == 0).map(|e| e.dgram.bytes.clone()).last());
                                if let Some(sent) = sent {
                                    out.borrow_mut().tx_checked += 1;
                                    match decode(crypto_h, &sent, &sess.tx_key, sess.local_node) {
                                        Ok((hp, pl)) => {
                                            if hp.sess_id != sess.peer_sid || !hp.initiator || hp.proto_id != meta.proto_id || hp.opcode != meta.proto_opcode || hp.reliable || pl != req || hp.group || hp.control {
                                                out.borrow_mut().tx_mismatch.push(format!("R-initiated message decodes to {:?} payload {} (sent meta {:?} payload {}) session {}", hp, hex(&pl), meta, hex(&req), sess.name));
                                            }
                                            let idstr = format!("{}", ex.id());
                                            force = Some((si, hp.exch_id));
                                            i0 = Some((ex, idstr));
                                        }
                                        Err(e) => out.borrow_mut().tx_mismatch.push(format!("R-initiated message does not decode under R's encrypt key: {:?} datagram {}", e.code(), hex(&sent))),
                                    }
                                }
                            }
                        }
                    }

                    let o = gen_orig(&mut orng, &mut kr.borrow_mut(), force);
                    let krs = kr.borrow().clone();
                    let d = match encode(crypto_h, &o.hp, &o.key, o.nonce_node, &o.payload) {
                        Ok(d) => d,
                        Err(e) => {
                            out.borrow_mut().notes.push(format!("encode-failed-{:?}", e.code()));
                            continue;
                        }
                    };
                    let mutants = gen_mutants(crypto_h, &mut orng, &krs, &o, &d, bp.thorough);
                    let shape = o.hp.shape();
                    let mode = o.mode(&krs);
                    let target_sid = match &o.target {
                        Target::Uni(i) => krs.uni[*i].local_sid,
                        Target::Group { key, .. } => krs.gk[*key].sid,
                    };

                    // the target session must still be there, untouched
                    let mut cur = node::snapshot(matter);
                    if let Target::Uni(i) = &o.target {
                        let u = &krs.uni[*i];
                        let ok = cur.iter().any(|s| s.id == u.internal_id && s.dec_key == u.rx_key && s.local_sess_id == u.local_sid && !s.expired);
                        if !ok {
                            out.borrow_mut().notes.push("target-session-gone-node-rebuilt".into());
                            out.borrow_mut().aborted = true;
                            break 'origs;
                        }
                    }

                    let deliver_mutants = match bp.only {
                        None => true,
                        Some((ok, _)) => k == ok || bp.full_prefix,
                    };
                    let mut n_delivered_mutants = 0usize;
                    let mut tainted = false;
                    if deliver_mutants {
                        for (mi, m) in mutants.iter().enumerate() {
                            if let Some((ok, sel)) = bp.only {
                                if k == ok && sel != Some(mi) {
                                    continue;
                                }
                            }
                            let lb = log.borrow().len();
                            let tb = hub.tap_len();
                            if trace {
                                eprintln!("[k{} m{}] inject {} {} B: {}", k, mi, m.class, m.bytes.len(), hex(&m.bytes[..m.bytes.len().min(48)]));
                            }
                            hub.inject(0, sender_addr, m.bytes.clone(), 0);
                            if let Some((ex, idstr)) = i0.as_mut() {
                                let got = {
                                    let r = select(ex.recv_fetch(), exec::sleep_us(300)).await;
                                    matches!(r, Either::First(Ok(_)))
                                };
                                if got {
                                    if let Ok(rx) = ex.rx() {
                                        let e = make_log("initiator", matter, idstr, rx.meta(), rx.payload().to_vec());
                                        log.borrow_mut().push(e);
                                    }
                                    let _ = ex.rx_done();
                                }
                            } else {
                                exec::sleep_us(300).await;
                            }
                            let after = node::snapshot(matter);
                            let new: Vec<RxLog> = log.borrow()[lb..].to_vec();
                            let changed = secure_diff(&cur, &after);
                            let unsec_delta = after.iter().filter(|s| !s.encrypted).count() as i64 - cur.iter().filter(|s| !s.encrypted).count() as i64;
                            let delivered_secure: Vec<RxLog> = new.iter().filter(|e| e.secure).cloned().collect();
                            let bad = !delivered_secure.is_empty() || changed.is_some();
                            if trace {
                                eprintln!("      -> delivered {} changed {:?} replies {}", new.len(), changed, hub.tap_len() - tb - 1);
                            }
                            out.borrow_mut().muts.push(MutRec {
                                orig_index: k,
                                mut_index: mi,
                                class: m.class.clone(),
                                bucket: m.bucket,
                                judged: m.judged,
                                shape: shape.clone(),
                                mode,
                                plen: o.payload.len(),
                                total: d.len(),
                                i0: i0.is_some(),
                                delivered_unsecured: new.len() - delivered_secure.len(),
                                delivered_secure,
                                changed: changed.clone(),
                                unsecured_sessions_delta: unsec_delta,
                                replies: hub.tap_len().saturating_sub(tb + 1),
                                witness: if bad { Some((hex(&d), hex(&m.bytes))) } else { None },
                            });
                            n_delivered_mutants += 1;
                            total_mutants += 1;
                            cur = after;
                            if bad {
                                tainted = true;
                                break;
                            }
                        }
                    }
                    if tainted {
                        // state is no longer the one the remaining cases assume: rebuild
                        out.borrow_mut().aborted = true;
                        break 'origs;
                    }

                    // ---- group "pair" scenario instead of the plain control
                    let pair = matches!(&o.target, Target::Group { key, .. } if krs.gk[*key].key_set == 0)
                        && o.expect == Expect::Delivered
                        && o.hp.dst_grp.is_some()
                        && !o.hp.reliable
                        && orng.chance(1, 3);

                    // ---- control: the authentic original itself
                    let lb = log.borrow().len();
                    let tb = hub.tap_len();
                    behaviour.set(if pair { 3 } else { o.behaviour });
                    if trace {
                        eprintln!("[k{} control] {:?} {} payload {} B expect {:?} i0 {}", k, o.target, shape, o.payload.len(), o.expect, i0.is_some());
                    }
                    hub.inject(0, sender_addr, d.clone(), 0);
                    if let Some((mut ex, idstr)) = i0.take() {
                        let got = {
                            let r = select(ex.recv_fetch(), exec::sleep_ms(5)).await;
                            matches!(r, Either::First(Ok(_)))
                        };
                        if got {
                            if let Ok(rx) = ex.rx() {
                                let e = make_log("initiator", matter, &idstr, rx.meta(), rx.payload().to_vec());
                                log.borrow_mut().push(e);
                            }
                            let _ = ex.rx_done();
                        }
                        drop(ex);
                    } else {
                        exec::sleep_ms(2).await;
                    }

                    if pair {
                        let (key, src) = match &o.target {
                            Target::Group { key, src } => (*key, *src),
                            _ => unreachable!(),
                        };
                        let first_delivered = log.borrow().len() > lb;
                        let cur_g = o.hp.dst_grp.unwrap();
                        let other_g = if cur_g == GROUP_IDS[0] { GROUP_IDS[2] } else { GROUP_IDS[0] };
                        let mut recs: Vec<Vec<RxLog>> = Vec::new();
                        let mut hexes = [hex(&d), String::new(), String::new()];
                        for (n, g) in [other_g, GROUP_IDS[3]].into_iter().enumerate() {
                            let mut hp = o.hp.clone();
                            hp.dst_grp = Some(g);
                            hp.exch_id = hp.exch_id.wrapping_add(1 + n as u16);
                            hp.ctr = {
                                let mut krm = kr.borrow_mut();
                                let c = krm.group_ctr[src];
                                krm.group_ctr[src] = c.wrapping_add(1);
                                c
                            };
                            let l2 = log.borrow().len();
                            if let Ok(d2) = encode(crypto_h, &hp, &krs.gk[key].op_key, o.nonce_node, &o.payload) {
                                hexes[1 + n] = hex(&d2);
                                hub.inject(0, sender_addr, d2, 0);
                                exec::sleep_ms(2).await;
                            }
                            recs.push(log.borrow()[l2..].to_vec());
                        }
                        exec::sleep_ms(30).await;
                        // the first message's handler has finished: its ephemeral session is gone.
                        // Replay the second datagram verbatim (C04: a counter is accepted at most once).
                        let mut replay_second = Vec::new();
                        if !recs[0].is_empty() && !hexes[1].is_empty() {
                            for _ in 0..100 {
                                if !any_exchange_open(&node::snapshot(matter)) {
                                    break;
                                }
                                exec::sleep_ms(1).await;
                            }
                            behaviour.set(0);
                            let l3 = log.borrow().len();
                            hub.inject(0, sender_addr, crate::util::unhex(&hexes[1]), 0);
                            exec::sleep_ms(3).await;
                            replay_second = log.borrow()[l3..].to_vec();
                        }
                        out.borrow_mut().pairs.push(PairRec { orig_index: k, first_delivered, second: recs[0].clone(), second_group: other_g, third: recs[1].clone(), third_group: GROUP_IDS[3], hexes, replay_second });
                    }

                    // wait for quiescence (acks flushed, exchanges closed, RX buffer free)
                    let mut quiesced = false;
                    for _ in 0..600 {
                        let s = node::snapshot(matter);
                        if !any_exchange_open(&s) && !matter.transport().verif_slots().rx_occupied {
                            quiesced = true;
                            break;
                        }
                        exec::sleep_ms(1).await;
                    }
                    let delivered: Vec<RxLog> = if pair { log.borrow()[lb..].iter().take(1).cloned().collect() } else { log.borrow()[lb..].to_vec() };

                    // echo reply: decode what R sent back with the mirrored key
                    let mut echo = None;
                    if o.behaviour == 2 && !pair && delivered.len() == 1 && delivered[0].via == "responder" {
                        if let Target::Uni(i) = &o.target {
                            let u = &krs.uni[*i];
                            let sent: Vec<Vec<u8>> = hub.with_tap(|t| t[tb..].iter().filter(|e| !e.injected && e.dgram.src == 0).map(|e| e.dgram.bytes.clone()).collect());
                            let mut res: Result<(), String> = Err("no reply datagram seen".into());
                            for s in sent {
                                if let Ok((hp, pl)) = decode(crypto_h, &s, &u.tx_key, u.local_node) {
                                    if hp.proto_id == o.hp.proto_id && hp.opcode == o.hp.opcode ^ 0x80 {
                                        let n = o.payload.len().min(1000);
                                        res = if hp.sess_id != u.peer_sid {
                                            Err(format!("reply carries session id {:#x}, peer's is {:#x}", hp.sess_id, u.peer_sid))
                                        } else if hp.exch_id != o.hp.exch_id || hp.initiator {
                                            Err(format!("reply exchange id {:#x}/initiator {} (request {:#x})", hp.exch_id, hp.initiator, o.hp.exch_id))
                                        } else if pl != o.payload[..n] {
                                            Err("reply payload differs from what the handler sent".into())
                                        } else if o.hp.reliable && hp.ack != Some(o.hp.ctr) {
                                            Err(format!("reply does not acknowledge the request counter: ack {:?} ctr {}", hp.ack, o.hp.ctr))
                                        } else {
                                            Ok(())
                                        };
                                    }
                                }
                            }
                            echo = Some(res);
                        }
                    }

                    out.borrow_mut().ctls.push(CtlRec {
                        orig_index: k,
                        expect: o.expect.clone(),
                        shape,
                        mode,
                        hp: o.hp.clone(),
                        payload: o.payload.clone(),
                        i0: force.is_some(),
                        behaviour: o.behaviour,
                        exhaustive: o.exhaustive,
                        n_mutants: n_delivered_mutants,
                        delivered,
                        target_local_sid: target_sid,
                        dgram_hex: hex(&d),
                        sid_collision: krs.sid_collision && o.hp.group && o.hp.sess_id == krs.uni[1].local_sid && o.hp.src == Some(krs.uni[1].peer_node),
                        echo,
                        quiesced,
                    });
                    if !quiesced {
                        out.borrow_mut().aborted = true;
                        out.borrow_mut().notes.push("not-quiescent-after-control-node-rebuilt".into());
                        break 'origs;
                    }
                }
                exec::sleep_ms(200).await;
            });

            let node_r: BoxFut = {
                let ep = hub.endpoint(0);
                Box::pin(async move {
                    let responder = Responder::new("R", handler, matter, 0);
                    let t: BoxFut = Box::pin(async {
                        let _ = matter.run(crypto_r, ep.clone(), ep.clone(), ep.clone()).await;
                    });
                    let r: BoxFut = Box::pin(async {
                        let _ = responder.run::<4>().await;
                    });
                    exec::ShuffleSelect::new(subseed(bp.node_seed, &[11]), true, vec![script, t, r]).await
                })
            };
            exec::run(&mut exec_rng, limits, vec![node_r])
        }))
    };

    let mut o = out.into_inner();
    match run {
        Ok(r) => {
            o.status = Some(r.status);
            o.sched_hash = r.sched_hash;
        }
        Err(e) => o.panic = Some(panic_msg(&e)),
    }

    // Passive nonce monitor over everything R sent (unicast sessions judged, group
    // sessions recorded separately: their per-session counters start at random values)
    let tap_u = tapmon::TapMonitor::new();
    let tap_g = tapmon::TapMonitor::new();
    hub.with_tap(|t| {
        for ev in t {
            if !ev.injected {
                if let Some(i) = wire::peek(&ev.dgram.bytes) {
                    if i.session_id != 0 {
                        o.secured_sent += 1;
                    }
                    if i.sec_flags & 1 != 0 {
                        tap_g.observe(ev.dgram.src, &ev.dgram.bytes);
                    } else {
                        tap_u.observe(ev.dgram.src, &ev.dgram.bytes);
                    }
                }
            }
        }
    });
    o.tap_unicast = tap_u.violations();
    o.tap_group = tap_g.violations();
    o
}

pub fn mut_hash(m: &MutRec) -> u64 {
    let mut f = Fnv::new();
    f.add(format!("{}|{}|{}|{}|{}|{}", m.class, m.mode, m.shape, len_class(m.plen), m.bucket, m.i0).as_bytes());
    f.0
}
