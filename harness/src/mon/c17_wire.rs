//! C17 — message header, protocol header, whole packet (with AEAD), status report,
//! BDX messages, check-in message and the ParseBuf/WriteBuf primitives.

use rs_matter::bdx::{Block, BlockQuery, BlockQueryWithSkip, RangeControl, TransferAccept, TransferControl, TransferInit};
use rs_matter::crypto::{default_crypto, test_only_crypto, CanonAeadKeyRef};
use rs_matter::dm::devices::test::DAC_PRIVKEY;
use rs_matter::sc::checkin::CheckIn;
use rs_matter::sc::{GeneralCode, StatusReport};
use rs_matter::transport::packet::PacketHdr;
use rs_matter::transport::plain_hdr::PlainHdr;
use rs_matter::transport::proto_hdr::ProtoHdr;
use rs_matter::utils::storage::{ParseBuf, ReadBuf, WriteBuf};

use crate::sim::rng::Rng;

use super::c17::{edge, edge_class, guard, Cx, Decoder, Format};

pub fn skipped_notes() -> Vec<String> {
    vec![
        "plain header: PRIVACY / MSG_EXT security flags and protocol header SECEX flag have no public setter; covered through decode→encode→decode of raw flag bytes".into(),
    ]
}

// ---------------------------------------------------------------------------------------
// Decoders (arbitrary input)
// ---------------------------------------------------------------------------------------

fn dec_plain(input: &[u8]) -> bool {
    let mut b = input.to_vec();
    let mut pb = ParseBuf::new(&mut b);
    let mut h = PlainHdr::new();
    let ok = h.decode(&mut pb).is_ok();
    if ok {
        // accessors + Display on whatever was decoded
        let _ = (h.get_src_nodeid(), h.get_dst_unicast_nodeid(), h.get_dst_groupcast_nodeid());
        let _ = (h.is_encrypted(), h.is_group_session(), h.is_control_msg(), h.is_privacy());
        let _ = format!("{}", h);
        let _ = pb.as_slice().len();
    }
    ok
}

fn dec_proto(input: &[u8]) -> bool {
    let mut b = input.to_vec();
    let mut pb = ParseBuf::new(&mut b);
    let mut h = ProtoHdr::new();
    let plain = PlainHdr::new();
    let ok = h
        .decrypt_and_decode(test_only_crypto(), None, 0, &plain, &mut pb)
        .is_ok();
    if ok {
        let _ = (h.get_vendor(), h.get_ack(), h.is_reliable(), h.is_initiator(), h.is_security_ext());
        let _ = format!("{}", h);
        let _ = pb.as_slice().len();
    }
    ok
}

/// input = key(16) || peer node id (8, LE) || datagram
fn dec_packet(input: &[u8]) -> bool {
    if input.len() < 24 {
        return dec_packet_with(&[7u8; 16], 0, input);
    }
    let mut key = [0u8; 16];
    key.copy_from_slice(&input[..16]);
    let node = u64::from_le_bytes(input[16..24].try_into().unwrap());
    dec_packet_with(&key, node, &input[24..])
}

fn dec_packet_with(key: &[u8; 16], node: u64, datagram: &[u8]) -> bool {
    let mut b = datagram.to_vec();
    let mut pb = ParseBuf::new(&mut b);
    let mut h = PacketHdr::new();
    if h.decode_plain_hdr(&mut pb).is_err() {
        return false;
    }
    let k = CanonAeadKeyRef::new(key);
    // As the transport does: decrypt only what claims to be encrypted.
    let key = if h.plain.is_encrypted() { Some(k) } else { None };
    let ok = h.decode_remaining(test_only_crypto(), key, node, &mut pb).is_ok();
    if ok {
        let _ = format!("{}", h);
        let _ = pb.as_slice().len();
    }
    ok
}

fn dec_status(input: &[u8]) -> bool {
    let mut rb = ReadBuf::new(input);
    match StatusReport::read(&mut rb) {
        Ok(s) => {
            let _ = format!("{:?}", s);
            true
        }
        Err(_) => false,
    }
}

fn dec_bdx_init(input: &[u8]) -> bool {
    TransferInit::parse(input).map(|m| m.file_designator.len() + m.metadata.len()).is_ok()
}
fn dec_bdx_accept_send(input: &[u8]) -> bool {
    TransferAccept::parse(false, input).map(|m| m.metadata.len()).is_ok()
}
fn dec_bdx_accept_recv(input: &[u8]) -> bool {
    TransferAccept::parse(true, input).map(|m| m.metadata.len()).is_ok()
}
fn dec_bdx_block(input: &[u8]) -> bool {
    Block::parse(input).map(|m| m.data.len()).is_ok()
}
fn dec_bdx_query(input: &[u8]) -> bool {
    BlockQuery::parse(input).is_ok()
}
fn dec_bdx_skip(input: &[u8]) -> bool {
    BlockQueryWithSkip::parse(input).is_ok()
}

/// input = key(16) || payload
fn dec_checkin(input: &[u8]) -> bool {
    let mut key = [0x42u8; 16];
    let payload = if input.len() >= 16 {
        key.copy_from_slice(&input[..16]);
        &input[16..]
    } else {
        input
    };
    let mut p = payload.to_vec();
    let ci = CheckIn::new(CanonAeadKeyRef::new(&key));
    let r = ci.parse(test_only_crypto(), &mut p).map(|c| (c.counter, c.app_data.len()));
    r.is_ok()
}

/// input = a script for the ParseBuf: first byte = number of bytes of data `n` (rest of
/// the data follows), then op codes.
fn dec_parsebuf(input: &[u8]) -> bool {
    if input.is_empty() {
        return false;
    }
    let n = (input[0] as usize).min(input.len() - 1);
    let mut data = input[1..1 + n].to_vec();
    let ops = &input[1 + n..];
    let mut pb = ParseBuf::new(&mut data);
    let mut all_ok = true;
    for op in ops {
        let r = match op % 8 {
            0 => pb.le_u8().map(|_| ()),
            1 => pb.le_u16().map(|_| ()),
            2 => pb.le_u32().map(|_| ()),
            3 => pb.le_u64().map(|_| ()),
            4 => pb.tail((op / 8) as usize).map(|_| ()),
            5 => {
                let _ = pb.as_slice().len();
                Ok(())
            }
            6 => {
                let _ = pb.parsed_as_slice().len();
                Ok(())
            }
            _ => {
                let _ = pb.as_mut_slice().len();
                let _ = pb.slice_range();
                Ok(())
            }
        };
        all_ok &= r.is_ok();
    }
    all_ok
}

pub fn decoders() -> Vec<Decoder> {
    vec![
        Decoder { name: "plain_hdr.decode", fmt: "plain_hdr", max_len: 1500, text: false, f: dec_plain },
        Decoder { name: "proto_hdr.decode", fmt: "proto_hdr", max_len: 1500, text: false, f: dec_proto },
        Decoder { name: "packet.decode", fmt: "packet", max_len: 1500, text: false, f: dec_packet },
        Decoder { name: "status_report.read", fmt: "status_report", max_len: 1500, text: false, f: dec_status },
        Decoder { name: "bdx.init.parse", fmt: "bdx", max_len: 1500, text: false, f: dec_bdx_init },
        Decoder { name: "bdx.accept.send.parse", fmt: "bdx", max_len: 1500, text: false, f: dec_bdx_accept_send },
        Decoder { name: "bdx.accept.recv.parse", fmt: "bdx", max_len: 1500, text: false, f: dec_bdx_accept_recv },
        Decoder { name: "bdx.block.parse", fmt: "bdx", max_len: 1500, text: false, f: dec_bdx_block },
        Decoder { name: "bdx.query.parse", fmt: "bdx", max_len: 64, text: false, f: dec_bdx_query },
        Decoder { name: "bdx.skip.parse", fmt: "bdx", max_len: 64, text: false, f: dec_bdx_skip },
        Decoder { name: "checkin.parse", fmt: "checkin", max_len: 1500, text: false, f: dec_checkin },
        Decoder { name: "parsebuf.script", fmt: "bufs", max_len: 128, text: false, f: dec_parsebuf },
    ]
}

pub fn formats() -> Vec<Format> {
    vec![
        Format { name: "plain_hdr", id: 1, quick: 200_000, thorough: 10_000_000, has_encoder: true, case: case_plain },
        Format { name: "proto_hdr", id: 2, quick: 200_000, thorough: 10_000_000, has_encoder: true, case: case_proto },
        Format { name: "packet", id: 3, quick: 200_000, thorough: 10_000_000, has_encoder: true, case: case_packet },
        Format { name: "status_report", id: 4, quick: 200_000, thorough: 10_000_000, has_encoder: true, case: case_status },
        Format { name: "bdx", id: 5, quick: 200_000, thorough: 10_000_000, has_encoder: true, case: case_bdx },
        Format { name: "checkin", id: 6, quick: 200_000, thorough: 10_000_000, has_encoder: true, case: case_checkin },
        Format { name: "bufs", id: 7, quick: 200_000, thorough: 10_000_000, has_encoder: true, case: case_bufs },
    ]
}

// ---------------------------------------------------------------------------------------
// Plain (message) header
// ---------------------------------------------------------------------------------------

/// Node-id forms of the Matter specification (range boundaries of every class).
const NODE_IDS: [u64; 24] = [
    0,                     // unspecified
    1,                     // first operational
    0x0000_0000_FFFF_FFFF,
    0x0000_0001_0000_0000,
    0x7FFF_FFFF_FFFF_FFFF,
    0x8000_0000_0000_0000,
    0xFFFF_FFEF_FFFF_FFFF, // last operational
    0xFFFF_FFF0_0000_0000, // reserved
    0xFFFF_FFFA_FFFF_FFFF,
    0xFFFF_FFFB_0000_0000, // PAKE key ids
    0xFFFF_FFFB_0000_FFFF,
    0xFFFF_FFFC_0000_0000, // reserved
    0xFFFF_FFFD_0000_0000, // CASE auth tags
    0xFFFF_FFFD_0001_0001,
    0xFFFF_FFFD_FFFF_FFFF,
    0xFFFF_FFFE_0000_0000, // temporary local
    0xFFFF_FFFE_FFFF_FFFF,
    0xFFFF_FFFF_0000_0000, // reserved
    0xFFFF_FFFF_FFFE_FFFF,
    0xFFFF_FFFF_FFFF_0000, // group node ids
    0xFFFF_FFFF_FFFF_0001,
    0xFFFF_FFFF_FFFF_FF00, // universal groups
    0xFFFF_FFFF_FFFF_FFFD,
    0xFFFF_FFFF_FFFF_FFFF,
];
const GROUP_IDS: [u16; 10] = [0, 1, 0x7fff, 0x8000, 0xfeff, 0xff00, 0xfffd, 0xfffe, 0xffff, 0x0100];

#[derive(Clone, Debug, PartialEq)]
struct PlainFields {
    sess_id: u16,
    ctr: u32,
    src: Option<u64>,
    dst_uni: Option<u64>,
    dst_grp: Option<u16>,
    group_session: bool,
    control: bool,
    privacy: bool,
}

fn plain_fields(h: &PlainHdr) -> PlainFields {
    PlainFields {
        sess_id: h.sess_id,
        ctr: h.ctr,
        src: h.get_src_nodeid(),
        dst_uni: h.get_dst_unicast_nodeid(),
        dst_grp: h.get_dst_groupcast_nodeid(),
        group_session: h.is_group_session(),
        control: h.is_control_msg(),
        privacy: h.is_privacy(),
    }
}

fn build_plain(f: &PlainFields) -> PlainHdr {
    let mut h = PlainHdr::new();
    h.sess_id = f.sess_id;
    h.ctr = f.ctr;
    h.set_src_nodeid(f.src);
    if let Some(d) = f.dst_uni {
        h.set_dst_unicast_nodeid(Some(d));
    } else if let Some(g) = f.dst_grp {
        h.set_dst_groupcast_nodeid(Some(g));
    }
    h.set_group_session(f.group_session);
    h.set_control_msg(f.control);
    h
}

fn node_id(rng: &mut Rng, idx: Option<usize>) -> u64 {
    match idx {
        Some(i) => NODE_IDS[i % NODE_IDS.len()],
        None => {
            if rng.chance(1, 2) {
                *rng.pick(&NODE_IDS)
            } else {
                edge(rng, 64)
            }
        }
    }
}

fn gen_plain(k: u64, rng: &mut Rng) -> PlainFields {
    // 24 flag combinations × 24 value rows are enumerated first.
    const ENUM: u64 = 24 * 24;
    let (combo, row) = if k < ENUM { (k % 24, Some((k / 24) as usize)) } else { (rng.below(24), None) };
    let src_some = combo % 2 == 1;
    let dst_form = (combo / 2) % 3;
    let group_session = (combo / 6) % 2 == 1;
    let control = (combo / 12) % 2 == 1;
    let e16 = |rng: &mut Rng, row: Option<usize>| -> u16 {
        match row {
            Some(r) => [0u16, 1, 0xff, 0x100, 0x7fff, 0x8000, 0xfffe, 0xffff][r % 8],
            None => edge(rng, 16) as u16,
        }
    };
    let e32 = |rng: &mut Rng, row: Option<usize>| -> u32 {
        match row {
            Some(r) => [0u32, 1, 0xffff, 0x1_0000, 0x7fff_ffff, 0x8000_0000, 0xffff_fffe, 0xffff_ffff][r % 8],
            None => edge(rng, 32) as u32,
        }
    };
    PlainFields {
        sess_id: e16(rng, row),
        ctr: e32(rng, row.map(|r| r / 3)),
        src: src_some.then(|| node_id(rng, row)),
        dst_uni: (dst_form == 1).then(|| node_id(rng, row.map(|r| r + 7))),
        dst_grp: (dst_form == 2).then(|| match row {
            Some(r) => GROUP_IDS[r % GROUP_IDS.len()],
            None => {
                if rng.bool() {
                    *rng.pick(&GROUP_IDS)
                } else {
                    rng.u64() as u16
                }
            }
        }),
        group_session,
        control,
        privacy: false,
    }
}

fn encode_plain(h: &PlainHdr) -> Result<Vec<u8>, String> {
    let mut buf = [0u8; 64];
    let mut wb = WriteBuf::new(&mut buf);
    h.encode(&mut wb).map_err(|e| format!("{:?}", e))?;
    Ok(wb.as_slice().to_vec())
}

fn decode_plain(bytes: &[u8]) -> Result<(PlainFields, usize), String> {
    let mut b = bytes.to_vec();
    let mut pb = ParseBuf::new(&mut b);
    let mut h = PlainHdr::new();
    h.decode(&mut pb).map_err(|e| format!("{:?}", e))?;
    Ok((plain_fields(&h), pb.as_slice().len()))
}

fn cmp_plain(cx: &mut Cx, enc: &PlainFields, dec: &PlainFields, bytes: &[u8]) -> bool {
    let mut ok = true;
    ok &= cx.eq("sess_id", &enc.sess_id, &dec.sess_id, bytes);
    ok &= cx.eq("ctr", &enc.ctr, &dec.ctr, bytes);
    ok &= cx.eq("src_nodeid", &enc.src, &dec.src, bytes);
    ok &= cx.eq("dst_unicast_nodeid", &enc.dst_uni, &dec.dst_uni, bytes);
    ok &= cx.eq("dst_group_id", &enc.dst_grp, &dec.dst_grp, bytes);
    ok &= cx.eq("group_session", &enc.group_session, &dec.group_session, bytes);
    ok &= cx.eq("control_msg", &enc.control, &dec.control, bytes);
    ok &= cx.eq("privacy", &enc.privacy, &dec.privacy, bytes);
    ok
}

fn case_plain(cx: &mut Cx, k: u64, rng: &mut Rng) {
    let f = gen_plain(k, rng);
    let h = build_plain(&f);
    let r = guard(|| -> Result<(Vec<u8>, PlainFields, usize, usize), String> {
        let bytes = encode_plain(&h)?;
        // with a trailing payload: the decoder must stop exactly after the header
        let extra = (k % 5) as usize;
        let mut with_payload = bytes.clone();
        with_payload.extend(std::iter::repeat(0xA5).take(extra));
        let (dec, left) = decode_plain(&with_payload)?;
        Ok((bytes, dec, left, extra))
    });
    match r {
        Err(p) => cx.encoder_panic(&p, format!("{:?}", f)),
        Ok(Err(e)) => cx.rt_fail("refused", format!("{:?} refused: {}", f, e), &[]),
        Ok(Ok((bytes, dec, left, extra))) => {
            cx.sample(format!("{:?}", f), &bytes);
            let mut ok = cmp_plain(cx, &f, &dec, &bytes);
            ok &= cx.eq("header-length", &extra, &left, &bytes);
            if ok {
                cx.rt_ok();
            }
            if f.src.is_some() || f.dst_uni.is_some() || f.dst_grp.is_some() || f.group_session || f.control {
                cx.shape(&[
                    f.src.map(|v| 1 + edge_class(v, 64)).unwrap_or(0),
                    f.dst_uni.map(|v| 1 + edge_class(v, 64)).unwrap_or(0),
                    f.dst_grp.map(|v| 1 + edge_class(v as u64, 16)).unwrap_or(0),
                    f.group_session as u8,
                    f.control as u8,
                    edge_class(f.sess_id as u64, 16),
                    edge_class(f.ctr as u64, 32),
                ]);
            }
            cx.mutate("plain_hdr.decode", &bytes, rng, 3);
            if k < 64 {
                for l in 0..bytes.len() {
                    cx.fuzz("plain_hdr.decode", &bytes[..l], "truncation");
                }
            }
        }
    }

    // Raw flag bytes (all 256 × selected security-flag bytes are walked by k):
    // whatever decodes must survive encode → decode unchanged.
    let fb = (cx.m % 256) as u8;
    let sb = match (cx.m / 256) % 8 {
        0 => 0x00,
        1 => 0x01,
        2 => 0x20,
        3 => 0x40,
        4 => 0x80,
        5 => 0xE1,
        6 => 0x02, // reserved session type
        _ => rng.u64() as u8,
    };
    let mut raw = vec![fb, rng.u64() as u8, rng.u64() as u8, sb];
    raw.extend(rng.bytes(4 + 16 + 2));
    let r = guard(|| -> Option<(PlainFields, Vec<u8>, Result<(PlainFields, usize), String>)> {
        let mut b = raw.clone();
        let mut pb = ParseBuf::new(&mut b);
        let mut h = PlainHdr::new();
        h.decode(&mut pb).ok()?;
        let f1 = plain_fields(&h);
        let b2 = encode_plain(&h).ok()?;
        let d2 = decode_plain(&b2);
        Some((f1, b2, d2))
    });
    cx.rep.evaluations += 1;
    cx.rep.count("plain_hdr:arbitrary_inputs");
    match r {
        Err(p) => {
            cx.rep.count("plain_hdr:panics");
            let sig = format!("C17/plain_hdr/panic/{}", super::c17::panic_class(&p));
            let rj = serde_json::json!({"check":"C17","decoder":"plain_hdr.decode","input": super::c17::hex(&raw), "origin":"raw-flag-bytes"});
            cx.rep.violation("no-panic", &sig, format!("plain header decode/encode of raw bytes {} panicked: {} at {}:{}", super::c17::hex(&raw), p.msg, p.file, p.line), rj);
        }
        Ok(None) => cx.rep.count("plain_hdr:decode_err"),
        Ok(Some((f1, b2, d2))) => {
            cx.rep.count("plain_hdr:decode_ok");
            match d2 {
                Ok((f2, left)) => {
                    let mut ok = cmp_plain(cx, &f1, &f2, &b2);
                    ok &= cx.eq("header-length", &0usize, &left, &b2);
                    if ok {
                        cx.rt_ok();
                        cx.rep.count("plain_hdr:raw_fixed_points");
                        cx.shape(&[0xEE, fb, sb]);
                    }
                }
                Err(e) => cx.rt_fail("refused", format!("re-encoding of decoded header {:?} was refused: {}", f1, e), &b2),
            }
        }
    }
}

// ---------------------------------------------------------------------------------------
// Protocol header
// ---------------------------------------------------------------------------------------

#[derive(Clone, Debug, PartialEq)]
struct ProtoFields {
    exch_id: u16,
    proto_id: u16,
    opcode: u8,
    vendor: Option<u16>,
    ack: Option<u32>,
    reliable: bool,
    initiator: bool,
    secex: bool,
}

fn proto_fields(h: &ProtoHdr) -> ProtoFields {
    ProtoFields {
        exch_id: h.exch_id,
        proto_id: h.proto_id,
        opcode: h.proto_opcode,
        vendor: h.get_vendor(),
        ack: h.get_ack(),
        reliable: h.is_reliable(),
        initiator: h.is_initiator(),
        secex: h.is_security_ext(),
    }
}

fn build_proto(f: &ProtoFields) -> ProtoHdr {
    let mut h = ProtoHdr::new();
    h.exch_id = f.exch_id;
    h.proto_id = f.proto_id;
    h.proto_opcode = f.opcode;
    h.set_vendor(f.vendor);
    h.set_ack(f.ack);
    if f.reliable {
        h.set_reliable();
    }
    if f.initiator {
        h.set_initiator();
    }
    h
}

fn gen_proto(k: u64, rng: &mut Rng) -> ProtoFields {
    const ENUM: u64 = 16 * 16;
    let (combo, row) = if k < ENUM { (k % 16, Some((k / 16) as usize)) } else { (rng.below(16), None) };
    let v16 = |rng: &mut Rng, row: Option<usize>, o: usize| -> u16 {
        match row {
            Some(r) => [0u16, 1, 2, 0xff, 0x100, 0x7fff, 0x8000, 0xfff1, 0xfff4, 0xfffe, 0xffff, 5][(r + o) % 12],
            None => edge(rng, 16) as u16,
        }
    };
    ProtoFields {
        exch_id: v16(rng, row, 0),
        proto_id: v16(rng, row, 3),
        opcode: match row {
            Some(r) => [0u8, 1, 0x10, 0x20, 0x40, 0x7f, 0x80, 0xfe, 0xff][r % 9],
            None => edge(rng, 8) as u8,
        },
        vendor: (combo & 1 != 0).then(|| v16(rng, row, 5)),
        ack: (combo & 2 != 0).then(|| match row {
            Some(r) => [0u32, 1, 0x7fff_ffff, 0x8000_0000, 0xffff_ffff, 0xffff_fffe][r % 6],
            None => edge(rng, 32) as u32,
        }),
        reliable: combo & 4 != 0,
        initiator: combo & 8 != 0,
        secex: false,
    }
}

fn encode_proto(h: &ProtoHdr) -> Result<Vec<u8>, String> {
    let mut buf = [0u8; 32];
    let mut wb = WriteBuf::new(&mut buf);
    h.encode(&mut wb).map_err(|e| format!("{:?}", e))?;
    Ok(wb.as_slice().to_vec())
}

fn decode_proto(bytes: &[u8]) -> Result<(ProtoFields, usize), String> {
    let mut b = bytes.to_vec();
    let mut pb = ParseBuf::new(&mut b);
    let mut h = ProtoHdr::new();
    h.decrypt_and_decode(test_only_crypto(), None, 0, &PlainHdr::new(), &mut pb)
        .map_err(|e| format!("{:?}", e))?;
    Ok((proto_fields(&h), pb.as_slice().len()))
}

fn cmp_proto(cx: &mut Cx, enc: &ProtoFields, dec: &ProtoFields, bytes: &[u8]) -> bool {
    let mut ok = true;
    ok &= cx.eq("exch_id", &enc.exch_id, &dec.exch_id, bytes);
    ok &= cx.eq("proto_id", &enc.proto_id, &dec.proto_id, bytes);
    ok &= cx.eq("proto_opcode", &enc.opcode, &dec.opcode, bytes);
    ok &= cx.eq("vendor_id", &enc.vendor, &dec.vendor, bytes);
    ok &= cx.eq("ack_ctr", &enc.ack, &dec.ack, bytes);
    ok &= cx.eq("reliable", &enc.reliable, &dec.reliable, bytes);
    ok &= cx.eq("initiator", &enc.initiator, &dec.initiator, bytes);
    ok &= cx.eq("security_ext", &enc.secex, &dec.secex, bytes);
    ok
}

fn case_proto(cx: &mut Cx, k: u64, rng: &mut Rng) {
    let f = gen_proto(k, rng);
    let h = build_proto(&f);
    let extra = (cx.m % 4) as usize;
    let r = guard(|| -> Result<(Vec<u8>, ProtoFields, usize), String> {
        let bytes = encode_proto(&h)?;
        let mut wp = bytes.clone();
        wp.extend(std::iter::repeat(0x5A).take(extra));
        let (dec, left) = decode_proto(&wp)?;
        Ok((bytes, dec, left))
    });
    match r {
        Err(p) => cx.encoder_panic(&p, format!("{:?}", f)),
        Ok(Err(e)) => cx.rt_fail("refused", format!("{:?} refused: {}", f, e), &[]),
        Ok(Ok((bytes, dec, left))) => {
            cx.sample(format!("{:?}", f), &bytes);
            let mut ok = cmp_proto(cx, &f, &dec, &bytes);
            ok &= cx.eq("header-length", &extra, &left, &bytes);
            if ok {
                cx.rt_ok();
            }
            if f.vendor.is_some() || f.ack.is_some() {
                cx.shape(&[
                    f.vendor.map(|v| 1 + edge_class(v as u64, 16)).unwrap_or(0),
                    f.ack.map(|v| 1 + edge_class(v as u64, 32)).unwrap_or(0),
                    f.reliable as u8,
                    f.initiator as u8,
                    edge_class(f.exch_id as u64, 16),
                    edge_class(f.proto_id as u64, 16),
                    edge_class(f.opcode as u64, 8),
                ]);
            }
            cx.mutate("proto_hdr.decode", &bytes, rng, 3);
            if k < 64 {
                for l in 0..bytes.len() {
                    cx.fuzz("proto_hdr.decode", &bytes[..l], "truncation");
                }
            }
        }
    }

    // raw exchange-flag bytes: decode → encode → decode
    let fb = (cx.m % 256) as u8;
    let mut raw = vec![fb];
    raw.extend(rng.bytes(5 + 2 + 4 + 3));
    let r = guard(|| -> Option<(ProtoFields, Vec<u8>, Result<(ProtoFields, usize), String>)> {
        let mut b = raw.clone();
        let mut pb = ParseBuf::new(&mut b);
        let mut h = ProtoHdr::new();
        h.decrypt_and_decode(test_only_crypto(), None, 0, &PlainHdr::new(), &mut pb).ok()?;
        let f1 = proto_fields(&h);
        let b2 = encode_proto(&h).ok()?;
        Some((f1, b2.clone(), decode_proto(&b2)))
    });
    cx.rep.evaluations += 1;
    cx.rep.count("proto_hdr:arbitrary_inputs");
    match r {
        Err(p) => {
            cx.rep.count("proto_hdr:panics");
            let sig = format!("C17/proto_hdr/panic/{}", super::c17::panic_class(&p));
            let rj = serde_json::json!({"check":"C17","decoder":"proto_hdr.decode","input": super::c17::hex(&raw), "origin":"raw-flag-bytes"});
            cx.rep.violation("no-panic", &sig, format!("protocol header decode/encode of raw bytes {} panicked: {} at {}:{}", super::c17::hex(&raw), p.msg, p.file, p.line), rj);
        }
        Ok(None) => cx.rep.count("proto_hdr:decode_err"),
        Ok(Some((f1, b2, d2))) => {
            cx.rep.count("proto_hdr:decode_ok");
            match d2 {
                Ok((f2, left)) => {
                    let mut ok = cmp_proto(cx, &f1, &f2, &b2);
                    ok &= cx.eq("header-length", &0usize, &left, &b2);
                    if ok {
                        cx.rt_ok();
                        cx.rep.count("proto_hdr:raw_fixed_points");
                        cx.shape(&[0xEE, fb]);
                    }
                }
                Err(e) => cx.rt_fail("refused", format!("re-encoding of decoded header {:?} was refused: {}", f1, e), &b2),
            }
        }
    }
}

// ---------------------------------------------------------------------------------------
// Whole packet: plain header + (encrypted) protocol header + payload
// ---------------------------------------------------------------------------------------

fn case_packet(cx: &mut Cx, k: u64, rng: &mut Rng) {
    let mut pf = gen_plain(k, rng);
    let prf = gen_proto(k / 3, rng);
    let encrypted = cx.m % 4 != 0;
    if encrypted && pf.sess_id == 0 && !pf.group_session {
        pf.sess_id = 1 + (rng.below(0xffff) as u16);
    }
    if !encrypted {
        pf.sess_id = 0;
        pf.group_session = false;
    }
    let plen = match k % 7 {
        0 => 0,
        1 => 1,
        2 => 15,
        3 => 16,
        4 => 17,
        5 => rng.usize(1200),
        _ => rng.usize(64),
    };
    let payload = rng.bytes(plen);
    let mut key = [0u8; 16];
    key.copy_from_slice(&rng.bytes(16));
    let node = node_id(rng, None);

    let mut hdr = PacketHdr::new();
    hdr.plain = build_plain(&pf);
    hdr.proto = build_proto(&prf);

    let r = guard(|| -> Result<(Vec<u8>, PlainFields, ProtoFields, Vec<u8>), String> {
        let crypto = test_only_crypto();
        let mut buf = vec![0u8; PacketHdr::HDR_RESERVE + plen + PacketHdr::TAIL_RESERVE + 8];
        let mut wb = WriteBuf::new(&mut buf);
        wb.reserve(PacketHdr::HDR_RESERVE).map_err(|e| format!("reserve {:?}", e))?;
        wb.append(&payload).map_err(|e| format!("append {:?}", e))?;
        let kref = CanonAeadKeyRef::new(&key);
        hdr.encode(&crypto, encrypted.then_some(kref), node, &mut wb)
            .map_err(|e| format!("encode {:?}", e))?;
        let bytes = wb.as_slice().to_vec();

        let mut b = bytes.clone();
        let mut pb = ParseBuf::new(&mut b);
        let mut d = PacketHdr::new();
        d.decode_plain_hdr(&mut pb).map_err(|e| format!("decode plain {:?}", e))?;
        d.decode_remaining(&crypto, encrypted.then_some(kref), node, &mut pb)
            .map_err(|e| format!("decode remaining {:?}", e))?;
        Ok((bytes, plain_fields(&d.plain), proto_fields(&d.proto), pb.as_slice().to_vec()))
    });
    match r {
        Err(p) => cx.encoder_panic(&p, format!("{:?} {:?} payload {} encrypted {}", pf, prf, plen, encrypted)),
        Ok(Err(e)) => cx.rt_fail("refused", format!("{:?} {:?} payload {} encrypted {}: {}", pf, prf, plen, encrypted, e), &[]),
        Ok(Ok((bytes, dp, dpr, dpayload))) => {
            cx.sample(format!("{:?} {:?} payload {} bytes, encrypted {}", pf, prf, plen, encrypted), &bytes);
            let mut ok = cmp_plain(cx, &pf, &dp, &bytes);
            ok &= cmp_proto(cx, &prf, &dpr, &bytes);
            if dpayload != payload {
                cx.mismatch("payload", format!("payload of {} bytes decoded as {} bytes", payload.len(), dpayload.len()), &bytes);
                ok = false;
            }
            if ok {
                cx.rt_ok();
            }
            cx.shape(&[encrypted as u8, (plen.min(255)) as u8 / 16, pf.src.is_some() as u8, pf.dst_uni.is_some() as u8, pf.dst_grp.is_some() as u8, prf.vendor.is_some() as u8, prf.ack.is_some() as u8]);
            let mut input = key.to_vec();
            input.extend(node.to_le_bytes());
            let pre = input.len();
            input.extend(&bytes);
            // mutate only the datagram part
            for _ in 0..3 {
                let mut v = input.clone();
                match rng.below(4) {
                    0 => {
                        let l = pre + rng.usize(bytes.len() + 1);
                        v.truncate(l);
                        cx.fuzz("packet.decode", &v, "truncation");
                    }
                    1 if !bytes.is_empty() => {
                        let p = pre + rng.usize(bytes.len());
                        v[p] ^= 1 << rng.below(8);
                        cx.fuzz("packet.decode", &v, "bit-flip");
                    }
                    2 if !bytes.is_empty() => {
                        let p = pre + rng.usize(bytes.len().min(12));
                        v[p] = rng.u64() as u8;
                        cx.fuzz("packet.decode", &v, "header-byte-substitution");
                    }
                    _ => {
                        // a short encrypted datagram: header + fewer bytes than the tag
                        let l = pre + 8 + rng.usize(20);
                        v.truncate(l.min(v.len()));
                        cx.fuzz("packet.decode", &v, "shorter-than-tag");
                    }
                }
            }
            if k < 32 {
                cx.fuzz("packet.decode", &input, "valid");
            }
        }
    }
}

// ---------------------------------------------------------------------------------------
// Status report
// ---------------------------------------------------------------------------------------

const GENERAL_CODES: [GeneralCode; 17] = [
    GeneralCode::Success,
    GeneralCode::Failure,
    GeneralCode::BadPrecondition,
    GeneralCode::OutOfRange,
    GeneralCode::BadRequest,
    GeneralCode::Unsupported,
    GeneralCode::Unexpected,
    GeneralCode::ResourceExhausted,
    GeneralCode::Busy,
    GeneralCode::Timeout,
    GeneralCode::Continue,
    GeneralCode::Aborted,
    GeneralCode::InvalidArgument,
    GeneralCode::NotFound,
    GeneralCode::AlreadyExists,
    GeneralCode::PermissionDenied,
    GeneralCode::DataLoss,
];

fn case_status(cx: &mut Cx, k: u64, rng: &mut Rng) {
    let gc = GENERAL_CODES[(k % 17) as usize];
    let proto_id = match (k / 17) % 6 {
        0 => 0,
        1 => 2,
        2 => 0xffff,
        3 => 0xfff1_0000,
        4 => 0xffff_ffff,
        _ => edge(rng, 32) as u32,
    };
    let proto_code = match (k / 102) % 5 {
        0 => 0,
        1 => 5,
        2 => 0xffff,
        3 => 0x005f,
        _ => edge(rng, 16) as u16,
    };
    let dlen = match (k / 510) % 6 {
        0 => 0,
        1 => 1,
        2 => 2,
        3 => rng.usize(16),
        4 => rng.usize(256),
        _ => rng.usize(1200),
    };
    let data = rng.bytes(dlen);
    let sr = StatusReport {
        general_code: gc,
        proto_id,
        proto_code,
        proto_data: &data,
    };
    let r = guard(|| -> Result<(Vec<u8>, u16, u32, u16, Vec<u8>), String> {
        let mut buf = vec![0u8; 8 + dlen];
        let mut wb = WriteBuf::new(&mut buf);
        sr.write(&mut wb).map_err(|e| format!("write {:?}", e))?;
        let bytes = wb.as_slice().to_vec();
        let mut rb = ReadBuf::new(&bytes[..]);
        let d = StatusReport::read(&mut rb).map_err(|e| format!("read {:?}", e))?;
        let out = (d.general_code as u16, d.proto_id, d.proto_code, d.proto_data.to_vec());
        Ok((bytes, out.0, out.1, out.2, out.3))
    });
    match r {
        Err(p) => cx.encoder_panic(&p, format!("{:?}", sr)),
        Ok(Err(e)) => cx.rt_fail("refused", format!("{:?}: {}", sr, e), &[]),
        Ok(Ok((bytes, g, pi, pc, pd))) => {
            cx.sample(format!("general {:?} proto_id {:#x} proto_code {:#x} data {} bytes", gc, proto_id, proto_code, dlen), &bytes);
            let mut ok = cx.eq("general_code", &(gc as u16), &g, &bytes);
            ok &= cx.eq("proto_id", &proto_id, &pi, &bytes);
            ok &= cx.eq("proto_code", &proto_code, &pc, &bytes);
            ok &= cx.eq("proto_data", &data, &pd, &bytes);
            if ok {
                cx.rt_ok();
            }
            if dlen > 0 || gc as u16 != 0 {
                cx.shape(&[gc as u8, edge_class(proto_id as u64, 32), edge_class(proto_code as u64, 16), (dlen.min(2040) / 8) as u8]);
            }
            cx.mutate("status_report.read", &bytes, rng, 2);
            if k < 40 {
                for l in 0..bytes.len().min(12) {
                    cx.fuzz("status_report.read", &bytes[..l], "truncation");
                }
            }
            // the two public report constructors
            if k % 3 == 0 {
                use rs_matter::bdx::BdxStatus;
                use rs_matter::sc::SCStatusCodes;
                const SC: [SCStatusCodes; 6] = [
                    SCStatusCodes::SessionEstablishmentSuccess,
                    SCStatusCodes::NoSharedTrustRoots,
                    SCStatusCodes::InvalidParameter,
                    SCStatusCodes::CloseSession,
                    SCStatusCodes::Busy,
                    SCStatusCodes::SessionNotFound,
                ];
                const BX: [BdxStatus; 14] = [
                    BdxStatus::LengthTooLarge,
                    BdxStatus::LengthTooShort,
                    BdxStatus::LengthMismatch,
                    BdxStatus::LengthRequired,
                    BdxStatus::BadMessageContents,
                    BdxStatus::BadBlockCounter,
                    BdxStatus::UnexpectedMessage,
                    BdxStatus::ResponderBusy,
                    BdxStatus::TransferFailedUnknownError,
                    BdxStatus::TransferMethodNotSupported,
                    BdxStatus::FileDesignatorUnknown,
                    BdxStatus::StartOffsetNotSupported,
                    BdxStatus::VersionNotSupported,
                    BdxStatus::Unknown,
                ];
                let sc = SC[(k / 3 % 6) as usize];
                let bx = BX[(k / 3 % 14) as usize];
                let pl = &data[..data.len().min(8)];
                let r = guard(|| -> Result<(Vec<u8>, (u16, u32, u16, Vec<u8>), Vec<u8>, (u16, u32, u16, Vec<u8>)), String> {
                    let mut b1 = [0u8; 32];
                    let mut wb = WriteBuf::new(&mut b1);
                    rs_matter::sc::sc_write(&mut wb, sc, pl).map_err(|e| format!("sc_write {:?}", e))?;
                    let e1 = wb.as_slice().to_vec();
                    let mut rb = ReadBuf::new(&e1[..]);
                    let d1 = StatusReport::read(&mut rb).map_err(|e| format!("read {:?}", e))?;
                    let o1 = (d1.general_code as u16, d1.proto_id, d1.proto_code, d1.proto_data.to_vec());
                    let mut b2 = [0u8; 32];
                    let mut wb = WriteBuf::new(&mut b2);
                    bx.as_report().write(&mut wb).map_err(|e| format!("bdx write {:?}", e))?;
                    let e2 = wb.as_slice().to_vec();
                    let mut rb = ReadBuf::new(&e2[..]);
                    let d2 = StatusReport::read(&mut rb).map_err(|e| format!("read {:?}", e))?;
                    let o2 = (d2.general_code as u16, d2.proto_id, d2.proto_code, d2.proto_data.to_vec());
                    Ok((e1, o1, e2, o2))
                });
                match r {
                    Err(p) => cx.encoder_panic(&p, format!("{:?} / {:?}", sc, bx)),
                    Ok(Err(e)) => cx.rt_fail("constructor/refused", format!("{:?} / {:?}: {}", sc, bx, e), &[]),
                    Ok(Ok((e1, o1, e2, o2))) => {
                        let want1 = sc.as_report(pl);
                        let mut ok = cx.eq("sc/fields", &(want1.general_code as u16, 0u32, sc as u16, pl.to_vec()), &o1, &e1);
                        ok &= cx.eq("bdx/fields", &(GeneralCode::Failure as u16, 2u32, bx as u16, vec![]), &o2, &e2);
                        if ok {
                            cx.rt_ok();
                        }
                    }
                }
            }
            // out-of-range general codes: decoder may refuse or not, never panic
            let mut b2 = bytes.clone();
            let code = 17 + (rng.below(0xffff - 17) as u16);
            b2[0] = code as u8;
            b2[1] = (code >> 8) as u8;
            if cx.fuzz("status_report.read", &b2, "unknown-general-code") == Some(true) {
                cx.rep.note("status report: unknown general code accepted (not judged)");
            }
        }
    }
}

// ---------------------------------------------------------------------------------------
// BDX
// ---------------------------------------------------------------------------------------

fn gen_tc(k: u64) -> TransferControl {
    TransferControl {
        version: (k % 16) as u8,
        sender_drive: (k / 16) % 2 == 1,
        receiver_drive: (k / 32) % 2 == 1,
        async_mode: (k / 64) % 2 == 1,
    }
}

fn gen_rc(k: u64) -> RangeControl {
    RangeControl {
        def_len: k % 2 == 1,
        start_offset: (k / 2) % 2 == 1,
        wide_range: (k / 4) % 2 == 1,
    }
}

fn range_val(rng: &mut Rng, wide: bool) -> u64 {
    if wide {
        match rng.below(6) {
            0 => 0x1_0000_0000,
            1 => u64::MAX,
            2 => 0xffff_ffff,
            _ => edge(rng, 64),
        }
    } else {
        edge(rng, 32)
    }
}

fn case_bdx(cx: &mut Cx, k: u64, rng: &mut Rng) {
    let kind = cx.m % 6;
    let kk = cx.m / 6;
    match kind {
        0 => {
            // TransferInit (SendInit / ReceiveInit share the format)
            let tc = gen_tc(kk);
            let rc = gen_rc(kk / 128);
            let mbs = edge(rng, 16) as u16;
            let start = if rc.start_offset { range_val(rng, rc.wide_range) } else { 0 };
            let length = if rc.def_len { range_val(rng, rc.wide_range) } else { 0 };
            let fdl = match kk % 5 {
                0 => 0,
                1 => 1,
                2 => rng.usize(32),
                3 => 255 + rng.usize(3),
                _ => rng.usize(700),
            };
            let mdl = match kk % 4 {
                0 => 0,
                1 => 1,
                _ => rng.usize(300),
            };
            let fd = rng.bytes(fdl);
            let md = rng.bytes(mdl);
            let msg = TransferInit {
                transfer_control: tc,
                range_control: rc,
                max_block_size: mbs,
                start_offset: start,
                length,
                file_designator: &fd,
                metadata: &md,
            };
            let r = guard(|| -> Result<(Vec<u8>, TransferControl, RangeControl, u16, u64, u64, Vec<u8>, Vec<u8>), String> {
                let mut buf = vec![0u8; 32 + fdl + mdl];
                let mut wb = WriteBuf::new(&mut buf);
                msg.write(&mut wb).map_err(|e| format!("write {:?}", e))?;
                let bytes = wb.as_slice().to_vec();
                let d = TransferInit::parse(&bytes).map_err(|e| format!("parse {:?}", e))?;
                let out = (d.transfer_control, d.range_control, d.max_block_size, d.start_offset, d.length, d.file_designator.to_vec(), d.metadata.to_vec());
                Ok((bytes, out.0, out.1, out.2, out.3, out.4, out.5, out.6))
            });
            match r {
                Err(p) => cx.encoder_panic(&p, format!("{:?}", msg)),
                Ok(Err(e)) => cx.rt_fail("init/refused", format!("{:?}: {}", msg, e), &[]),
                Ok(Ok((bytes, dtc, drc, dm, ds, dl, dfd, dmd))) => {
                    cx.sample(format!("TransferInit {:?} {:?} mbs {} start {} length {} fd {} bytes md {} bytes", tc, rc, mbs, start, length, fdl, mdl), &bytes);
                    let mut ok = cx.eq("init/transfer_control", &tc, &dtc, &bytes);
                    ok &= cx.eq("init/range_control", &rc, &drc, &bytes);
                    ok &= cx.eq("init/max_block_size", &mbs, &dm, &bytes);
                    ok &= cx.eq("init/start_offset", &start, &ds, &bytes);
                    ok &= cx.eq("init/length", &length, &dl, &bytes);
                    ok &= cx.eq("init/file_designator", &fd, &dfd, &bytes);
                    ok &= cx.eq("init/metadata", &md, &dmd, &bytes);
                    if ok {
                        cx.rt_ok();
                    }
                    cx.shape(&[0, (kk % 128) as u8, ((kk / 128) % 8) as u8, (fdl.min(1020) / 4) as u8, (mdl > 0) as u8, edge_class(start, 64), edge_class(length, 64)]);
                    cx.mutate("bdx.init.parse", &bytes, rng, 3);
                    if k < 600 {
                        for l in 0..bytes.len().min(24) {
                            cx.fuzz("bdx.init.parse", &bytes[..l], "truncation");
                        }
                    }
                }
            }
        }
        1 | 2 => {
            let receive = kind == 2;
            let tc = gen_tc(kk);
            let rc = if receive {
                let mut r = gen_rc(kk / 128);
                // start offset is not part of ReceiveAccept; the bit still round-trips
                if kk % 3 != 0 {
                    r.start_offset = false;
                }
                r
            } else {
                RangeControl::default()
            };
            let mbs = edge(rng, 16) as u16;
            let length = if receive && rc.def_len { range_val(rng, rc.wide_range) } else { 0 };
            let mdl = match kk % 4 {
                0 => 0,
                1 => 1,
                _ => rng.usize(300),
            };
            let md = rng.bytes(mdl);
            let msg = TransferAccept {
                receive,
                transfer_control: tc,
                range_control: rc,
                max_block_size: mbs,
                length,
                metadata: &md,
            };
            let r = guard(|| -> Result<(Vec<u8>, bool, TransferControl, RangeControl, u16, u64, Vec<u8>), String> {
                let mut buf = vec![0u8; 32 + mdl];
                let mut wb = WriteBuf::new(&mut buf);
                msg.write(&mut wb).map_err(|e| format!("write {:?}", e))?;
                let bytes = wb.as_slice().to_vec();
                let d = TransferAccept::parse(receive, &bytes).map_err(|e| format!("parse {:?}", e))?;
                let out = (d.receive, d.transfer_control, d.range_control, d.max_block_size, d.length, d.metadata.to_vec());
                Ok((bytes, out.0, out.1, out.2, out.3, out.4, out.5))
            });
            let dn = if receive { "bdx.accept.recv.parse" } else { "bdx.accept.send.parse" };
            match r {
                Err(p) => cx.encoder_panic(&p, format!("{:?}", msg)),
                Ok(Err(e)) => cx.rt_fail("accept/refused", format!("{:?}: {}", msg, e), &[]),
                Ok(Ok((bytes, drcv, dtc, drc, dm, dl, dmd))) => {
                    let mut ok = cx.eq("accept/receive", &receive, &drcv, &bytes);
                    ok &= cx.eq("accept/transfer_control", &tc, &dtc, &bytes);
                    ok &= cx.eq("accept/range_control", &rc, &drc, &bytes);
                    ok &= cx.eq("accept/max_block_size", &mbs, &dm, &bytes);
                    ok &= cx.eq("accept/length", &length, &dl, &bytes);
                    ok &= cx.eq("accept/metadata", &md, &dmd, &bytes);
                    if ok {
                        cx.rt_ok();
                    }
                    cx.shape(&[1 + receive as u8, (kk % 128) as u8, ((kk / 128) % 8) as u8, (mdl > 0) as u8, edge_class(length, 64)]);
                    cx.mutate(dn, &bytes, rng, 3);
                    if k < 600 {
                        for l in 0..bytes.len().min(16) {
                            cx.fuzz(dn, &bytes[..l], "truncation");
                        }
                    }
                }
            }
        }
        3 => {
            // Block / BlockEof
            let ctr = edge(rng, 32) as u32;
            let dl = match kk % 6 {
                0 => 0,
                1 => 1,
                2 => rng.usize(64),
                3 => 1024,
                _ => rng.usize(1300),
            };
            let data = rng.bytes(dl);
            let msg = Block { block_counter: ctr, data: &data };
            let r = guard(|| -> Result<(Vec<u8>, u32, Vec<u8>), String> {
                let mut buf = vec![0u8; 8 + dl];
                let mut wb = WriteBuf::new(&mut buf);
                msg.write(&mut wb).map_err(|e| format!("write {:?}", e))?;
                let bytes = wb.as_slice().to_vec();
                let d = Block::parse(&bytes).map_err(|e| format!("parse {:?}", e))?;
                let out = (d.block_counter, d.data.to_vec());
                Ok((bytes, out.0, out.1))
            });
            match r {
                Err(p) => cx.encoder_panic(&p, format!("block ctr {} len {}", ctr, dl)),
                Ok(Err(e)) => cx.rt_fail("block/refused", format!("block ctr {} len {}: {}", ctr, dl, e), &[]),
                Ok(Ok((bytes, dc, dd))) => {
                    let mut ok = cx.eq("block/block_counter", &ctr, &dc, &bytes);
                    ok &= cx.eq("block/data", &data, &dd, &bytes);
                    if ok {
                        cx.rt_ok();
                    }
                    cx.shape(&[3, edge_class(ctr as u64, 32), (dl.min(2040) / 8) as u8]);
                    cx.mutate("bdx.block.parse", &bytes, rng, 2);
                    for l in 0..bytes.len().min(5) {
                        cx.fuzz("bdx.block.parse", &bytes[..l], "truncation");
                    }
                }
            }
        }
        4 => {
            // BlockQuery / BlockAck / BlockAckEof
            let ctr = edge(rng, 32) as u32;
            let msg = BlockQuery { block_counter: ctr };
            let r = guard(|| -> Result<(Vec<u8>, BlockQuery), String> {
                let mut buf = [0u8; 8];
                let mut wb = WriteBuf::new(&mut buf);
                msg.write(&mut wb).map_err(|e| format!("write {:?}", e))?;
                let bytes = wb.as_slice().to_vec();
                let d = BlockQuery::parse(&bytes).map_err(|e| format!("parse {:?}", e))?;
                Ok((bytes, d))
            });
            match r {
                Err(p) => cx.encoder_panic(&p, format!("{:?}", msg)),
                Ok(Err(e)) => cx.rt_fail("query/refused", format!("{:?}: {}", msg, e), &[]),
                Ok(Ok((bytes, d))) => {
                    if cx.eq("query/block_counter", &msg, &d, &bytes) {
                        cx.rt_ok();
                    }
                    cx.shape(&[4, edge_class(ctr as u64, 32)]);
                    cx.mutate("bdx.query.parse", &bytes, rng, 2);
                    for l in 0..bytes.len() {
                        cx.fuzz("bdx.query.parse", &bytes[..l], "truncation");
                    }
                }
            }
        }
        _ => {
            let ctr = edge(rng, 32) as u32;
            let skip = edge(rng, 64);
            let msg = BlockQueryWithSkip { block_counter: ctr, bytes_to_skip: skip };
            let r = guard(|| -> Result<(Vec<u8>, BlockQueryWithSkip), String> {
                let mut buf = [0u8; 16];
                let mut wb = WriteBuf::new(&mut buf);
                msg.write(&mut wb).map_err(|e| format!("write {:?}", e))?;
                let bytes = wb.as_slice().to_vec();
                let d = BlockQueryWithSkip::parse(&bytes).map_err(|e| format!("parse {:?}", e))?;
                Ok((bytes, d))
            });
            match r {
                Err(p) => cx.encoder_panic(&p, format!("{:?}", msg)),
                Ok(Err(e)) => cx.rt_fail("skip/refused", format!("{:?}: {}", msg, e), &[]),
                Ok(Ok((bytes, d))) => {
                    if cx.eq("skip/fields", &msg, &d, &bytes) {
                        cx.rt_ok();
                    }
                    cx.shape(&[5, edge_class(ctr as u64, 32), edge_class(skip, 64)]);
                    cx.mutate("bdx.skip.parse", &bytes, rng, 2);
                    for l in 0..bytes.len() {
                        cx.fuzz("bdx.skip.parse", &bytes[..l], "truncation");
                    }
                }
            }
        }
    }
}

// ---------------------------------------------------------------------------------------
// Check-in message
// ---------------------------------------------------------------------------------------

const CHECKIN_COUNTERS: [u32; 10] = [0, 1, 2, 0x7fff_ffff, 0x8000_0000, 0x8000_0001, 0xffff_fffe, 0xffff_ffff, 0x100, 0xffff];

fn case_checkin(cx: &mut Cx, k: u64, rng: &mut Rng) {
    let counter = if k % 3 != 2 { CHECKIN_COUNTERS[(k / 3 % 10) as usize] } else { rng.u32() };
    let alen = match (k / 30) % 8 {
        0 => 0,
        1 => 1,
        2 => 2,
        3 => 15,
        4 => 16,
        5 => 17,
        6 => rng.usize(65),
        _ => rng.usize(1201),
    };
    let app = rng.bytes(alen);
    let mut key = [0u8; 16];
    match (k / 240) % 4 {
        0 => key = [0u8; 16],
        1 => key = [0xffu8; 16],
        _ => key.copy_from_slice(&rng.bytes(16)),
    }
    // Use the harness PRNG as the backend's randomness source every other case.
    let m = cx.m;
    let r = guard(|| -> Result<(Vec<u8>, u32, Vec<u8>), String> {
        let ci = CheckIn::new(CanonAeadKeyRef::new(&key));
        let total = CheckIn::payload_len(alen);
        // exact-size and over-sized output buffers
        let mut out = vec![0u8; total + (m % 2) as usize * 7];
        let msg = if m % 2 == 0 {
            ci.generate(test_only_crypto(), counter, &app, &mut out)
        } else {
            let c = default_crypto(Rng::new(k), DAC_PRIVKEY);
            ci.generate(&c, counter, &app, &mut out)
        }
        .map_err(|e| format!("generate {:?}", e))?
        .to_vec();
        if msg.len() != total {
            return Err(format!("generate returned {} bytes, payload_len says {}", msg.len(), total));
        }
        let mut m2 = msg.clone();
        let d = ci.parse(test_only_crypto(), &mut m2).map_err(|e| format!("parse {:?}", e))?;
        let o = (d.counter, d.app_data.to_vec());
        Ok((msg, o.0, o.1))
    });
    match r {
        Err(p) => cx.encoder_panic(&p, format!("counter {} app_data {} bytes", counter, alen)),
        Ok(Err(e)) => cx.rt_fail("refused", format!("counter {} app_data {} bytes: {}", counter, alen, e), &[]),
        Ok(Ok((msg, dc, da))) => {
            cx.sample(format!("counter {:#x} app_data {} bytes", counter, alen), &msg);
            let mut ok = cx.eq("counter", &counter, &dc, &msg);
            ok &= cx.eq("app_data", &app, &da, &msg);
            if ok {
                cx.rt_ok();
            }
            cx.shape(&[edge_class(counter as u64, 32), (alen.min(2040) / 8) as u8, ((k / 240) % 4).min(2) as u8]);

            let mut input = key.to_vec();
            input.extend(&msg);
            // too-small output buffer: must be refused, not panic
            let small = guard(|| {
                let ci = CheckIn::new(CanonAeadKeyRef::new(&key));
                let mut out = vec![0u8; CheckIn::payload_len(alen) - 1 - rng.usize(4).min(CheckIn::payload_len(alen) - 1)];
                ci.generate(test_only_crypto(), counter, &app, &mut out).is_ok()
            });
            match small {
                Err(p) => cx.encoder_panic(&p, "generate into a too small buffer".into()),
                Ok(true) => cx.rt_fail("short-buffer-accepted", "generate succeeded into a buffer smaller than payload_len".into(), &msg),
                Ok(false) => {}
            }
            for _ in 0..3 {
                let mut v = input.clone();
                match rng.below(4) {
                    0 => {
                        v.truncate(16 + rng.usize(msg.len()));
                        cx.fuzz("checkin.parse", &v, "truncation");
                    }
                    1 => {
                        let p = 16 + rng.usize(msg.len());
                        v[p] ^= 1 << rng.below(8);
                        if cx.fuzz("checkin.parse", &v, "bit-flip") == Some(true) {
                            cx.rep.note("check-in: a bit-flipped message was accepted (authenticity is not part of C17; not judged)");
                        }
                    }
                    2 => {
                        let p = rng.usize(16);
                        v[p] ^= 1 << rng.below(8);
                        cx.fuzz("checkin.parse", &v, "wrong-key");
                    }
                    _ => {
                        let extra = 1 + rng.usize(8);
                        v.extend(rng.bytes(extra));
                        cx.fuzz("checkin.parse", &v, "appended-garbage");
                    }
                }
            }
            if k < 16 {
                for l in 0..msg.len() {
                    cx.fuzz("checkin.parse", &input[..16 + l], "truncation");
                }
                cx.fuzz("checkin.parse", &input, "valid");
            }
        }
    }
}

// ---------------------------------------------------------------------------------------
// ParseBuf / WriteBuf primitives
// ---------------------------------------------------------------------------------------

#[derive(Clone, Debug)]
enum W {
    U8(u8),
    U16(u16),
    U32(u32),
    U64(u64),
    Bytes(Vec<u8>),
    Prepend(Vec<u8>),
}

fn case_bufs(cx: &mut Cx, k: u64, rng: &mut Rng) {
    // every capacity 0..=40 and every reserve 0..=capacity are walked by k
    let cap = (k % 41) as usize;
    let reserve = ((k / 41) % 42) as usize;
    let reserve = reserve.min(cap + 1); // cap+1: must be refused
    let nops = 1 + rng.usize(10);
    let mut ops = Vec::new();
    for _ in 0..nops {
        ops.push(match rng.below(8) {
            0 => W::U8(edge(rng, 8) as u8),
            1 => W::U16(edge(rng, 16) as u16),
            2 => W::U32(edge(rng, 32) as u32),
            3 => W::U64(edge(rng, 64)),
            4 | 5 => {
                let n = rng.usize(6);
                W::Bytes(rng.bytes(n))
            }
            _ => {
                let n = rng.usize(5);
                W::Prepend(rng.bytes(n))
            }
        });
    }
    let ops2 = ops.clone();
    let r = guard(move || -> Result<(), (String, String)> {
        let mut mem = vec![0xCCu8; cap];
        let mut wb = WriteBuf::new(&mut mem);
        let res = wb.reserve(reserve);
        if reserve > cap {
            if res.is_ok() {
                return Err(("reserve".into(), format!("reserve({}) accepted on a {}-byte buffer", reserve, cap)));
            }
            return Ok(());
        }
        if res.is_err() {
            return Err(("reserve".into(), format!("reserve({}) refused on a fresh {}-byte buffer", reserve, cap)));
        }
        // model: bytes before (prepended, in order) and after
        let mut model: std::collections::VecDeque<u8> = Default::default();
        let mut start = reserve;
        let mut end = reserve;
        // (offset-from-front-at-read-time is derived from the model afterwards)
        let mut appended: Vec<W> = Vec::new();
        for op in &ops2 {
            let (bytes, pre): (Vec<u8>, bool) = match op {
                W::U8(v) => (vec![*v], false),
                W::U16(v) => (v.to_le_bytes().to_vec(), false),
                W::U32(v) => (v.to_le_bytes().to_vec(), false),
                W::U64(v) => (v.to_le_bytes().to_vec(), false),
                W::Bytes(b) => (b.clone(), false),
                W::Prepend(b) => (b.clone(), true),
            };
            let fits = if pre { bytes.len() <= start } else { end + bytes.len() <= cap };
            let res = match op {
                W::U8(v) => wb.le_u8(*v),
                W::U16(v) => wb.le_u16(*v),
                W::U32(v) => wb.le_u32(*v),
                W::U64(v) => wb.le_u64(*v),
                W::Bytes(b) => wb.append(b),
                W::Prepend(b) => wb.prepend(b),
            };
            if res.is_ok() != fits {
                return Err((
                    "capacity".into(),
                    format!("{:?} on buffer cap {} start {} end {}: returned {:?}, fits = {}", op, cap, start, end, res.is_ok(), fits),
                ));
            }
            if fits {
                if pre {
                    for b in bytes.iter().rev() {
                        model.push_front(*b);
                    }
                    start -= bytes.len();
                } else {
                    model.extend(bytes.iter());
                    end += bytes.len();
                    appended.push(op.clone());
                }
            }
            let now: Vec<u8> = model.iter().copied().collect();
            if wb.as_slice() != &now[..] {
                return Err(("contents".into(), format!("after {:?}: buffer holds {:02x?}, expected {:02x?}", op, wb.as_slice(), now)));
            }
            if wb.get_start() != start || wb.get_tail() != end {
                return Err(("offsets".into(), format!("after {:?}: start/tail {}/{} expected {}/{}", op, wb.get_start(), wb.get_tail(), start, end)));
            }
        }
        // read back everything that was appended, after skipping the prepended part
        let mut written: Vec<u8> = model.iter().copied().collect();
        let total = written.len();
        let pre_len = total - appended.iter().map(|o| match o {
            W::U8(_) => 1,
            W::U16(_) => 2,
            W::U32(_) => 4,
            W::U64(_) => 8,
            W::Bytes(b) => b.len(),
            W::Prepend(_) => 0,
        }).sum::<usize>();
        let copy = written.clone();
        let mut pb = ParseBuf::new(&mut written);
        for i in 0..pre_len {
            let v = pb.le_u8().map_err(|e| ("read".to_string(), format!("le_u8 at {} of {}: {:?}", i, total, e)))?;
            if v != copy[i] {
                return Err(("le_u8".into(), format!("offset {}: read {:#x}, written {:#x}", i, v, copy[i])));
            }
        }
        let mut off = pre_len;
        for op in &appended {
            match op {
                W::U8(v) => {
                    let g = pb.le_u8().map_err(|e| ("read".to_string(), format!("le_u8 at {}: {:?}", off, e)))?;
                    if g != *v {
                        return Err(("le_u8".into(), format!("offset {}: read {:#x}, written {:#x}", off, g, v)));
                    }
                    off += 1;
                }
                W::U16(v) => {
                    let g = pb.le_u16().map_err(|e| ("read".to_string(), format!("le_u16 at {}: {:?}", off, e)))?;
                    if g != *v {
                        return Err(("le_u16".into(), format!("offset {}: read {:#x}, written {:#x}", off, g, v)));
                    }
                    off += 2;
                }
                W::U32(v) => {
                    let g = pb.le_u32().map_err(|e| ("read".to_string(), format!("le_u32 at {}: {:?}", off, e)))?;
                    if g != *v {
                        return Err(("le_u32".into(), format!("offset {}: read {:#x}, written {:#x}", off, g, v)));
                    }
                    off += 4;
                }
                W::U64(v) => {
                    let g = pb.le_u64().map_err(|e| ("read".to_string(), format!("le_u64 at {}: {:?}", off, e)))?;
                    if g != *v {
                        return Err(("le_u64".into(), format!("offset {}: read {:#x}, written {:#x}", off, g, v)));
                    }
                    off += 8;
                }
                W::Bytes(b) => {
                    // slices: compare through as_slice and consume byte-wise
                    if &pb.as_slice()[..b.len()] != &b[..] {
                        return Err(("slice".into(), format!("offset {}: slice differs", off)));
                    }
                    for _ in 0..b.len() {
                        pb.le_u8().map_err(|e| ("read".to_string(), format!("le_u8 at {}: {:?}", off, e)))?;
                    }
                    off += b.len();
                }
                W::Prepend(_) => {}
            }
            if pb.read_off() != off || pb.parsed_as_slice() != &copy[..off] || pb.as_slice() != &copy[off..] {
                return Err(("offsets".into(), format!("after reading up to {}: read_off {}", off, pb.read_off())));
            }
        }
        // exhausted: every primitive must now refuse and leave the state alone
        if pb.le_u8().is_ok() || pb.le_u16().is_ok() || pb.le_u32().is_ok() || pb.le_u64().is_ok() || pb.tail(1).is_ok() {
            return Err(("overrun".into(), "a read on an exhausted buffer succeeded".into()));
        }
        if pb.tail(0).is_err() {
            return Err(("tail".into(), "tail(0) on an exhausted buffer failed".into()));
        }
        Ok(())
    });
    match r {
        Err(p) => cx.encoder_panic(&p, format!("cap {} reserve {} ops {:?}", cap, reserve, ops)),
        Ok(Err((field, detail))) => cx.mismatch(&field, format!("cap {} reserve {} ops {:?}: {}", cap, reserve, ops, detail), &[]),
        Ok(Ok(())) => {
            cx.sample(format!("WriteBuf cap {} reserve {} ops {:?}", cap, reserve, ops), &[]);
            cx.rt_ok();
            cx.shape(&[cap as u8, reserve as u8, nops as u8]);
        }
    }

    // ParseBuf at every offset / remaining size: data of `n` bytes, read `pre` bytes,
    // cut `t` from the tail, then each primitive succeeds iff enough bytes remain.
    let n = (k % 19) as usize;
    let pre = ((k / 19) % 20) as usize;
    let t = ((k / 380) % 12) as usize;
    let data = rng.bytes(n);
    let d2 = data.clone();
    let r = guard(move || -> Result<(), (String, String)> {
        let mut mem = d2.clone();
        let mut pb = ParseBuf::new(&mut mem);
        let mut off = 0usize;
        for _ in 0..pre {
            let ok = pb.le_u8().is_ok();
            if ok != (off < n) {
                return Err(("le_u8".into(), format!("n {} off {}: ok {}", n, off, ok)));
            }
            if ok {
                off += 1;
            }
        }
        let mut left = n - off;
        match pb.tail(t) {
            Ok(s) => {
                if t > left {
                    return Err(("tail".into(), format!("tail({}) with {} left succeeded", t, left)));
                }
                if s != &d2[n - t..n] {
                    return Err(("tail".into(), format!("tail({}) returned {:02x?}", t, s)));
                }
                left -= t;
            }
            Err(_) => {
                if t <= left {
                    return Err(("tail".into(), format!("tail({}) with {} left refused", t, left)));
                }
            }
        }
        if pb.as_slice() != &d2[off..off + left] {
            return Err(("as_slice".into(), format!("n {} off {} left {}: {:02x?}", n, off, left, pb.as_slice())));
        }
        // each primitive on a clone of the state
        for width in [1usize, 2, 4, 8] {
            let mut m2 = d2[..off + left].to_vec();
            let mut p2 = ParseBuf::new(&mut m2);
            for _ in 0..off {
                let _ = p2.le_u8();
            }
            let (ok, val) = match width {
                1 => p2.le_u8().map(|v| v as u64).map(|v| (true, v)).unwrap_or((false, 0)),
                2 => p2.le_u16().map(|v| v as u64).map(|v| (true, v)).unwrap_or((false, 0)),
                4 => p2.le_u32().map(|v| v as u64).map(|v| (true, v)).unwrap_or((false, 0)),
                _ => p2.le_u64().map(|v| (true, v)).unwrap_or((false, 0)),
            };
            if ok != (left >= width) {
                return Err((format!("le_u{}", width * 8), format!("off {} left {}: ok {}", off, left, ok)));
            }
            if ok {
                let mut exp = 0u64;
                for i in 0..width {
                    exp |= (d2[off + i] as u64) << (8 * i);
                }
                if exp != val {
                    return Err((format!("le_u{}", width * 8), format!("off {}: read {:#x} expected {:#x}", off, val, exp)));
                }
                if p2.read_off() != off + width || p2.as_slice().len() != left - width {
                    return Err(("offsets".into(), format!("after le_u{} at {}: read_off {} left {}", width * 8, off, p2.read_off(), p2.as_slice().len())));
                }
            } else if p2.read_off() != off || p2.as_slice().len() != left {
                return Err(("overrun-state".into(), format!("a refused le_u{} moved the cursor", width * 8)));
            }
        }
        Ok(())
    });
    match r {
        Err(p) => cx.encoder_panic(&p, format!("ParseBuf n {} pre {} tail {}", n, pre, t)),
        Ok(Err((field, detail))) => cx.mismatch(&field, format!("ParseBuf n {} pre {} tail {} data {:02x?}: {}", n, pre, t, data, detail), &data),
        Ok(Ok(())) => {
            cx.rt_ok();
            cx.shape(&[0xBB, n as u8, pre.min(n) as u8, t as u8]);
        }
    }

    // script form (shared with the uniform-random fuzzer)
    let mut script = vec![n as u8];
    script.extend(&data);
    let nops = 1 + rng.usize(12);
    script.extend(rng.bytes(nops));
    cx.fuzz("parsebuf.script", &script, "op-script");
}
