//! C20, rendezvous family: the single-occupancy mDNS resolve / browse rendezvous of
//! `Transport` must be released when its waiter is cancelled or times out.
//!
//! One `Matter` instance, one executor task (callers, a stand-in mDNS responder driving the
//! public responder contract `wait_mdns_*_request` / `try_deposit_mdns_*`, and a 10 ms ticker
//! standing in for the periodic timers of the transport, which is what re-polls a responder in
//! the documented one-task model). Callers reach the rendezvous through the public API:
//! `Exchange::resolve_operational_addrs` (-> `Transport::resolve`) and
//! `Transport::browse_commissionable`.

use core::future::Future;
use core::pin::Pin;
use core::task::{Context, Poll};
use std::cell::{Cell, RefCell};
use std::panic::{catch_unwind, AssertUnwindSafe};
use std::rc::Rc;

use serde_json::json;

use rs_matter::error::ErrorCode;
use rs_matter::transport::exchange::Exchange;
use rs_matter::transport::network::mdns::{CommissionableFilter, DottedName, MdnsRemoteService};
use rs_matter::transport::network::Address;

use crate::report::Report;
use crate::sim::clock;
use crate::sim::exec::{self, BoxFut, CancelAfter, Limits, RunStatus};
use crate::sim::net::node_addr;
use crate::sim::node::{self, FabricCa};
use crate::sim::rng::{subseed, Rng};

const TARGET_NODE: u64 = 0x7A26E7;
const DISCRIMINATOR: u16 = 3840;

#[derive(Clone, Copy, Debug, PartialEq, Eq)]
pub enum RespMode {
    /// no responder runs
    Absent,
    /// takes the request (in flight) and never answers
    Silent,
    /// takes the request and deposits only answers for somebody else
    Wrong,
    /// answers after a latency
    Cooperative(u16),
}

#[derive(Clone, Copy, Debug, PartialEq, Eq)]
pub enum Kind {
    Resolve,
    Browse,
}

#[derive(Clone, Copy, Debug, PartialEq, Eq)]
pub enum Fate {
    /// left alone: answered or timed out by its own timer
    Run,
    /// dropped after its n-th Pending
    Cancel(u16),
    /// dropped by the caller after this many ms (a caller-side `select` with a timer)
    DropAfter(u16),
}

#[derive(Clone, Copy, Debug, PartialEq, Eq)]
pub struct Op {
    pub kind: Kind,
    pub fate: Fate,
    pub par: bool,
    pub browse_timeout_ms: u16,
}

#[derive(Clone, Debug)]
pub struct Params {
    pub seed: u64,
    pub mode: RespMode,
    pub ops: Vec<Op>,
    pub shuffle: bool,
}

pub fn gen_params(rng: &mut Rng) -> Params {
    let mode = match rng.below(5) {
        0 => RespMode::Absent,
        1 => RespMode::Silent,
        2 => RespMode::Wrong,
        _ => RespMode::Cooperative(*rng.pick(&[0u16, 1, 5, 40, 300])),
    };
    let n = 1 + rng.usize(12);
    let ops = (0..n)
        .map(|_| Op {
            kind: if rng.bool() { Kind::Resolve } else { Kind::Browse },
            fate: match rng.below(10) {
                0..=2 => Fate::Run,
                3..=7 => Fate::Cancel(rng.below(14) as u16),
                _ => Fate::DropAfter(*rng.pick(&[0u16, 1, 3, 20, 200, 2000])),
            },
            par: rng.chance(1, 3),
            browse_timeout_ms: *rng.pick(&[1u16, 30, 200, 1500]),
        })
        .collect();
    Params {
        seed: rng.u64(),
        mode,
        ops,
        shuffle: true,
    }
}

pub fn shape(p: &Params) -> String {
    let mut s = format!("rdv|{:?}|", p.mode);
    for o in &p.ops {
        s.push_str(&format!("{:?}:{:?}:{};", o.kind, o.fate, o.par));
    }
    s
}

#[derive(Clone, Debug, Default)]
struct OpLog {
    kind: Option<Kind>,
    fate: Option<Fate>,
    /// "answered", "timeout", "cancelled", "dropped", "err-.."
    result: String,
    pendings: u32,
}

#[derive(Clone, Debug, Default)]
struct SlotCheck {
    after_op: usize,
    resolve_idle: bool,
    browse_idle: bool,
    t: u64,
}

#[derive(Clone, Debug, Default)]
struct Out {
    status: Option<RunStatus>,
    panic: Option<String>,
    ops: Vec<OpLog>,
    checks: Vec<SlotCheck>,
    final_resolve: Option<String>,
    final_browse: Option<String>,
    setup_failed: bool,
}

struct JoinAll<'a> {
    futs: Vec<Option<BoxFut<'a>>>,
}

impl Future for JoinAll<'_> {
    type Output = ();
    fn poll(self: Pin<&mut Self>, cx: &mut Context<'_>) -> Poll<()> {
        let this = self.get_mut();
        let mut all = true;
        for f in this.futs.iter_mut() {
            if let Some(fut) = f {
                if fut.as_mut().poll(cx).is_ready() {
                    *f = None;
                } else {
                    all = false;
                }
            }
        }
        if all {
            Poll::Ready(())
        } else {
            Poll::Pending
        }
    }
}

fn run_case(p: &Params) -> Out {
    let mut o = run_case_inner(p, 0);
    for attempt in 1..4 {
        if !o.setup_failed {
            break;
        }
        o = run_case_inner(p, attempt);
    }
    o
}

fn run_case_inner(p: &Params, setup_attempt: u64) -> Out {
    clock::reset(1_000_000);
    let mut out = Out::default();
    let mut rng = Rng::new(if setup_attempt == 0 { p.seed } else { subseed(p.seed, &[0x5E7, setup_attempt]) });
    let crypto = node::crypto(rng.fork());
    let m = node::new_matter();
    let Ok(ca) = FabricCa::new(&crypto, &mut rng, 0xD20, false) else {
        out.setup_failed = true;
        return out;
    };
    let Ok(creds) = ca.mint(&crypto, 0x111, &[]) else {
        out.setup_failed = true;
        return out;
    };
    let Ok(fab) = ca.install(&m, &crypto, &creds, 0x111) else {
        out.setup_failed = true;
        return out;
    };

    let mode = Rc::new(Cell::new(p.mode));
    let res: Rc<RefCell<Out>> = Rc::new(RefCell::new(out));
    let target = node_addr(5);

    let limits = Limits {
        max_polls: 3_000_000,
        horizon: clock::now() + 600 * clock::TICKS_PER_SEC,
        shuffle: p.shuffle,
    };

    let run = {
        let m = &*m;
        let res = res.clone();
        let mode = mode.clone();
        let p = p.clone();
        let mut exec_rng = Rng::new(subseed(p.seed, &[7]));
        catch_unwind(AssertUnwindSafe(move || {
            let filter = CommissionableFilter {
                discriminator: Some(DISCRIMINATOR),
                ..Default::default()
            };
            let filter = &filter;

            // one caller operation
            let op_fut = |i: usize, op: Op| {
                let res = res.clone();
                async move {
                    let inner = async move {
                        match op.kind {
                            Kind::Resolve => Exchange::resolve_operational_addrs(m, fab, TARGET_NODE)
                                .await
                                .map(|v| v.len())
                                .map_err(|e| e.code()),
                            Kind::Browse => m
                                .transport()
                                .browse_commissionable(filter, &[], op.browse_timeout_ms as u32)
                                .await
                                .map(|_| 1usize)
                                .map_err(|e| e.code()),
                        }
                    };
                    let mut log = OpLog {
                        kind: Some(op.kind),
                        fate: Some(op.fate),
                        ..Default::default()
                    };
                    // Upper bound for an operation left alone: its own time-out (resolve 5 s) plus
                    // those of the (at most two) callers it may have to queue behind.
                    let bound_ms = 3 * 5_000 + 3 * op.browse_timeout_ms as u64 + 1_000;
                    let r: Option<Result<usize, ErrorCode>> = match op.fate {
                        Fate::Run => match exec::with_timeout(bound_ms, inner).await {
                            Some(r) => Some(r),
                            None => {
                                log.result = "stuck".into();
                                None
                            }
                        },
                        Fate::Cancel(n) => {
                            let mut c = CancelAfter::new(inner, n as u32);
                            let r = (&mut c).await;
                            log.pendings = c.pendings_seen;
                            if r.is_none() {
                                log.result = "cancelled".into();
                            }
                            r
                        }
                        Fate::DropAfter(ms) => {
                            let r = exec::with_timeout(ms as u64, inner).await;
                            if r.is_none() {
                                log.result = "dropped".into();
                            }
                            r
                        }
                    };
                    if let Some(r) = r {
                        log.result = match r {
                            Ok(_) => "answered".into(),
                            Err(ErrorCode::NotFound) => "timeout".into(),
                            Err(e) => format!("err-{:?}", e),
                        };
                    }
                    let mut o = res.borrow_mut();
                    while o.ops.len() <= i {
                        o.ops.push(OpLog::default());
                    }
                    o.ops[i] = log;
                }
            };

            let script: BoxFut = {
                let res = res.clone();
                let mode = mode.clone();
                let ops = p.ops.clone();
                Box::pin(async move {
                    let mut i = 0;
                    while i < ops.len() {
                        let mut group = vec![i];
                        let mut k = i + 1;
                        while k < ops.len() && ops[k].par && group.len() < 3 {
                            group.push(k);
                            k += 1;
                        }
                        i = k;
                        let futs: Vec<Option<BoxFut>> = group
                            .iter()
                            .map(|g| {
                                let f: BoxFut = Box::pin(op_fut(*g, ops[*g]));
                                Some(f)
                            })
                            .collect();
                        JoinAll { futs }.await;
                        // No caller is alive now: both rendezvous must be idle at once.
                        let s = m.transport().verif_slots();
                        res.borrow_mut().checks.push(SlotCheck {
                            after_op: *group.last().unwrap(),
                            resolve_idle: s.resolve_idle,
                            browse_idle: s.browse_idle,
                            t: clock::now(),
                        });
                    }
                    // Functional check: with a cooperative responder both rendezvous work.
                    mode.set(RespMode::Cooperative(2));
                    exec::sleep_ms(50).await;
                    let r = exec::with_timeout(8_000, Exchange::resolve_operational_addrs(m, fab, TARGET_NODE)).await;
                    res.borrow_mut().final_resolve = Some(match r {
                        Some(Ok(v)) if !v.is_empty() => "ok".into(),
                        Some(Ok(_)) => "empty".into(),
                        Some(Err(e)) => format!("{:?}", e.code()),
                        None => "never-returns".into(),
                    });
                    let r = exec::with_timeout(6_000, m.transport().browse_commissionable(filter, &[], 3000)).await;
                    res.borrow_mut().final_browse = Some(match r {
                        Some(Ok(_)) => "ok".into(),
                        Some(Err(e)) => format!("{:?}", e.code()),
                        None => "never-returns".into(),
                    });
                    let s = m.transport().verif_slots();
                    res.borrow_mut().checks.push(SlotCheck {
                        after_op: usize::MAX,
                        resolve_idle: s.resolve_idle,
                        browse_idle: s.browse_idle,
                        t: clock::now(),
                    });
                })
            };

            let resolve_resp: BoxFut = {
                let mode = mode.clone();
                Box::pin(async move {
                    loop {
                        if mode.get() == RespMode::Absent {
                            exec::sleep_ms(10).await;
                            continue;
                        }
                        let Some(svc) = exec::with_timeout(10, m.transport().wait_mdns_resolve_request()).await else {
                            continue;
                        };
                        let mut name = heapless::String::<128>::new();
                        svc.instance_name(&mut name);
                        let Address::Udp(sa) = target else { continue };
                        match mode.get() {
                            RespMode::Absent | RespMode::Silent => {}
                            RespMode::Wrong => {
                                let answer = MdnsRemoteService {
                                    instance_name: DottedName("0000000000000001-0000000000000002._matter._tcp.local"),
                                    port: Some(sa.port()),
                                    addrs: [sa.ip()].into_iter(),
                                    txt: [("SII", "300")].into_iter(),
                                    scope_id: 0,
                                };
                                m.transport().try_deposit_mdns_resolve(&answer, &[]);
                            }
                            RespMode::Cooperative(lat) => {
                                if lat > 0 {
                                    exec::sleep_ms(lat as u64).await;
                                }
                                let answer = MdnsRemoteService {
                                    instance_name: DottedName(name.as_str()),
                                    port: Some(sa.port()),
                                    addrs: [sa.ip()].into_iter(),
                                    txt: [("SII", "300"), ("SAI", "300")].into_iter(),
                                    scope_id: 0,
                                };
                                m.transport().try_deposit_mdns_resolve(&answer, &[]);
                            }
                        }
                    }
                })
            };
            let browse_resp: BoxFut = {
                let mode = mode.clone();
                Box::pin(async move {
                    loop {
                        if mode.get() == RespMode::Absent {
                            exec::sleep_ms(10).await;
                            continue;
                        }
                        let Some(_filter) = exec::with_timeout(10, m.transport().wait_mdns_browse_request()).await else {
                            continue;
                        };
                        let Address::Udp(sa) = target else { continue };
                        match mode.get() {
                            RespMode::Absent | RespMode::Silent => {}
                            RespMode::Wrong => {
                                let answer = MdnsRemoteService {
                                    instance_name: DottedName("00000000000000AA._matterc._udp.local"),
                                    port: Some(sa.port()),
                                    addrs: [sa.ip()].into_iter(),
                                    txt: [("D", "17"), ("CM", "1")].into_iter(),
                                    scope_id: 0,
                                };
                                m.transport().try_deposit_mdns_browse(&answer);
                            }
                            RespMode::Cooperative(lat) => {
                                if lat > 0 {
                                    exec::sleep_ms(lat as u64).await;
                                }
                                let answer = MdnsRemoteService {
                                    instance_name: DottedName("00000000000000AB._matterc._udp.local"),
                                    port: Some(sa.port()),
                                    addrs: [sa.ip()].into_iter(),
                                    txt: [("D", "3840"), ("CM", "1")].into_iter(),
                                    scope_id: 0,
                                };
                                m.transport().try_deposit_mdns_browse(&answer);
                            }
                        }
                    }
                })
            };
            let ticker: BoxFut = Box::pin(async {
                loop {
                    exec::sleep_ms(10).await;
                }
            });

            let all: BoxFut = Box::pin(exec::ShuffleSelect::new(
                subseed(p.seed, &[11]),
                p.shuffle,
                vec![script, resolve_resp, browse_resp, ticker],
            ));
            exec::run(&mut exec_rng, limits, vec![all])
        }))
    };

    let mut out = res.borrow().clone();
    match run {
        Ok(o) => out.status = Some(o.status),
        Err(e) => out.panic = Some(crate::util::panic_msg(&e)),
    }
    out
}

pub fn run_and_judge(rep: &mut Report, p: &Params, replay: serde_json::Value, sample: bool) {
    let o = run_case(p);
    rep.count("family:rendezvous");
    if let Some(msg) = &o.panic {
        rep.violation(
            "no-panic",
            &format!("C20/panic/rendezvous/{}", crate::util::panic_class(msg)),
            format!("panic in the mDNS rendezvous under cancellation: {}; params {:?}", msg, p),
            replay,
        );
        return;
    }
    if o.setup_failed {
        rep.inconclusive("setup-failed");
        return;
    }
    if o.status != Some(RunStatus::Done) {
        // every harness wait is bounded by a virtual timer: the callers themselves never ended
        rep.inconclusive(&format!("run-status-{:?}/rendezvous/rs-matter-call-never-returns", o.status));
    }
    let mode = match p.mode {
        RespMode::Absent => "no-responder",
        RespMode::Silent => "silent-responder",
        RespMode::Wrong => "wrong-answers",
        RespMode::Cooperative(_) => "cooperative",
    };
    for l in &o.ops {
        let kind = format!("{:?}", l.kind.unwrap_or(Kind::Resolve));
        rep.count(&format!("rdv:{}:{}", kind, l.result));
        match l.result.as_str() {
            "cancelled" => {
                rep.count("rdv_cancellations");
                rep.count(&format!("rdv_cancel_at:{}:{}", kind, l.pendings));
            }
            "dropped" => rep.count("rdv_cancellations"),
            "timeout" => rep.count("rdv_timeouts"),
            "stuck" => rep.count("rdv_calls_not_returning_within_their_timeouts"),
            "answered" => rep.count("rdv_answered"),
            _ => {}
        }
    }
    // Only the first check at which a slot is found occupied is reported per slot: later ones
    // are consequences. The class is what happened to the caller(s) of that rendezvous in the
    // group of operations that ended just before the check.
    let mut reported = [false, false];
    let mut prev_after: Option<usize> = None;
    for c in &o.checks {
        rep.count("rdv_slot_checks");
        for (wi, which, idle, kind) in [
            (0usize, "resolve", c.resolve_idle, Kind::Resolve),
            (1usize, "browse", c.browse_idle, Kind::Browse),
        ] {
            if idle || reported[wi] {
                continue;
            }
            reported[wi] = true;
            let class = if c.after_op == usize::MAX {
                "final-check".to_string()
            } else {
                let first = prev_after.map(|p| p + 1).unwrap_or(0);
                let mut results: Vec<&str> = (first..=c.after_op)
                    .filter(|i| p.ops[*i].kind == kind)
                    .filter_map(|i| o.ops.get(i).map(|l| l.result.as_str()))
                    .collect();
                results.sort_by_key(|r| match *r {
                    "cancelled" => 0,
                    "dropped" => 1,
                    "timeout" => 2,
                    "stuck" => 3,
                    "answered" => 4,
                    _ => 5,
                });
                match results.first() {
                    Some(&"cancelled") | Some(&"dropped") => "waiter-cancelled".to_string(),
                    Some(&"timeout") => "waiter-timed-out".to_string(),
                    Some(&"answered") => "waiter-answered".to_string(),
                    Some(other) => format!("waiter-{}", other.split('-').next().unwrap_or("other")),
                    None => "no-waiter-of-this-kind".to_string(),
                }
            };
            rep.violation(
                "rendezvous/slot-not-released",
                &format!("C20/rendezvous/slot-not-released/{}/{}", which, class),
                format!(
                    "with no caller alive the {} rendezvous is not idle (t={}, after operation {}, responder: {}); it must be released when its waiter is cancelled or times out; results {:?}; params {:?}",
                    which, c.t, c.after_op as i64, mode, o.ops.iter().map(|l| l.result.clone()).collect::<Vec<_>>(), p
                ),
                replay.clone(),
            );
        }
        if c.after_op != usize::MAX {
            prev_after = Some(c.after_op);
        }
    }
    for (which, r) in [("resolve", &o.final_resolve), ("browse", &o.final_browse)] {
        match r.as_deref() {
            Some("ok") => rep.count("rdv_functional_ok"),
            Some(other) => rep.violation(
                "rendezvous/unusable-after-cancellations",
                &format!("C20/rendezvous/unusable-after-cancellations/{}/{}", which, other),
                format!(
                    "after the callers were cancelled / timed out, a {} with a cooperative responder failed: {}; params {:?}",
                    which, other, p
                ),
                replay.clone(),
            ),
            None => rep.inconclusive("rendezvous-final-check-missing"),
        }
    }
    if sample {
        rep.sample(json!({
            "family": "rendezvous",
            "mode": mode,
            "ops": o.ops.iter().map(|l| format!("{:?} {:?} -> {} ({} pendings)", l.kind, l.fate, l.result, l.pendings)).collect::<Vec<_>>(),
        }));
    }
}
