//! C14 — a chunked answer carries the complete result exactly once.
//!
//! Same two-node scaffold as C06. A case fixes a node (filler cluster, wildcard cluster,
//! "pad" attribute + "subject" attribute, events), a request shape and a subject shape; the
//! length of the pad octet string is then swept so that the space remaining in the chunk in
//! front of the subject takes every value from -8 to +8 bytes around the fit boundary (found
//! empirically by bisection over calibration reads), for Read, Subscribe priming and
//! subscription reports. The oracle reassembles the decoded chunks with the client rule
//! (replace, then append items with a null list index) and compares with the one-shot
//! expected result of `im_ref`; every chunk is re-walked with the strict TLV parser.

#![allow(dead_code)]

use std::collections::BTreeMap;
use std::rc::Rc;

use serde_json::json;

use rs_matter::tlv::{FromTLV, TLVElement};

use super::c06_world::{run_world, Msg, Step, StepOut, WorldCfg, OP_REPORT, OP_STATUS, OP_SUBSCRIBE_RESP};
use super::im_ref::{
    self, acc, qual, AclRef, AttrItem, AttrSpec, Auth, ClusterSpec, EmittedEvent, EndpointSpec, EvKind, EventSpec,
    Expect, ItemKind, ListIdx, NodeSpec, PathReq, Priv, ReadRequest, Requester, Shape, TargetRef, Tlv, Val,
};
use super::probe_dm::{global_attrs, ProbeSnap, PROBE_CLUSTER_BASE};
use crate::report::{Ctx, Report};
use crate::sim::exec::RunStatus;
use crate::sim::rng::{subseed, Fnv, Rng};

const CL_F: u32 = PROBE_CLUSTER_BASE; // filler
const CL_W: u32 = PROBE_CLUSTER_BASE + 1; // wildcard cluster
const CL_S: u32 = PROBE_CLUSTER_BASE + 2; // pad + subject
const A_PAD: u32 = 0;
const A_SUBJ: u32 = 1;
const PAD_MAX: usize = 1100;
const NODE_ADMIN: u64 = 0xA001;
const NODE_LIMITED: u64 = 0xB002;

#[derive(Clone, Debug, PartialEq)]
pub enum Subject {
    Scalar(u8),
    Bool,
    Null,
    Octets(usize),
    Utf8(usize),
    /// list that fits a message as a whole
    SmallList { count: usize, elem: im_ref::Elem },
    /// list longer than one message
    LongList { count: usize, elem: im_ref::Elem },
    /// list with one element kind that is large but fits an empty message
    BigElemList { count: usize, len: usize },
    /// a single value that cannot fit even an empty message
    UnfittableOctets(usize),
    /// a list whose elements cannot fit even an empty message
    UnfittableElem { count: usize, len: usize },
}

impl Subject {
    fn shape(&self) -> Shape {
        match self {
            Subject::Scalar(w) => Shape::U(*w),
            Subject::Bool => Shape::Bool,
            Subject::Null => Shape::Null,
            Subject::Octets(n) | Subject::UnfittableOctets(n) => Shape::Octets(*n),
            Subject::Utf8(n) => Shape::Utf8(*n),
            Subject::SmallList { count, elem } | Subject::LongList { count, elem } => {
                Shape::List { count: *count, elem: elem.clone() }
            }
            Subject::BigElemList { count, len } | Subject::UnfittableElem { count, len } => {
                Shape::List { count: *count, elem: im_ref::Elem::Octets(*len) }
            }
        }
    }
    fn class(&self) -> &'static str {
        match self {
            Subject::Scalar(_) | Subject::Bool | Subject::Null => "scalar",
            Subject::Octets(_) | Subject::Utf8(_) => "string",
            Subject::SmallList { .. } => "list-fits",
            Subject::LongList { .. } => "list-longer-than-message",
            Subject::BigElemList { .. } => "list-big-elements",
            Subject::UnfittableOctets(_) => "unfittable-value",
            Subject::UnfittableElem { .. } => "unfittable-element",
        }
    }
    fn unfittable(&self) -> bool {
        matches!(self, Subject::UnfittableOctets(_) | Subject::UnfittableElem { .. })
    }
    fn is_list(&self) -> bool {
        matches!(self.shape(), Shape::List { .. })
    }
}

#[derive(Clone, Debug)]
pub struct CaseCfg {
    pub seed: u64,
    pub subject: Subject,
    pub with_filler: bool,
    pub with_wild: bool,
    pub dataver_filter: bool,
    pub with_events: bool,
    pub event_min: Option<u64>,
    pub limited: bool,
    /// repeat the subject path in the request
    pub repeat_subject: bool,
    /// the subject comes before the pad (then the pad is the straddling item)
    pub subject_first: bool,
    /// the subject is the only attribute path of the request (so it is the first item of the
    /// first message)
    pub subject_alone: bool,
    pub n_events: usize,
    pub event_len: usize,
}

fn gen_subject(rng: &mut Rng) -> Subject {
    use im_ref::Elem;
    match rng.below(100) {
        0..=14 => Subject::Scalar(*rng.pick(&[1u8, 2, 4, 8])),
        15..=17 => Subject::Bool,
        18..=19 => Subject::Null,
        20..=37 => Subject::Octets(rng.usize(300)),
        38..=42 => Subject::Utf8(rng.usize(200)),
        43..=60 => Subject::SmallList {
            count: rng.usize(7),
            elem: match rng.below(3) {
                0 => Elem::U(*rng.pick(&[1u8, 2, 4, 8])),
                1 => Elem::Octets(rng.usize(40)),
                _ => Elem::Struct(rng.usize(30)),
            },
        },
        61..=80 => Subject::LongList {
            count: 25 + rng.usize(90),
            elem: match rng.below(3) {
                0 => Elem::U(8),
                1 => Elem::Octets(10 + rng.usize(60)),
                _ => Elem::Struct(10 + rng.usize(50)),
            },
        },
        81..=90 => Subject::BigElemList { count: 1 + rng.usize(4), len: 500 + rng.usize(500) },
        91..=95 => Subject::UnfittableOctets(1250 + rng.usize(150)),
        _ => Subject::UnfittableElem { count: 1 + rng.usize(3), len: 1250 + rng.usize(100) },
    }
}

pub fn gen_case(seed: u64) -> CaseCfg {
    let mut rng = Rng::new(seed);
    let with_events = rng.chance(1, 3);
    CaseCfg {
        seed,
        subject: gen_subject(&mut rng),
        with_filler: rng.chance(7, 10),
        with_wild: rng.chance(1, 2),
        dataver_filter: rng.chance(1, 3),
        with_events,
        event_min: if with_events && rng.chance(1, 2) { Some(1 + rng.below(6)) } else { None },
        limited: rng.chance(1, 5),
        repeat_subject: rng.chance(1, 6),
        subject_first: rng.chance(1, 5),
        subject_alone: rng.chance(1, 6),
        n_events: 2 + rng.usize(14),
        event_len: rng.usize(160),
    }
    .with_big_event(&mut rng)
}

impl CaseCfg {
    /// Occasionally: an event whose payload cannot fit even an empty message.
    fn with_big_event(mut self, rng: &mut Rng) -> Self {
        let force = std::env::var("RSMV_C14_BIG_EVENT").is_ok();
        if force {
            self.with_events = true;
        }
        if self.with_events && (rng.chance(1, 8) || force) {
            self.n_events = 1 + rng.usize(3);
            self.event_len = 1250 + rng.usize(200);
        }
        self
    }
    fn unfittable(&self) -> bool {
        self.subject.unfittable() || (self.with_events && self.event_len > 1150)
    }
}

fn rv() -> u16 {
    acc::READ | acc::NEED_VIEW
}

fn build_node(c: &CaseCfg) -> NodeSpec {
    let mut rng = Rng::new(subseed(c.seed, &[0x90de]));
    // filler: a few lists / strings, about 1.2 .. 1.8 messages in total
    let mut fattrs = Vec::new();
    let nf = 3 + rng.usize(4);
    for k in 0..nf {
        let shape = match rng.below(3) {
            0 => Shape::Octets(150 + rng.usize(250)),
            1 => Shape::List { count: 4 + rng.usize(12), elem: im_ref::Elem::Octets(8 + rng.usize(30)) },
            _ => Shape::Utf8(100 + rng.usize(200)),
        };
        let list = matches!(shape, Shape::List { .. });
        fattrs.push(AttrSpec { id: k as u32, access: rv(), quality: if list { qual::ARRAY } else { 0 }, shape });
    }
    let mut wattrs: Vec<AttrSpec> = (0..3 + rng.usize(4))
        .map(|k| AttrSpec { id: k as u32, access: rv(), quality: 0, shape: Shape::U(*rng.pick(&[1u8, 2, 4, 8])) })
        .collect();
    wattrs.extend(global_attrs());
    let sattrs = vec![
        AttrSpec { id: A_PAD, access: rv(), quality: 0, shape: Shape::Octets(0) },
        AttrSpec {
            id: A_SUBJ,
            access: rv(),
            quality: if c.subject.is_list() { qual::ARRAY } else { 0 },
            shape: c.subject.shape(),
        },
    ];
    let events = vec![EventSpec { id: 0, access: rv() }, EventSpec { id: 1, access: rv() }];
    let cl = |id: u32, attrs: Vec<AttrSpec>, events: Vec<EventSpec>| ClusterSpec {
        id,
        revision: 1,
        feature_map: 0,
        attrs,
        cmds: vec![],
        events,
        required_only: false,
        system: false,
    };
    NodeSpec {
        endpoints: vec![
            EndpointSpec {
                id: 1,
                device_types: vec![0x100],
                clusters: vec![cl(CL_F, fattrs, vec![]), cl(CL_W, wattrs.clone(), vec![]), cl(CL_S, sattrs, events)],
            },
            EndpointSpec { id: 2, device_types: vec![0x101], clusters: vec![cl(CL_W, wattrs, vec![])] },
        ],
    }
}

fn world_cfg(c: &CaseCfg, node: Rc<NodeSpec>) -> WorldCfg {
    let rq = |kind: &'static str, subject: u64| Requester {
        kind,
        auth: Some(Auth::Case),
        fab_idx: 1,
        subject,
        cats: vec![],
        group_endpoints: vec![],
    };
    WorldCfg {
        seed: subseed(c.seed, &[0x3011d]),
        variants: vec![node],
        n_fabrics: 1,
        real_fabrics: false,
        acl: vec![
            AclRef { fab_idx: 1, privilege: Priv::Administer, auth: Auth::Case, subjects: vec![NODE_ADMIN], targets: vec![] },
            AclRef {
                fab_idx: 1,
                privilege: Priv::View,
                auth: Auth::Case,
                subjects: vec![NODE_LIMITED],
                targets: vec![
                    TargetRef { ep: None, cl: Some(CL_S), dt: None },
                    TargetRef { ep: Some(2), cl: Some(CL_W), dt: None },
                ],
            },
        ],
        requesters: vec![rq("case-admin", NODE_ADMIN), rq("case-limited", NODE_LIMITED)],
        shuffle: true,
    }
}

fn request(c: &CaseCfg) -> ReadRequest {
    let mut paths = Vec::new();
    // (the limited requester has no access to the filler cluster; a subscription to a path
    // without any accessible attribute is refused as a whole, which is not what this check is about)
    if c.with_filler && !c.limited {
        paths.push(PathReq::new(Some(1), Some(CL_F), None));
    }
    if c.with_wild {
        paths.push(PathReq::new(None, Some(CL_W), None));
    }
    let pad = PathReq::new(Some(1), Some(CL_S), Some(A_PAD));
    let subj = PathReq::new(Some(1), Some(CL_S), Some(A_SUBJ));
    if c.subject_first {
        paths.push(subj.clone());
        paths.push(pad);
    } else {
        paths.push(pad);
        paths.push(subj.clone());
    }
    if c.repeat_subject {
        paths.push(subj.clone());
    }
    if c.subject_alone {
        paths = vec![subj];
    }
    ReadRequest {
        attr_paths: Some(paths),
        event_paths: if c.with_events { Some(vec![PathReq::new(Some(1), Some(CL_S), None)]) } else { None },
        event_min: c.event_min.map(|m| vec![m]),
        fabric_filtered: true,
        dataver_filters: if c.dataver_filter && c.with_wild { Some(vec![(1, CL_W, W_DATAVER)]) } else { None },
    }
}

const W_DATAVER: u32 = 0x0101_0101;

fn pre_steps(c: &CaseCfg) -> Vec<Step> {
    let mut s = vec![Step::SetDataver(1, CL_W, W_DATAVER)];
    if c.with_events {
        for k in 0..c.n_events {
            s.push(Step::Emit {
                ep: 1,
                cl: CL_S,
                ev: (k % 2) as u32,
                prio: (k % 3) as u8,
                fabric: None,
                payload_len: c.event_len + (k * 7) % 23,
            });
        }
    }
    s
}

fn all_probe_attrs(node: &NodeSpec) -> Vec<(u16, u32, u32)> {
    let mut v = Vec::new();
    for e in &node.endpoints {
        for c in &e.clusters {
            for a in &c.attrs {
                if !a.is_global() {
                    v.push((e.id, c.id, a.id));
                }
            }
        }
    }
    v
}

#[derive(Clone, Copy, Debug, PartialEq, Eq)]
pub enum Mode {
    Read,
    Priming,
    Report,
}

fn count_reports(so: &StepOut) -> usize {
    so.msgs.iter().filter(|m| m.opcode == OP_REPORT).count()
}

/// Number of ReportData chunks the device sends for this pad length (None: no complete answer).
fn chunks_for(cfg: &WorldCfg, c: &CaseCfg, req: &ReadRequest, sess: usize, mode: Mode, pad: usize) -> Option<usize> {
    let mut steps = pre_steps(c);
    match mode {
        Mode::Read => {
            steps.push(Step::SetShapes(vec![(1, CL_S, A_PAD, Shape::Octets(pad))]));
            steps.push(Step::Read { sess, req: req.clone(), swap_at_chunk: None, max_chunks: 400, via_client: false });
        }
        Mode::Priming => {
            steps.push(Step::SetShapes(vec![(1, CL_S, A_PAD, Shape::Octets(pad))]));
            steps.push(Step::Subscribe { sess, req: req.clone(), min_int: 0, max_int: 100, max_chunks: 400 });
        }
        Mode::Report => {
            // establish with an empty pad, then change everything and look at the report
            steps.push(Step::Subscribe { sess, req: req.clone(), min_int: 0, max_int: 100, max_chunks: 400 });
            steps.push(Step::SetShapes(vec![(1, CL_S, A_PAD, Shape::Octets(pad))]));
            steps.push(Step::Bump { attrs: all_probe_attrs(&cfg.variants[0]), notify: true });
            steps.push(Step::AwaitReport { max_wait_ms: 3000, max_chunks: 400 });
        }
    }
    let out = run_world(cfg, &steps);
    let so = out.steps.last()?;
    if so.err.is_some() || so.aborted || out.panic.is_some() {
        return None;
    }
    Some(count_reports(so))
}

/// Largest pad for which the answer still has as many chunks as with an empty pad.
fn calibrate(cfg: &WorldCfg, c: &CaseCfg, req: &ReadRequest, sess: usize, mode: Mode, rep: &mut Report) -> Option<usize> {
    let c0 = chunks_for(cfg, c, req, sess, mode, 0)?;
    rep.count("calibration_runs");
    let chi = chunks_for(cfg, c, req, sess, mode, PAD_MAX);
    if chi == Some(c0) {
        return None;
    }
    let (mut lo, mut hi) = (0usize, PAD_MAX);
    while hi - lo > 1 {
        let mid = (lo + hi) / 2;
        rep.count("calibration_runs");
        match chunks_for(cfg, c, req, sess, mode, mid) {
            Some(n) if n == c0 => lo = mid,
            Some(_) => hi = mid,
            None => {
                rep.note("calibration-run-without-complete-answer");
                hi = mid;
            }
        }
    }
    Some(lo)
}

// ---------------------------------------------------------------------------------------------
// Judge
// ---------------------------------------------------------------------------------------------

struct J<'a> {
    rep: &'a mut Report,
    replay: serde_json::Value,
    class: String,
    outcome: Vec<String>,
}

impl J<'_> {
    fn viol(&mut self, rule: &str, what: &str, detail: String) {
        let sig = format!("C14/{}/{}/{}", rule, what, self.class);
        self.outcome.push(format!("V:{}/{}", rule, what));
        self.rep.violation(rule, &sig, detail, self.replay.clone());
    }
}

type Key = (u16, u32, u32);

/// Client-side reassembly with strict bookkeeping. Returns (values in order of their "replace"
/// item, status items, number of lists that arrived split over more than one chunk).
fn reassemble_strict(chunks: &[Vec<AttrItem>]) -> Result<(Vec<(Key, Val, Option<u32>)>, Vec<AttrItem>, usize), String> {
    let mut vals: Vec<(Key, Val, Option<u32>)> = Vec::new();
    let mut statuses = Vec::new();
    let mut split_lists = 0usize;
    let mut cur_started_in: Option<usize> = None;
    let mut cur_split = false;
    for (ci, ch) in chunks.iter().enumerate() {
        for it in ch {
            let (Some(e), Some(c), Some(a)) = (it.ep, it.cl, it.attr) else {
                return Err(format!("answer item with a wildcard path: {:?}", it));
            };
            match &it.kind {
                ItemKind::Status { .. } => {
                    statuses.push(it.clone());
                    cur_started_in = None;
                }
                ItemKind::Data { val, dataver } => match it.list_index {
                    ListIdx::Absent => {
                        if cur_split {
                            split_lists += 1;
                        }
                        cur_split = false;
                        cur_started_in = Some(ci);
                        vals.push(((e, c, a), val.clone(), *dataver));
                    }
                    ListIdx::Null => {
                        let Some(last) = vals.last_mut() else {
                            return Err(format!("append item for {:#x}/{:#x}/{:#x} without a preceding list value", e, c, a));
                        };
                        if last.0 != (e, c, a) || cur_started_in.is_none() {
                            return Err(format!(
                                "append item for {:#x}/{:#x}/{:#x} does not follow a value of the same attribute (previous: {:x?})",
                                e, c, a, last.0
                            ));
                        }
                        let Val::Array(arr) = &mut last.1 else {
                            return Err(format!("append item for {:#x}/{:#x}/{:#x} but the preceding value is not a list", e, c, a));
                        };
                        arr.push(Tlv::anon(val.clone()));
                        if cur_started_in != Some(ci) {
                            cur_split = true;
                        }
                        if last.2 != *dataver {
                            return Err(format!("data version changes inside one list ({:?} -> {:?})", last.2, dataver));
                        }
                    }
                    ListIdx::Idx(i) => return Err(format!("answer item with a concrete list index {}", i)),
                },
            }
        }
    }
    if cur_split {
        split_lists += 1;
    }
    Ok((vals, statuses, split_lists))
}

fn check_chunk_wellformed(j: &mut J<'_>, k: usize, m: &Msg, ctx: &str) -> Option<im_ref::Report> {
    let t = match Tlv::parse_strict(&m.payload) {
        Ok(t) => t,
        Err(e) => {
            j.viol("well-formed", "strict-tlv-walk-failed", format!("chunk {}: {}; payload {}; {}", k, e, crate::util::hex(&m.payload[..m.payload.len().min(64)]), ctx));
            return None;
        }
    };
    let r = match im_ref::decode_report(&t) {
        Ok(r) => r,
        Err(e) => {
            j.viol("well-formed", "not-a-report-data-message", format!("chunk {}: {}; {}", k, e, ctx));
            return None;
        }
    };
    // cross-check with rs-matter's public decoder: it must accept what it produced
    let el = TLVElement::new(&m.payload);
    match rs_matter::im::ReportDataResp::from_tlv(&el) {
        Ok(rr) => {
            let n_pub = rr.attr_reports.as_ref().map(|a| a.iter().filter(|x| x.is_ok()).count());
            let n_own = r.attrs.as_ref().map(|a| a.len());
            if n_pub != n_own {
                j.viol("well-formed", "public-decoder-disagrees", format!("chunk {}: public decoder sees {:?} attribute reports, strict walker {:?}; {}", k, n_pub, n_own, ctx));
            }
        }
        Err(e) => j.viol("well-formed", "public-decoder-rejects", format!("chunk {}: {:?}; {}", k, e.code(), ctx)),
    }
    if m.payload.len() > rs_matter::transport::MAX_TX_PAYLOAD_SIZE {
        j.viol("size", "payload-exceeds-max-tx-payload", format!("chunk {} has {} bytes > {}; {}", k, m.payload.len(), rs_matter::transport::MAX_TX_PAYLOAD_SIZE, ctx));
    }
    if r.rev.is_none() {
        j.rep.note("report-without-interaction-model-revision");
    }
    Some(r)
}

#[allow(clippy::too_many_arguments)]
fn judge_answer(
    j: &mut J<'_>,
    mode: Mode,
    so: &StepOut,
    extra: Option<&StepOut>,
    exp_vals: &[(Key, Val)],
    exp_events: Option<&[EmittedEvent]>,
    unfittable: bool,
    offset: Option<i64>,
    ctx: &str,
) {
    let off = offset.map(|o| format!("{:+}", o)).unwrap_or_else(|| "n/a".into());
    // --- termination
    let mut msgs: Vec<&Msg> = so.msgs.iter().collect();
    if let Some(x) = extra {
        msgs.extend(x.msgs.iter());
    }
    let aborted = so.aborted || extra.map(|x| x.aborted).unwrap_or(false);
    if aborted {
        j.class = format!("{}/{:?}", if unfittable { "value-or-element-larger-than-a-message" } else { "fittable-values" }, mode);
        j.viol("termination", "answer-does-not-end", format!("more than the allowed number of chunks ({}), the controller stopped the answer; offset {}; last chunks: {:?}; {}", msgs.len(), off, msgs.iter().rev().take(3).map(|m| Tlv::parse_strict(&m.payload).map(|t| t.show()).unwrap_or_default()).collect::<Vec<_>>(), ctx));
        if unfittable {
            j.rep.count("unfittable_answers_judged");
        }
        return;
    }
    if unfittable {
        // only termination within the bound is asserted; outcome recorded
        let last = msgs.last().map(|m| m.opcode);
        j.rep.note(&format!(
            "unfittable-value-outcome:{}:{}",
            match (so.err.as_deref(), last) {
                (Some(e), _) => format!("no-complete-answer({})", e),
                (None, Some(OP_STATUS)) => "status".to_string(),
                (None, Some(OP_REPORT)) => "report-data".to_string(),
                (None, Some(OP_SUBSCRIBE_RESP)) => "subscribe-response".to_string(),
                (None, o) => format!("{:?}", o),
            },
            msgs.len().min(9)
        ));
        j.rep.count("unfittable_answers_terminated");
        j.rep.count("unfittable_answers_judged");
        j.outcome.push("unfittable".into());
        return;
    }
    if let Some(e) = &so.err {
        // one defect class regardless of the subject: normalise to mode + what follows the attributes
        j.class = format!("{:?}{}", mode, if exp_events.is_some() { "+events" } else { "" });
        j.viol(
            "completeness",
            &format!("no-complete-answer/{}", e.split(':').next().unwrap_or("x")),
            format!("the interaction produced no complete answer ({}), {} message(s) received; boundary offset {}; {}", e, msgs.len(), off, ctx),
        );
        return;
    }

    // --- every chunk on its own
    let mut reports: Vec<im_ref::Report> = Vec::new();
    let mut tail: Vec<&Msg> = Vec::new();
    for (k, m) in msgs.iter().enumerate() {
        if m.opcode == OP_REPORT {
            match check_chunk_wellformed(j, k, m, ctx) {
                Some(r) => reports.push(r),
                None => return,
            }
        } else {
            tail.push(m);
        }
    }
    j.rep.count_n("chunks_checked", reports.len() as u64);
    if reports.is_empty() {
        j.viol("completeness", "no-report-data", format!("answer without ReportData: opcodes {:?}; {}", msgs.iter().map(|m| m.opcode).collect::<Vec<_>>(), ctx));
        return;
    }
    // flags
    let per_answer: Vec<&[im_ref::Report]> = if mode == Mode::Report && extra.is_some() {
        let n0 = count_reports(so);
        vec![&reports[..n0], &reports[n0..]]
    } else {
        vec![&reports[..]]
    };
    for ans in &per_answer {
        for (k, r) in ans.iter().enumerate() {
            let last = k + 1 == ans.len();
            if r.more_chunks == last {
                j.viol("flags", if last { "last-chunk-announces-more" } else { "chunk-ends-interaction-early" }, format!("chunk {} of {}: more_chunks={}; {}", k, ans.len(), r.more_chunks, ctx));
            }
            if r.more_chunks && r.suppress {
                j.viol("flags", "suppress-response-with-more-chunks", format!("chunk {}; {}", k, ctx));
            }
            match mode {
                Mode::Read => {
                    if last && !r.suppress {
                        j.viol("flags", "last-read-report-without-suppress-response", format!("chunk {}; {}", k, ctx));
                    }
                    if r.sub_id.is_some() {
                        j.viol("flags", "subscription-id-in-read-answer", format!("chunk {}; {}", k, ctx));
                    }
                }
                _ => {
                    if r.suppress {
                        j.viol("flags", "suppress-response-in-subscription-report", format!("chunk {}; {}", k, ctx));
                    }
                    if r.sub_id.is_none() {
                        j.viol("flags", "subscription-report-without-id", format!("chunk {}; {}", k, ctx));
                    }
                }
            }
        }
    }
    match mode {
        Mode::Read => {
            if !tail.is_empty() {
                j.viol("flags", "message-after-final-report", format!("opcodes {:?} after the final report; {}", tail.iter().map(|m| m.opcode).collect::<Vec<_>>(), ctx));
            }
        }
        Mode::Priming => {
            if tail.len() != 1 || tail[0].opcode != OP_SUBSCRIBE_RESP {
                j.viol("flags", "priming-not-followed-by-one-subscribe-response", format!("opcodes after the priming report: {:?}; {}", tail.iter().map(|m| m.opcode).collect::<Vec<_>>(), ctx));
            }
        }
        Mode::Report => {}
    }
    if reports.len() >= 2 {
        j.rep.count("multi_chunk_answers");
    }
    j.rep.count("answers_judged");
    j.outcome.push(format!("chunks{}", reports.len().min(4)));

    // --- reassembly
    let chunks: Vec<Vec<AttrItem>> = reports.iter().map(|r| r.attrs.clone().unwrap_or_default()).collect();
    let (vals, statuses, split) = match reassemble_strict(&chunks) {
        Ok(x) => x,
        Err(e) => {
            j.viol("reassembly", "list-items-do-not-reassemble", format!("{}; offset {}; {}", e, off, ctx));
            return;
        }
    };
    if split > 0 {
        j.rep.count_n("lists_split_across_chunks", split as u64);
        j.outcome.push("split".into());
    }
    if !statuses.is_empty() {
        j.viol("completeness", "status-for-selected-attribute", format!("status items {:?}; offset {}; {}", statuses, off, ctx));
    }
    // exactly once
    let mut exp_map: BTreeMap<Key, Vec<&Val>> = BTreeMap::new();
    for (k, v) in exp_vals {
        exp_map.entry(*k).or_default().push(v);
    }
    let mut got_map: BTreeMap<Key, Vec<&Val>> = BTreeMap::new();
    for (k, v, _) in &vals {
        got_map.entry(*k).or_default().push(v);
    }
    for (k, ev) in &exp_map {
        let gv = got_map.get(k).cloned().unwrap_or_default();
        if mode == Mode::Report && gv.len() > ev.len() {
            // over-reporting of a changed attribute across two reports is legitimate (at least once)
            j.rep.note("report-carries-an-attribute-more-than-once");
        } else if gv.len() != ev.len() {
            let what = if gv.len() < ev.len() { "selected-value-missing" } else { "selected-value-duplicated" };
            j.viol(
                "exactly-once",
                what,
                format!("{:#x}/{:#x}/{:#x}: expected {} time(s), got {}; boundary offset {}; chunks {}; {}", k.0, k.1, k.2, ev.len(), gv.len(), off, reports.len(), ctx),
            );
            continue;
        }
        for g in &gv {
            if *g != ev[0] {
                let what = match (g, ev[0]) {
                    (Val::Array(a), Val::Array(b)) if a.len() != b.len() => "list-length-differs",
                    (Val::Array(_), Val::Array(_)) => "list-elements-differ",
                    _ => "value-differs",
                };
                j.viol(
                    "value",
                    what,
                    format!(
                        "{:#x}/{:#x}/{:#x}: got {} expected {}; boundary offset {}; chunks {}; {}",
                        k.0,
                        k.1,
                        k.2,
                        &Tlv::anon((*g).clone()).show().chars().take(300).collect::<String>(),
                        &Tlv::anon(ev[0].clone()).show().chars().take(300).collect::<String>(),
                        off,
                        reports.len(),
                        ctx
                    ),
                );
            }
        }
    }
    for k in got_map.keys() {
        if !exp_map.contains_key(k) {
            if mode == Mode::Report {
                j.rep.note("report-carries-unchanged-attribute");
            } else {
                j.viol("exactly-once", "unselected-value-present", format!("{:#x}/{:#x}/{:#x} is in the answer but not selected; {}", k.0, k.1, k.2, ctx));
            }
        }
    }

    // --- events
    if let Some(evs) = exp_events {
        let mut got: Vec<(u64, Option<Val>)> = Vec::new();
        for r in &reports {
            for e in r.events.iter().flatten() {
                match &e.kind {
                    EvKind::Data { number, val, .. } => got.push((*number, val.clone())),
                    EvKind::Status { code } => j.viol("completeness", "event-status", format!("event status {:#x}; {}", code, ctx)),
                }
            }
        }
        let exp_nums: Vec<u64> = evs.iter().map(|e| e.number).collect();
        let got_nums: Vec<u64> = got.iter().map(|g| g.0).collect();
        let (missing, extra_e) = im_ref::multiset_diff(&exp_nums, &got_nums);
        if !missing.is_empty() {
            j.viol("exactly-once", "selected-event-missing", format!("events {:?} missing (got {:?}); offset {}; chunks {}; {}", missing, got_nums, off, reports.len(), ctx));
        }
        if !extra_e.is_empty() {
            j.viol("exactly-once", "event-duplicated-or-unselected", format!("events {:?} unexpected (expected {:?}); offset {}; {}", extra_e, exp_nums, off, ctx));
        }
        if got_nums.windows(2).any(|w| w[0] >= w[1]) {
            j.rep.note("events-not-in-ascending-number-order");
        }
        for (n, v) in &got {
            if let Some(e) = evs.iter().find(|e| e.number == *n) {
                if v.as_ref() != Some(&e.payload) {
                    j.viol("value", "event-payload-differs", format!("event {}: got {:?}; {}", n, v.as_ref().map(|v| Tlv::anon(v.clone()).show()), ctx));
                }
            }
        }
        j.rep.count_n("events_checked", got.len() as u64);
        if reports.iter().filter(|r| r.events.as_ref().map(|e| !e.is_empty()).unwrap_or(false)).count() >= 2 {
            j.rep.count("event_lists_split_across_chunks");
        }
    }
}

fn expected_values(snap: &ProbeSnap, cfg: &WorldCfg, r: &Requester, req: &ReadRequest, only: Option<&[Key]>) -> Vec<(Key, Val)> {
    let acl = cfg.device_acl();
    let filters = req.dataver_filters.clone().unwrap_or_default();
    let dv = |e: u16, c: u32| snap.dataver(e, c);
    let rctx = im_ref::ReadCtx { node: &snap.spec, acl: &acl, requester: r, dataver_filters: &filters, current_dataver: &dv };
    let mut out = Vec::new();
    for p in im_ref::expand_read(&rctx, req.attr_paths.as_deref().unwrap_or(&[])) {
        for it in p.items {
            if let Expect::Data { ep, cl, leaf } = it {
                if only.map(|o| o.contains(&(ep, cl, leaf))).unwrap_or(true) {
                    if let Some(v) = snap.expected_value(ep, cl, leaf) {
                        out.push(((ep, cl, leaf), v));
                    }
                }
            }
        }
    }
    out
}

fn run_case(rep: &mut Report, c: &CaseCfg, replay: serde_json::Value, budget: &mut i64) {
    let node = Rc::new(build_node(c));
    let cfg = world_cfg(c, node.clone());
    let req = request(c);
    let sess = if c.limited { 1 } else { 0 };
    let requester = cfg.requesters[sess].clone();
    let class = format!("{}{}", c.subject.class(), if c.with_events && c.event_len > 1150 { "+unfittable-event" } else if c.with_events { "+events" } else { "" });

    // --- calibration (not for unfittable subjects: there is no fit boundary)
    let (p_read, p_sub, p_rep) = if c.unfittable() {
        (None, None, None)
    } else {
        (
            calibrate(&cfg, c, &req, sess, Mode::Read, rep),
            calibrate(&cfg, c, &req, sess, Mode::Priming, rep),
            calibrate(&cfg, c, &req, sess, Mode::Report, rep),
        )
    };
    if !c.unfittable() && p_read.is_none() {
        rep.note("no-fit-boundary-within-pad-range");
    }

    // --- sweep: one fresh world per boundary offset (a failed report makes the device drop the
    // session, which must not leak into the next offset)
    let offsets: Vec<i64> = if c.unfittable() { vec![0, 1, 2] } else { (-8..=8).collect() };
    let bump_all = all_probe_attrs(&node);
    let max_chunks = if c.unfittable() { 40 } else { 400 };
    let acl = cfg.device_acl();
    for d in &offsets {
        if *budget <= 0 {
            break;
        }
        let mut steps = pre_steps(c);
        let n_pre = steps.len();
        // (step index, mode, offset relative to that mode's boundary, extra step)
        let mut plan: Vec<(usize, Mode, Option<i64>, Option<usize>)> = Vec::new();
        let pad_r = (p_read.unwrap_or(300) as i64 + d).max(0) as usize;
        steps.push(Step::SetShapes(vec![(1, CL_S, A_PAD, Shape::Octets(pad_r))]));
        plan.push((steps.len(), Mode::Read, p_read.map(|_| *d), None));
        steps.push(Step::Read { sess, req: req.clone(), swap_at_chunk: None, max_chunks, via_client: false });
        let pad_s = (p_sub.unwrap_or(300) as i64 + d).max(0) as usize;
        steps.push(Step::SetShapes(vec![(1, CL_S, A_PAD, Shape::Octets(pad_s))]));
        plan.push((steps.len(), Mode::Priming, p_sub.map(|_| *d), None));
        steps.push(Step::Subscribe { sess, req: req.clone(), min_int: 0, max_int: 100, max_chunks });
        let pad_p = (p_rep.unwrap_or(300) as i64 + d).max(0) as usize;
        steps.push(Step::SetShapes(vec![(1, CL_S, A_PAD, Shape::Octets(pad_p))]));
        steps.push(Step::Bump { attrs: bump_all.clone(), notify: true });
        plan.push((steps.len(), Mode::Report, p_rep.map(|_| *d), Some(steps.len() + 1)));
        steps.push(Step::AwaitReport { max_wait_ms: 3000, max_chunks });
        steps.push(Step::AwaitReport { max_wait_ms: 300, max_chunks });

        let out = run_world(&cfg, &steps);
        if let Some(e) = &out.setup_error {
            rep.inconclusive(&format!("setup:{}", e));
            return;
        }
        if let Some(p) = &out.panic {
            rep.violation(
                "no-panic",
                &format!("C14/panic/{}/{}", crate::util::panic_class(p), class),
                format!("panic while answering: {}; offset {}; case {:?}", p, d, c),
                replay.clone(),
            );
            return;
        }
        if out.status != Some(RunStatus::Done) {
            rep.inconclusive(&format!("run-status-{:?}", out.status));
            return;
        }
        for v in &out.tap_violations {
            rep.violation("C15-tap", &format!("C15/tap/{}", v.split(':').next().unwrap_or("x")), format!("passive nonce monitor: {}", v), replay.clone());
        }
        rep.count_n("datagrams_observed", out.datagrams as u64);
        rep.interleavings.insert(out.sched_hash);
        if out.max_datagram > rs_matter::transport::network::MAX_TX_PACKET_SIZE {
            rep.violation(
                "size",
                &format!("C14/size/datagram-exceeds-max-tx-packet/{}", class),
                format!("a datagram of {} bytes was sent (max {}); case {:?}", out.max_datagram, rs_matter::transport::network::MAX_TX_PACKET_SIZE, c),
                replay.clone(),
            );
        }
        rep.count(&format!("max_datagram_le_{}", (out.max_datagram / 100 + 1) * 100));

        // events as emitted
        let mut emitted: Vec<EmittedEvent> = Vec::new();
        for (si, st) in steps.iter().enumerate().take(n_pre) {
            if let (Step::Emit { ep, cl, ev, prio, fabric, payload_len }, Some(so)) = (st, out.steps.get(si)) {
                if let Some(n) = so.event_number {
                    emitted.push(EmittedEvent {
                        number: n,
                        ep: *ep,
                        cl: *cl,
                        ev: *ev,
                        prio: *prio,
                        fabric: *fabric,
                        payload: super::c06_world::event_payload(*ep, *cl, *ev, *payload_len, *fabric),
                    });
                }
            }
        }
        let exp_events: Option<Vec<EmittedEvent>> = req.event_paths.as_ref().map(|ep| {
            let min = req.event_min.clone().unwrap_or_default();
            let ectx = im_ref::EventCtx { node: &node, acl: &acl, requester: &requester, event_min: &min, fabric_filtered: true };
            let (_, nums) = im_ref::expand_events(&ectx, ep, &emitted);
            emitted.iter().filter(|e| nums.contains(&e.number)).cloned().collect()
        });

        for (si, mode, offset, extra) in plan {
            let Some(so) = out.steps.get(si) else { break };
            let extra_so = extra.and_then(|x| out.steps.get(x)).filter(|x| !x.msgs.is_empty());
            *budget -= 1;
            rep.evaluations += 1;
            rep.count(&format!("mode:{:?}", mode));
            let snap = so.snap.as_ref().unwrap();
            let ctx = format!(
                "mode {:?}, subject {:?}, pad {:?}, requester {}, request paths [{}]{}{}, filler {}, events {} x ~{}B",
                mode,
                c.subject,
                snap.shape(1, CL_S, A_PAD),
                requester.kind,
                req.attr_paths.iter().flatten().map(|p| p.show()).collect::<Vec<_>>().join(", "),
                if req.dataver_filters.is_some() { " + dataver filter on 1/W" } else { "" },
                if req.event_paths.is_some() { format!(" + event path 1/S/* min {:?}", c.event_min) } else { String::new() },
                c.with_filler,
                if c.with_events { c.n_events } else { 0 },
                c.event_len
            );
            let mut j = J { rep, replay: replay.clone(), class: class.clone(), outcome: Vec::new() };
            j.replay["offset"] = json!(d);
            j.replay["mode"] = json!(format!("{:?}", mode));
            let exp_vals = match mode {
                Mode::Report => {
                    // (the snapshot of the AwaitReport step is taken after the bump)
                    let mut r2 = req.clone();
                    r2.dataver_filters = None;
                    expected_values(snap, &cfg, &requester, &r2, Some(&bump_all))
                }
                _ => expected_values(snap, &cfg, &requester, &req, None),
            };
            let evs: Option<Vec<EmittedEvent>> = match mode {
                // a subscription report carries only events newer than what priming delivered
                Mode::Report => exp_events.as_ref().map(|_| Vec::new()),
                _ => exp_events.clone(),
            };
            if mode == Mode::Report && so.err.as_deref() == Some("no-report") {
                let primed = out.steps.get(si - 3).map(|p| p.msgs.last().map(|m| m.opcode) == Some(OP_SUBSCRIBE_RESP)).unwrap_or(false);
                if !primed {
                    j.rep.note("no-report-because-priming-failed");
                } else if exp_vals.is_empty() {
                    j.rep.note("no-report-and-none-expected");
                } else {
                    j.class = format!("Report{}", if evs.is_some() { "+events" } else { "" });
                    j.viol(
                        "completeness",
                        "no-report-after-change",
                        format!("subscription established, {} subscribed attributes changed, no report within 3 s; boundary offset {:?}; {}", exp_vals.len(), offset, ctx),
                    );
                }
            } else {
                judge_answer(&mut j, mode, so, extra_so, &exp_vals, evs.as_deref(), c.unfittable(), offset, &ctx);
            }
            if let Some(o) = offset {
                j.rep.count(&format!("offset:{:+}", o));
                j.rep.count(&format!("offset-{:?}:{:+}", mode, o));
            }
            let mut f = Fnv::new();
            f.add(format!("{:?}|{}|{}{}{}{}{}|{:?}|{:?}", mode, class, c.with_filler as u8, c.with_wild as u8, c.dataver_filter as u8, c.limited as u8, c.repeat_subject as u8, offset, j.outcome).as_bytes());
            f.add(node.shape_class().as_bytes());
            let h = f.0;
            rep.distinct.insert(h);
        }
    }
    // boundary consistency of the sweep (observation)
    let _ = (p_read, p_sub, p_rep);
}

pub fn run(ctx: &Ctx) -> Report {
    let mut rep = Report::new(
        "C14",
        "Real InteractionModel over the probe data model; per case a node (filler cluster, wildcard cluster, pad + subject \
         attribute, events), a request shape and a subject shape; the pad length is swept -8..+8 bytes around the empirically \
         calibrated fit boundary for Read, Subscribe priming and subscription reports. One evaluation = one judged answer. \
         distinct = hash(mode, subject class, request shape, boundary offset, outcome classes, node shape).",
    );
    crate::util::quiet_panics();
    rep.assumptions.push("the transmit buffer size is a compile-time constant; 'every buffer size' is explored through value sizes".into());
    rep.assumptions.push("order between different attributes of a wildcard expansion is not judged; list element order is".into());
    rep.assumptions.push("a subscription report may carry a changed attribute more than once (at-least-once); unchanged attributes in a report are noted".into());
    for d in -8..=8i64 {
        rep.floor(&format!("offset:{:+}", d), 20);
    }
    rep.floor("multi_chunk_answers", 1000);
    rep.floor("lists_split_across_chunks", 150);
    rep.floor("mode:Read", 300);
    rep.floor("mode:Priming", 300);
    rep.floor("mode:Report", 300);
    rep.floor("events_checked", 300);
    rep.floor("unfittable_answers_judged", 10);

    if let Some(r) = &ctx.replay {
        let seed: u64 = r["shard_seed"].as_str().and_then(|s| s.parse().ok()).unwrap_or(0);
        let idx = r["index"].as_u64().unwrap_or(0);
        let c = gen_case(subseed(seed, &[idx]));
        let mut budget = i64::MAX;
        guarded(&mut rep, &c, r.clone(), &mut budget);
        rep.sample(json!({"case": format!("{:?}", c)}));
        return rep;
    }

    let total = ctx.share(2000, 100_000) as i64;
    let mut budget = total;
    let shard_seed = ctx.shard_seed();
    let mut k = 0u64;
    while budget > 0 {
        let idx = k * ctx.nshards + ctx.shard;
        let c = gen_case(subseed(shard_seed, &[idx]));
        let replay = json!({"check": "C14", "shard_seed": shard_seed.to_string(), "index": idx});
        guarded(&mut rep, &c, replay, &mut budget);
        if k < 2 {
            rep.sample(json!({"index": idx, "case": format!("{:?}", c)}));
        }
        k += 1;
    }
    rep
}

fn guarded(rep: &mut Report, c: &CaseCfg, replay: serde_json::Value, budget: &mut i64) {
    let r = std::panic::catch_unwind(std::panic::AssertUnwindSafe(|| run_case(rep, c, replay.clone(), budget)));
    if let Err(e) = r {
        let msg = crate::util::panic_msg(&e);
        rep.violation("harness", &format!("C14/harness-panic/{}", crate::util::panic_class(&msg)), format!("panic in generator / judge: {}; case {:?}", msg, c), replay);
        *budget -= 10;
    }
}
