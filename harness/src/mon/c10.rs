//! C10 — a message reaches only its own exchange, and the receive path never wedges.
//!
//! Workload (`c10_world`): two real `Matter` nodes A and B with three mirrored secure sessions
//! (two "disturbed" ones, one unaffected "probe" session), each node with a pool of acceptor
//! slots (late / never accepting per a time profile, handlers cancelled at their n-th await)
//! and clients initiating 1..4-round exchanges towards the other node (cancelled mid-flight),
//! a lossy / duplicating / re-ordering network during the disturbance phase, and a keyed
//! hostile peer H that owns one secure session with each node (plus real group keys at B and
//! unsecured messages) and sends every combination of {exchange id: fresh / live (either role)
//! / stale / live on another session} x {I flag} x {R flag} x {opcode: data, standalone ack,
//! status report (incl. CloseSession), Sigma1, PBKDFParamRequest, IM, MCSP} x {ack field}
//! x {session live / expired}; H can also impersonate A or B for one CloseSession so that a
//! disturbed session vanishes at one end while messages are in flight.
//!
//! Oracle (written from the property statement):
//!  R1 misroute      every application payload carries (destination node, session, exchange id,
//!                   I flag); whatever surfaces on an exchange handle must carry that handle's
//!                   session, exchange id and the opposite role.
//!  R2 new-exchange  a hostile message that is not an initiator message, is a standalone ack,
//!                   or arrives on an expired session must not make a responder exchange with
//!                   its id appear in the receiver's exchange table (sampled after every poll).
//!  R3 probe         after the faults stop, a request on a fresh exchange of the unaffected
//!                   session is answered within 30 s of virtual time, in both directions.
//!  R4 rx-slot       the RX slot is free at quiescence (after a 100 s quiet tail).
//!  R5 closed        no exchange is left in the accept-pending or dropped state at quiescence.
//!  R6 wire          no datagram is sent by either node in the last 30 s of the quiet tail.
//!  R7 wedge         the run ends (no livelock / no script that never completes), no panic.
//!  R9 deadline      no exchange stays accept-pending for more than 3 s (rs-matter's accept deadline is
//!                   1 s, swept every 50 ms): an unclaimed message is discarded at the deadline.
//!  R8 swallowed     a node message whose `send` returned Ok (it was acknowledged) must have surfaced
//!                   on the peer's handle of that very exchange, if that handle owned the exchange
//!                   since before the send and was still waiting in recv() 1 s after the
//!                   acknowledgement had come back (nothing but the owner may take it out of RX).
//! Duplicates delivered twice to an application are counted, not judged (C09 owns them).
//!
//! Family "twins" (`c10_twins`, ~15 % of the scenarios, on top of an ordinary scenario): two or three
//! distinct peers - unsecured sessions from different source addresses with different ephemeral node ids
//! (all with local session id 0), an unsecured and a secure session, two secure sessions - open an
//! exchange with the SAME exchange id at one node (controls: different ids); the handlers wait in recv
//! for the follow-ups, which the peers send in a chosen order / timing (the other peer's follow-up first,
//! one owner busy or accepting late, piggy-backed / standalone / no acks). R1 also compares the PEER: the
//! payload's sender (peer address + ephemeral node id, as a peer code in the tag) must be the peer of the
//! handle's session (read from the session's peer address / peer node id).

use std::collections::{BTreeMap, BTreeSet};

use serde_json::{json, Value};

use crate::report::{Ctx, Report};
use crate::sim::exec::RunStatus;
use crate::sim::rng::{subseed, Fnv, Rng};

use super::c10_twins::*;
use super::c10_world::*;

// ---------------------------------------------------------------------------------------------
// Generator
// ---------------------------------------------------------------------------------------------

const CLIENT_MODES: [u8; 12] = [
    M_NORMAL, M_NORMAL, M_NORMAL, M_NORMAL, M_NORMAL, M_ACK_FIRST, M_HOLD, M_PONG_UNREL, M_DROP, M_HOLD_RX, M_ACK_DROP, M_HOLD_DROP,
];
const ACCEPT_DELAYS: [u32; 12] = [0, 0, 0, 100, 400, 900, 990, 1000, 1040, 1500, 3000, 5000];

pub fn gen_params(rng: &mut Rng, idx: u64) -> Params {
    let seed = rng.u64();
    let family = rng.below(10);
    let group = rng.chance(1, 4);
    let mut clients: Vec<ClientSpec> = Vec::new();
    let n_clients = 2 + rng.usize(5);
    let burst = family == 0;
    let mut probe_clients = 0;
    for k in 0..n_clients {
        let mut sess = *rng.pick(&[0u8, 0, 0, 1, 1, 2, 3]);
        if sess == S_PROBE {
            probe_clients += 1;
            if probe_clients > 3 {
                sess = 0;
            }
        }
        let rounds = 1 + rng.below(4) as u8;
        let modes: Vec<u8> = (0..rounds).map(|_| *rng.pick(&CLIENT_MODES)).collect();
        let cancel = if sess != S_PROBE && rng.chance(1, 3) { Some(((idx + k as u64 * 5) % 14) as u32) } else { None };
        clients.push(ClientSpec {
            node: rng.below(2) as u8,
            sess,
            rounds,
            start_ms: rng.below(2500) as u32,
            think_ms: *rng.pick(&[0u16, 0, 5, 40, 150]),
            first_op: *rng.pick(&[0u8, 0, 0, 1, 2, 3]),
            modes,
            hold_ms: rng.below(500) as u16,
            cancel,
            final_ack: rng.bool(),
        });
    }
    if burst {
        // more concurrent exchanges than a session can hold: the session is closed under load
        let node = rng.below(2) as u8;
        let sess = rng.below(2) as u8;
        let start = rng.below(1500) as u32;
        for _ in 0..(5 + rng.below(3)) {
            clients.push(ClientSpec {
                node,
                sess,
                rounds: 1 + rng.below(2) as u8,
                start_ms: start + rng.below(30) as u32,
                think_ms: 0,
                first_op: 0,
                modes: vec![*rng.pick(&[M_HOLD, M_HOLD_DROP, M_NORMAL])],
                hold_ms: 300 + rng.below(600) as u16,
                cancel: None,
                final_ack: false,
            });
        }
    }

    // ---- hostile injections
    let mut injs: Vec<Inj> = Vec::new();
    let n_inj = if family == 1 { 0 } else { 2 + rng.usize(10) };
    let hostile_modes = [M_DROP, M_DROP, M_ACK_DROP, M_PONG_UNREL, M_HOLD_DROP, M_HOLD_DROP, M_NORMAL, M_HOLD_RX];
    for _ in 0..n_inj {
        let r = rng.below(100);
        let node = rng.below(2) as u8;
        let base = Inj {
            t_ms: rng.below(5000) as u32,
            node,
            sess: InjSess::Hostile,
            idc: *rng.pick(&[IdClass::Fresh, IdClass::Fresh, IdClass::LiveResp, IdClass::LiveInit, IdClass::Stale, IdClass::OtherSess]),
            i: rng.bool(),
            r: rng.bool(),
            op: *rng.pick(&[
                OpClass::Data,
                OpClass::Data,
                OpClass::Data,
                OpClass::Sack,
                OpClass::Sack,
                OpClass::StatusOther,
                OpClass::Sigma1,
                OpClass::Pbkdf,
                OpClass::Im,
                OpClass::Mcsp,
            ]),
            ack: *rng.pick(&[AckClass::None, AckClass::None, AckClass::Bogus, AckClass::Last]),
            mode: *rng.pick(&hostile_modes),
            hold_ms: 200 + rng.below(1500) as u16,
            g_control: false,
            g_dst_unicast: false,
            payload: true,
        };
        let j = if r < 66 {
            let mut j = base;
            if j.op == OpClass::Sack {
                j.payload = rng.bool();
            }
            if rng.chance(1, 25) {
                j.op = OpClass::StatusClose;
            }
            j
        } else if r < 78 && group {
            Inj {
                node: 1,
                sess: InjSess::Group,
                idc: *rng.pick(&[IdClass::Fresh, IdClass::Fresh, IdClass::LiveResp, IdClass::OtherSess]),
                g_control: rng.chance(1, 4),
                g_dst_unicast: rng.chance(1, 5),
                mode: *rng.pick(&[M_DROP, M_HOLD_DROP, M_PONG_UNREL, M_NORMAL, M_ACK_DROP]),
                ..base
            }
        } else if r < 88 {
            Inj {
                sess: InjSess::Unsecured,
                idc: *rng.pick(&[IdClass::Fresh, IdClass::LiveResp, IdClass::OtherSess]),
                ..base
            }
        } else if r < 94 {
            // the peer "closes" a disturbed session at one end only
            Inj {
                sess: InjSess::Legit(rng.below(2) as u8),
                idc: IdClass::Fresh,
                i: rng.bool(),
                r: false,
                op: OpClass::StatusClose,
                ack: AckClass::None,
                ..base
            }
        } else {
            base
        };
        injs.push(j);
    }
    // pairs: H opens an exchange that the handler holds, then addresses it again while it is live
    if n_inj > 0 && rng.chance(2, 3) {
        let node = rng.below(2) as u8;
        let t = rng.below(3500) as u32;
        injs.push(Inj {
            t_ms: t,
            node,
            sess: InjSess::Hostile,
            idc: IdClass::Fresh,
            i: true,
            r: rng.bool(),
            op: *rng.pick(&[OpClass::Data, OpClass::Sigma1, OpClass::Im]),
            ack: AckClass::None,
            mode: M_HOLD_DROP,
            hold_ms: 1200,
            g_control: false,
            g_dst_unicast: false,
            payload: true,
        });
        for _ in 0..1 + rng.below(2) {
            injs.push(Inj {
                t_ms: t + 50 + rng.below(900) as u32,
                node,
                sess: InjSess::Hostile,
                idc: IdClass::LiveResp,
                i: rng.bool(),
                r: rng.bool(),
                op: *rng.pick(&[OpClass::Data, OpClass::Data, OpClass::Sack, OpClass::StatusOther]),
                ack: *rng.pick(&[AckClass::None, AckClass::Bogus]),
                mode: *rng.pick(&[M_DROP, M_PONG_UNREL, M_HOLD_DROP]),
                hold_ms: 300,
                g_control: false,
                g_dst_unicast: false,
                payload: true,
            });
        }
    }
    if injs.len() > 200 {
        injs.truncate(200);
    }

    // ---- acceptor profiles
    let mut profile: [Vec<(u32, u32)>; 2] = [Vec::new(), Vec::new()];
    for n in 0..2 {
        if rng.chance(2, 5) {
            continue;
        }
        let mut t = 0u32;
        while t < PROFILE_MS as u32 {
            let dur = 300 + rng.below(1700) as u32;
            profile[n].push((dur, *rng.pick(&ACCEPT_DELAYS)));
            t += dur;
        }
    }
    let mut hcancel: [Vec<Option<u32>>; 2] = [Vec::new(), Vec::new()];
    for n in 0..2 {
        for k in 0..5u64 {
            hcancel[n].push(if rng.chance(2, 5) { Some(((idx / 16 + k * 3 + n as u64 * 7) % 15) as u32) } else { None });
        }
    }
    let net = *rng.pick(&[(0u32, 0u32, 0u32, 0u64), (0, 0, 0, 0), (5, 5, 10, 50), (15, 10, 20, 200), (30, 10, 20, 400), (0, 20, 30, 800)]);
    let expire = if rng.chance(1, 4) { Some((rng.below(4000) as u32, rng.below(2) as u8, *rng.pick(&[3u8, 3, 3, 0, 1]))) } else { None };
    let mut p = Params {
        seed,
        s1_pase: rng.bool(),
        sh_pase: rng.bool(),
        clients,
        injs,
        profile,
        hcancel,
        net,
        expire,
        group,
        fill: rng.chance(1, 4),
        shuffle: !rng.chance(1, 8),
        slots: 16,
        twins: None,
    };
    // ---- family "twins" (drawn last: every other parameter of a scenario is what it was before
    // this family existed)
    if rng.chance(3, 20) {
        let tw = gen_twins(rng, !SMALL_TABLES);
        let n = tw.node as usize;
        if rng.chance(2, 3) {
            // the handlers of the target node are not cancelled: they get to wait for the follow-ups
            for c in p.hcancel[n].iter_mut() {
                *c = None;
            }
        }
        if rng.chance(1, 2) {
            p.profile[n].clear();
        }
        p.twins = Some(tw);
    }
    p
}

fn params_json(p: &Params) -> Value {
    json!({
        "check": "C10",
        "seed": p.seed.to_string(),
        "clients": p.clients.iter().map(|c| format!("n{} s{} x{} @{}ms modes{:?} cancel{:?}", c.node, c.sess, c.rounds, c.start_ms, c.modes, c.cancel)).collect::<Vec<_>>(),
        "injections": p.injs.iter().map(|j| format!("@{}ms n{} {:?} {:?} I{} R{} {:?} ack{:?} mode{}", j.t_ms, j.node, j.sess, j.idc, j.i as u8, j.r as u8, j.op, j.ack, j.mode)).collect::<Vec<_>>(),
        "profile": format!("{:?}", p.profile),
        "handler_cancel": format!("{:?}", p.hcancel),
        "net": format!("{:?}", p.net),
        "expire": format!("{:?}", p.expire),
        "group": p.group, "fill": p.fill, "shuffle": p.shuffle, "s1_pase": p.s1_pase, "sh_pase": p.sh_pase,
        "twins": p.twins.as_ref().map(|t| t.describe()),
        "gen": "see gen_params; replay by (shard_seed, index)",
    })
}

// ---------------------------------------------------------------------------------------------
// Judge
// ---------------------------------------------------------------------------------------------

fn sess_class(tag: u8) -> &'static str {
    match tag {
        0 | 1 => "disturbed-session",
        S_PROBE => "probe-session",
        S_HOSTILE => "hostile-peer-session",
        S_HOSTILE2 => "second-hostile-peer-session",
        S_GROUP => "group-session",
        S_UNSEC => "unsecured-session",
        _ => "other-session",
    }
}

fn why_class(w: &Why) -> String {
    match w {
        Why::RecvErr(c) => format!("recv-err:{:?}", c),
        Why::SendErr(c) => format!("send-err:{:?}", c),
        Why::InitFail(c) => format!("init-fail:{:?}", c),
        other => format!("{:?}", other),
    }
}

struct InjRec {
    t: u64,
    node: u8,
    sess: u8,
    exch_id: u16,
    i: bool,
    r: bool,
    op: OpClass,
    ack: bool,
    idc: IdClass,
    /// a message of a twin peer (takes part in R2's bookkeeping, not in the injection counters)
    twin: bool,
}

pub struct Verdict {
    pub shape: u64,
    pub disturbed: bool,
}

pub fn judge(rep: &mut Report, p: &Params, o: &Outcome, replay: Value) -> Verdict {
    let mut shape = Fnv::new();
    let mut v = Verdict { shape: 0, disturbed: false };
    if let Some(e) = &o.setup_error {
        if e.starts_with("session-id-clash") {
            rep.note("setup-skipped:session-id-clash-with-group-keyring");
        } else if e.starts_with("group-setup: ca") || e.starts_with("group-setup: mint") {
            // harness-side certificate minting failed for this seed (same as in C03): skipped
            rep.note(&format!("setup-skipped:{}", e));
        } else {
            rep.inconclusive(&format!("setup-failed:{}", e));
        }
        return v;
    }
    if let Some(msg) = &o.panic {
        rep.violation(
            "no-panic",
            &format!("C10/panic/{}", crate::util::panic_class(msg)),
            format!("panic while running the scenario: {}; params {}", msg, params_json(p)),
            replay.clone(),
        );
        return v;
    }
    let status = o.status.unwrap_or(RunStatus::Stalled);
    rep.count(&format!("run-status:{:?}", status));
    match status {
        RunStatus::Done => {}
        RunStatus::StepBudget => {
            rep.violation(
                "R7-no-livelock",
                "C10/wedge/poll-budget-exhausted",
                format!(
                    "the scenario did not finish within {} polls at virtual time {} ms (events {}): some future keeps waking itself without progress; params {}",
                    o.polls,
                    (o.end_time - o.t0) / 1000,
                    o.events.len(),
                    params_json(p)
                ),
                replay.clone(),
            );
            return v;
        }
        RunStatus::TimeHorizon | RunStatus::Stalled => {
            rep.violation(
                "R7-script-completes",
                &format!("C10/wedge/script-never-completed/{:?}", status),
                format!(
                    "the scenario script (all waits bounded by harness timeouts) did not complete: status {:?} at virtual time {} ms; last events {:?}; params {}",
                    status,
                    (o.end_time - o.t0) / 1000,
                    o.events.iter().rev().take(5).collect::<Vec<_>>(),
                    params_json(p)
                ),
                replay.clone(),
            );
            return v;
        }
    }

    // ---- handles
    let mut handles: BTreeMap<u32, (u8, Option<HandleInfo>, bool)> = BTreeMap::new(); // hid -> (node, info, accepted?)
    let mut injs: Vec<InjRec> = Vec::new();
    let mut recv_seen: BTreeSet<(u32, u8, u8, u16, u8)> = BTreeSet::new();
    let mut delivery_hash = Fnv::new();
    for e in &o.events {
        match &e.kind {
            EvKind::Init { hid, h, client } => {
                handles.insert(*hid, (e.node, *h, false));
                if *client < 0xF0 {
                    rep.count("client_exchanges_initiated");
                }
                if h.is_none() {
                    rep.note("handle-info-unavailable-at-initiate");
                }
            }
            EvKind::InitFail { code, .. } => rep.count(&format!("client-init-failed:{:?}", code)),
            EvKind::Accept { hid, h, delay, cancel, .. } => {
                handles.insert(*hid, (e.node, *h, true));
                rep.count("exchanges_accepted");
                if *delay > 0 {
                    rep.count("late_accepts");
                    rep.count(&format!("late-accept-delay:{}", delay));
                }
                if let Some(n) = cancel {
                    rep.count(&format!("handler-cancel-planned-n:{}", n));
                }
                match h {
                    Some(h) => rep.count(&format!("accepted-on:{}", sess_class(h.sess))),
                    None => rep.note("handle-info-unavailable-at-accept(session gone)"),
                }
            }
            EvKind::Closed { hid, why } => {
                let accepted = handles.get(hid).map(|h| h.2).unwrap_or(false);
                rep.count(&format!("{}-ended:{}", if accepted { "handler" } else { "client" }, why_class(why)));
                if *why == Why::Cancelled {
                    rep.count(if accepted { "handler_cancellations" } else { "client_cancellations" });
                }
                if matches!(why, Why::SendStuck) {
                    rep.note("send-did-not-return-within-8s(harness guard)");
                }
            }
            EvKind::Inject {
                idx: _,
                node,
                sess,
                exch_id,
                i,
                r,
                op,
                ack,
                idc,
                skipped,
                ..
            } => {
                if let Some(s) = skipped {
                    rep.count(&format!("injection-skipped:{}", s));
                    continue;
                }
                injs.push(InjRec {
                    t: e.t,
                    node: *node,
                    sess: *sess,
                    exch_id: *exch_id,
                    i: *i,
                    r: *r,
                    op: *op,
                    ack: ack.is_some(),
                    idc: *idc,
                    twin: false,
                });
            }
            EvKind::Twin { sess, exch_id, op, r, ack, skipped: None, .. } => {
                if let Some(tw) = &p.twins {
                    injs.push(InjRec {
                        t: e.t,
                        node: tw.node,
                        sess: *sess,
                        exch_id: *exch_id,
                        i: true,
                        r: *r,
                        op: *op,
                        ack: ack.is_some(),
                        idc: IdClass::Fresh,
                        twin: true,
                    });
                }
            }
            EvKind::Expire { done, sess, .. } => {
                if *done {
                    rep.count(&format!("session-marked-expired:{}", sess_class(*sess)));
                }
            }
            EvKind::SendRet { res, .. } => {
                rep.count(&format!("send:{}", match res { Ok(()) => "ok".to_string(), Err(c) => format!("{:?}", c) }));
            }
            _ => {}
        }
    }

    // ---- R1: misrouting
    for e in &o.events {
        let EvKind::Recv { hid, tag, proto, opcode, .. } = &e.kind else {
            continue;
        };
        rep.count("app_messages_surfaced");
        let Some(t) = tag else {
            rep.note(&format!("untagged-payload-surfaced/proto{:#x}/op{:#x}", proto, opcode));
            continue;
        };
        delivery_hash.add(&[e.node, t.src, t.sess, t.app, t.seq as u8, t.dir]);
        let hostile = t.src >= 2;
        if !recv_seen.insert((*hid, t.src, t.app, t.seq, t.dir)) {
            rep.count("duplicate-surfaced-on-same-handle(not judged, see C09)");
        }
        let Some((node, Some(h), _)) = handles.get(hid) else {
            rep.count("misroute-unchecked:handle-info-unknown");
            continue;
        };
        rep.count("misroute_checks");
        if hostile {
            rep.count("misroute_checks_hostile");
        }
        let mut bad: Vec<(&str, String)> = Vec::new();
        if t.dst != *node {
            bad.push(("node", format!("addressed to node {} surfaced at node {}", t.dst, node)));
        }
        if t.sess != h.sess {
            bad.push(("session", format!("sent on {} (tag {:#x}), surfaced on a handle of {} (tag {:#x}, local session id {:#06x})", sess_class(t.sess), t.sess, sess_class(h.sess), h.sess, h.local_sid)));
        }
        if t.exch_id != h.exch_id && !(t.src != 2 && t.dir == 0 && t.exch_id == 0) {
            bad.push(("exchange-id", format!("sent with exchange id {:#06x}, surfaced on exchange id {:#06x}", t.exch_id, h.exch_id)));
        }
        if t.i == h.initiator {
            bad.push(("role", format!("message with I flag {} surfaced on a handle whose role is {}", t.i as u8, if h.initiator { "initiator" } else { "responder" })));
        }
        // the peer: who sent the payload (for H impersonating A / B on a disturbed session: whom it
        // claimed to be) against the peer of the handle's session
        let claimed = if t.src == P_H && t.sess <= 1 { 1 - t.dst.min(1) } else { t.src };
        if h.peer == P_UNKNOWN {
            rep.count("misroute-peer-unchecked:peer-of-the-handle's-session-unknown(group)");
        } else {
            rep.count("misroute_peer_checks");
            if h.sess == S_UNSEC {
                rep.count("misroute_peer_checks_unsecured");
            }
            if claimed != h.peer {
                bad.push((
                    "peer",
                    format!(
                        "sent by {} (peer code {:#x}) on its own session, surfaced on an exchange of the session with {} (peer code {:#x}; {}, local session id {:#06x})",
                        peer_name(claimed),
                        claimed,
                        peer_name(h.peer),
                        h.peer,
                        sess_class(h.sess),
                        h.local_sid
                    ),
                ));
            }
        }
        for (field, what) in bad {
            rep.violation(
                "R1-only-its-own-exchange",
                &format!(
                    "C10/misroute/{}/{}/{}",
                    field,
                    if t.src >= P_TWIN0 {
                        "unsecured-peer-message"
                    } else if hostile {
                        "hostile-peer-message"
                    } else {
                        "node-message"
                    },
                    sess_class(h.sess)
                ),
                format!(
                    "a payload surfaced on an exchange that is not its own: {}; payload tag {:?}; handle {:?} (proto {:#x} opcode {:#x}) at t={} ms; params {}",
                    what,
                    t,
                    h,
                    proto,
                    opcode,
                    (e.t - o.t0) / 1000,
                    params_json(p)
                ),
                replay.clone(),
            );
        }
    }

    // ---- family "twins": coverage
    if let Some(h) = judge_twins(rep, p, o, &handles) {
        rep.distinct.insert(h);
        shape.add_u64(h);
        v.disturbed = true;
    }

    // ---- R8: a message that was acknowledged while the owner of its exchange was waiting for it
    // must surface on that owner's handle.
    {
        #[derive(Clone, Copy)]
        enum K {
            Wait,
            Recv(Option<Tag>),
            Other,
        }
        let mut tl: BTreeMap<u32, Vec<(u64, K)>> = BTreeMap::new();
        let mut sends: Vec<(u32, u64, Tag, Option<(u64, bool)>)> = Vec::new(); // (hid, t_call, tag, (t_ret, ok))
        for e in &o.events {
            match &e.kind {
                EvKind::RecvWait { hid } => tl.entry(*hid).or_default().push((e.t, K::Wait)),
                EvKind::Recv { hid, tag, .. } => tl.entry(*hid).or_default().push((e.t, K::Recv(*tag))),
                EvKind::Closed { hid, .. } => tl.entry(*hid).or_default().push((e.t, K::Other)),
                EvKind::SendCall { hid, tag, reliable, .. } => {
                    tl.entry(*hid).or_default().push((e.t, K::Other));
                    if *reliable {
                        // only a reliable send's Ok means "acknowledged"
                        sends.push((*hid, e.t, *tag, None));
                    }
                }
                EvKind::SendRet { hid, seq, res } => {
                    tl.entry(*hid).or_default().push((e.t, K::Other));
                    if let Some(s) = sends.iter_mut().rev().find(|s| s.0 == *hid && s.2.seq == *seq && s.3.is_none()) {
                        s.3 = Some((e.t, res.is_ok()));
                    }
                }
                _ => {}
            }
        }
        let impersonated: Vec<(u8, u8, u64)> = injs.iter().filter(|j| j.sess <= 1).map(|j| (j.node, j.sess, j.t)).collect();
        let mut opened: BTreeMap<u32, u64> = BTreeMap::new();
        for e in &o.events {
            if let EvKind::Init { hid, .. } | EvKind::Accept { hid, .. } = &e.kind {
                opened.insert(*hid, e.t);
            }
        }
        for (hid, t_call, tag, ret) in &sends {
            let Some((t_ret, true)) = ret else { continue };
            if tag.dst > 1 {
                continue;
            }
            let Some((_, Some(hs), _)) = handles.get(hid) else { continue };
            // the harness impersonated the sender on this session earlier (one CloseSession with
            // the sender's next-but-one counter): a genuine message that later carries the same
            // counter is a duplicate for the receiver - the harness's doing, not judged
            if impersonated.iter().any(|(n, s, t)| *n == tag.dst && *s == hs.sess && *t <= *t_ret) {
                rep.count("acked-check-skipped:sender-was-impersonated-on-this-session");
                continue;
            }
            // the peer's handle(s) of the same exchange
            for (phid, (pnode, ph, _)) in handles.iter() {
                let Some(ph) = ph else { continue };
                if *pnode != tag.dst || ph.sess != hs.sess || ph.exch_id != hs.exch_id || ph.initiator == hs.initiator {
                    continue;
                }
                let Some(evs) = tl.get(phid) else { continue };
                // the peer's handle owned the exchange before the message was sent ...
                if opened.get(phid).map(|t| *t > *t_call).unwrap_or(true) {
                    continue;
                }
                let surfaced = evs.iter().any(|(_, k)| matches!(k, K::Recv(Some(r)) if r.src == tag.src && r.app == tag.app && r.seq == tag.seq && r.dir == tag.dir));
                if surfaced {
                    rep.count("acked_messages_surfaced_on_owner");
                    continue;
                }
                // ... and was still waiting for a message 1 s after the acknowledgement came back
                let covered = evs.iter().enumerate().any(|(i, (t, k))| {
                    matches!(k, K::Wait) && evs.get(i + 1).map(|n| n.0 >= (*t).max(*t_ret) + 1_000_000).unwrap_or(false)
                });
                if !covered {
                    rep.count("acked-message-not-surfaced:owner-was-not-waiting(unjudged)");
                    continue;
                }
                // A message that is 16 or more counters behind the newest one the receiver has
                // seen is outside rs-matter's receive window: it is acknowledged as a duplicate
                // and not delivered (C04 / C09 territory). Only judge when the sender used at most
                // 12 counters on this session between the call and the acknowledgement.
                let sid_at_dst = [SIDS[tag.dst as usize][hs.sess.min(3) as usize], if hs.sess == S_PROBE { SIDS_ALT[tag.dst as usize] } else { 0 }];
                let ctrs: BTreeSet<u32> = o
                    .wire
                    .iter()
                    .filter(|(t, src, sid, _)| *src == tag.src && *t >= *t_call && *t <= *t_ret && sid_at_dst.contains(sid) && *sid != 0)
                    .map(|(_, _, _, c)| *c)
                    .collect();
                if ctrs.len() > 12 {
                    rep.count("acked-check-skipped:sender-used-more-than-12-counters-meanwhile(receive window)");
                    continue;
                }
                rep.count("acked_while_owner_waiting_checks");
                {
                    rep.violation(
                        "R8-acknowledged-message-reaches-its-waiting-owner",
                        &format!("C10/swallowed/acknowledged-message-never-surfaced-while-owner-waiting/{}", sess_class(hs.sess)),
                        format!(
                            "node {} sent {:?} on exchange {:?} (send called at t={} ms, returned Ok - i.e. acknowledged - at t={} ms); the peer's handle {:?} owned that exchange since before the call and was still waiting in recv() 1 s after the acknowledgement, yet the message never surfaced on it (its events: {}); params {}",
                            tag.src,
                            tag,
                            hs,
                            (t_call - o.t0) / 1000,
                            (t_ret - o.t0) / 1000,
                            ph,
                            evs.iter().map(|(t, k)| format!("{}:{}", (t - o.t0) / 1000, match k { K::Wait => "wait".to_string(), K::Recv(r) => format!("recv({:?})", r.map(|r| (r.app, r.seq, r.dir))), K::Other => "other".to_string() })).collect::<Vec<_>>().join(" "),
                            params_json(p)
                        ),
                        replay.clone(),
                    );
                }
            }
        }
    }

    // ---- R2: exchange creation by hostile messages
    let expired_at = |node: u8, sess: u8| -> Option<u64> {
        o.watch[node as usize].sessions.values().filter(|(tag, _)| *tag == sess).filter_map(|(_, sw)| sw.expired_at).min()
    };
    let mut by_key: BTreeMap<(u8, ExKey), Vec<&InjRec>> = BTreeMap::new();
    for j in &injs {
        v.disturbed = true;
        if j.twin {
            by_key
                .entry((
                    j.node,
                    ExKey {
                        sess: j.sess,
                        local_sid: if j.sess <= 3 { SIDS[j.node as usize][j.sess as usize] } else { 0 },
                        exch_id: j.exch_id,
                        initiator: false,
                        sess_uid: 0,
                    },
                ))
                .or_default()
                .push(j);
            continue;
        }
        let local_sid = match j.sess {
            0..=3 => SIDS[j.node as usize][j.sess as usize],
            _ => 0,
        };
        // group / unsecured sessions: local session id not known to the harness a priori: match on tag + id
        by_key
            .entry((
                j.node,
                ExKey {
                    sess: j.sess,
                    local_sid,
                    exch_id: j.exch_id,
                    initiator: false,
                    sess_uid: 0,
                },
            ))
            .or_default()
            .push(j);
        let exp = expired_at(j.node, j.sess).map(|t| t <= j.t).unwrap_or(false);
        rep.count("injections");
        rep.count(&format!("inj-sess:{}{}", sess_class(j.sess), if exp { "(expired)" } else { "" }));
        rep.count(&format!("inj-id:{:?}", j.idc));
        rep.count(&format!("inj-op:{:?}", j.op));
        rep.count(&format!("inj-flags:I{}R{}A{}", j.i as u8, j.r as u8, j.ack as u8));
        if j.sess == S_GROUP {
            rep.count("group_injections");
        }
        if exp {
            rep.count("expired_session_injections");
        }
        let mut f = Fnv::new();
        f.add(format!("{}|{:?}|{:?}|{}{}{}|{}", j.sess, j.idc, j.op, j.i, j.r, j.ack, exp).as_bytes());
        rep.distinct.insert(f.0);
        shape.add_u64(f.0);
    }
    for ((node, key), list) in &by_key {
        let w = &o.watch[*node as usize];
        // all intervals of responder exchanges with this (session tag, exchange id)
        let ivs: Vec<(ExKey, Interval)> = w
            .all()
            .into_iter()
            .filter(|(k, _)| k.sess == key.sess && k.exch_id == key.exch_id && !k.initiator && (key.local_sid == 0 || k.local_sid == key.local_sid))
            .collect();
        let class_of = |j: &InjRec| -> Option<&'static str> {
            let exp = expired_at(j.node, j.sess).map(|t| t <= j.t).unwrap_or(false);
            if j.op == OpClass::Sack {
                Some("standalone-ack")
            } else if !j.i {
                Some("non-initiator-message")
            } else if exp {
                Some("expired-session")
            } else {
                None
            }
        };
        if list.iter().any(|j| class_of(j).is_none()) {
            rep.count("new-exchange-unjudged(an initiator message with the same id may open it)");
            if !ivs.is_empty() {
                rep.count("hostile_opened_exchanges");
            }
            continue;
        }
        rep.count("new_exchange_checks");
        let t_first = list.iter().map(|j| j.t).min().unwrap_or(0);
        if let Some((k, iv)) = ivs.iter().find(|(_, iv)| iv.first >= t_first) {
            let j = list.iter().filter(|j| j.t <= iv.first).max_by_key(|j| j.t).unwrap_or(&list[0]);
            let class = class_of(j).unwrap_or("?");
            rep.violation(
                "R2-new-exchange-only-by-initiator-message",
                &format!("C10/new-exchange/{}/{:?}/{}", class, j.op, sess_class(j.sess)),
                format!(
                    "a responder exchange {:?} appeared at node {} at t={} ms (accept-pending seen {}, owned seen {}) although the only messages with this exchange id were: {}; none of them may open an exchange ({}); params {}",
                    k,
                    node,
                    (iv.first - o.t0) / 1000,
                    iv.accept_pending_seen,
                    iv.owned_seen,
                    list.iter().map(|j| format!("[t={} ms {:?} I{} R{} ack{} id-class {:?}]", (j.t - o.t0) / 1000, j.op, j.i as u8, j.r as u8, j.ack as u8, j.idc)).collect::<Vec<_>>().join(" "),
                    class,
                    params_json(p)
                ),
                replay.clone(),
            );
        }
    }

    // ---- R9: an unclaimed exchange is given up at the accept deadline; never-accepted
    //      exchanges, sessions closed in flight (coverage)
    for n in 0..2 {
        let still_open: BTreeSet<ExKey> = o.watch[n].open.keys().copied().collect();
        for (k, iv) in o.watch[n].all() {
            if !k.initiator && iv.accept_pending_seen && !iv.owned_seen {
                rep.count("never_accepts");
            }
            if !k.initiator && iv.accept_pending_seen {
                rep.count("accept_deadline_checks");
                let pending_ms = iv.ap_longest.1 / 1000;
                // exchanges that are accept-pending to the very end are R5's
                let to_the_end = still_open.contains(&k) && !iv.owned_seen && !iv.dropped_seen;
                if pending_ms > ACCEPT_DEADLINE_BOUND_MS && !to_the_end {
                    rep.violation(
                        "R9-unclaimed-message-is-discarded-at-the-accept-deadline",
                        &format!("C10/accept-deadline/unclaimed-exchange-outlives-the-deadline/{}", sess_class(k.sess)),
                        format!(
                            "node {}: exchange {:?} stayed accept-pending (its opening message in the RX slot, nobody accepting it) from t={} ms to t={} ms = {} ms; an unclaimed message must be discarded at the accept deadline (1000 ms in rs-matter; bound used {} ms); afterwards owned: {}, dropped: {}; params {}",
                            n,
                            k,
                            (iv.ap_longest.0 - o.t0) / 1000,
                            (iv.ap_longest.0 + iv.ap_longest.1 - o.t0) / 1000,
                            pending_ms,
                            ACCEPT_DEADLINE_BOUND_MS,
                            iv.owned_seen,
                            iv.dropped_seen,
                            params_json(p)
                        ),
                        replay.clone(),
                    );
                }
            }
        }
        for (_, (tag, sw)) in o.watch[n].sessions.iter() {
            if sw.gone_at.is_some() && sw.exch_at_last > 0 && *tag <= S_HOSTILE {
                rep.count("sessions_closed_in_flight");
                rep.count(&format!("session-closed-in-flight:{}", sess_class(*tag)));
                v.disturbed = true;
            }
            if sw.expired_at.is_some() {
                rep.count(&format!("session-expired:{}", sess_class(*tag)));
            }
            if sw.gone_at.is_some() && sw.exch_at_last == 0 && *tag != S_GROUP && *tag != S_UNSEC {
                rep.count(&format!("idle-session-removed-or-evicted:{}", sess_class(*tag)));
                rep.count("idle_sessions_evicted");
            }
        }
    }

    // ---- R3: bounded-progress probes
    let mut probes = [None::<(bool, &'static str, u64)>; 2];
    for e in &o.events {
        if let EvKind::Probe { dir, ok, stage, ms, .. } = &e.kind {
            probes[*dir as usize] = Some((*ok, *stage, *ms));
        }
    }
    if !o.idle_reached {
        rep.note("handlers-still-busy-60s-after-the-faults-stopped");
    }
    let mut fresh_probe_session = false;
    for e in &o.events {
        if let EvKind::ProbeSessionReplaced { lost_at, expired, installed } = &e.kind {
            // not judged: the statement does not promise that a session survives the disturbance
            rep.note(&format!(
                "probe-session-lost-during-the-disturbance/at-node-{}/{}(a fresh session was probed instead)",
                lost_at,
                if *expired { "expired" } else { "removed" }
            ));
            rep.count("probe_session_replaced");
            fresh_probe_session = true;
            if !installed {
                rep.inconclusive("fresh-probe-session-could-not-be-installed");
                return v;
            }
        }
    }
    for n in 0..2 {
        let held = o.watch[n].rx_held_max / 1000;
        rep.count(&format!("rx-slot-longest-hold:{}", if held < 1100 { "<1.1s" } else if held < 3000 { "<3s" } else { ">=3s" }));
        if held >= 3000 {
            // observed, not judged: a message for an OWNED exchange stays in the single RX slot
            // until its owner receives (or drops); an owner busy in `send` keeps it there for up
            // to a whole MRP ladder, and nothing else - not even the ack it waits for - gets in
            rep.note("rx-slot-held-3s-or-longer(message for an owned exchange whose owner does not receive; not judged)");
        }
    }
    for (dir, pr) in probes.iter().enumerate() {
        let name = if dir == 0 { "a-to-b" } else { "b-to-a" };
        let alive = !fresh_probe_session;
        match pr {
            Some((true, _, ms)) => {
                rep.count("probes_answered");
                rep.count(&format!("probe-latency:{}", if *ms < 100 { "<100ms" } else if *ms < 1500 { "<1.5s" } else { ">=1.5s" }));
            }
            Some((false, stage, ms)) => {
                rep.violation(
                    "R3-other-traffic-keeps-flowing",
                    &format!("C10/probe/{}/{}/{}", name, stage, if alive { "original-probe-session" } else { "fresh-probe-session" }),
                    format!(
                        "after the faults stopped (clean network, all harness handlers idle: {}), a request on a fresh exchange of the unaffected session {} was not answered: {} after {} ms (bound {} ms); original probe session used: {}; params {}",
                        o.idle_reached, name, stage, ms, PROBE_BOUND_MS, alive, params_json(p)
                    ),
                    replay.clone(),
                );
            }
            None => {
                rep.violation(
                    "R3-other-traffic-keeps-flowing",
                    &format!("C10/probe/{}/never-ran", name),
                    format!("the probe {} never completed or never started; params {}", name, params_json(p)),
                    replay.clone(),
                );
            }
        }
    }

    // ---- R4 / R5 / R6 at quiescence
    if let Some(fin) = &o.fin {
        for (n, f) in fin.iter().enumerate() {
            rep.count("quiescence_checks");
            if f.rx_occupied {
                rep.violation(
                    "R4-rx-slot-free-at-quiescence",
                    "C10/rx-slot/occupied-at-quiescence",
                    format!("node {}: the RX slot is still occupied {} s after all activity ended; exchanges {:?}; params {}", n, TAIL_MS / 1000, f.sessions.iter().flat_map(|s| s.exchanges.iter()).collect::<Vec<_>>(), params_json(p)),
                    replay.clone(),
                );
            }
            if f.tx_occupied {
                rep.note("tx-slot-occupied-at-quiescence");
            }
            for s in &f.sessions {
                for x in &s.exchanges {
                    let tag = sess_tag(n, s);
                    if x.accept_pending || x.dropped {
                        rep.violation(
                            "R5-unclaimed-exchange-is-closed",
                            &format!("C10/exchange-not-closed/{}/{}", if x.accept_pending { "accept-pending" } else { "dropped" }, sess_class(tag)),
                            format!(
                                "node {}: exchange {:?} of session {:#06x} ({}) is still {} {} s after all activity ended (nobody will ever pick it up or close it); params {}",
                                n,
                                x,
                                s.local_sess_id,
                                sess_class(tag),
                                if x.accept_pending { "accept-pending" } else { "dropped" },
                                TAIL_MS / 1000,
                                params_json(p)
                            ),
                            replay.clone(),
                        );
                    } else {
                        rep.note("owned-exchange-at-the-end(harness handle still alive)");
                    }
                }
            }
        }
    } else {
        rep.inconclusive("no-final-snapshot");
    }
    match o.tail_datagrams {
        Some(0) => rep.count("wire_quiescence_checks"),
        Some(n) => {
            rep.count("wire_quiescence_checks");
            rep.violation(
                "R6-wire-quiescence",
                "C10/wire-quiescence/perpetual-traffic",
                format!(
                    "{} datagrams were sent by the nodes in the last {} s of a {} s quiet tail (no application activity, all MRP ladders and receive timeouts long over): {:?}; params {}",
                    n,
                    TAIL_WINDOW_MS / 1000,
                    TAIL_MS / 1000,
                    o.tail_sample,
                    params_json(p)
                ),
                replay.clone(),
            );
        }
        None => {}
    }

    // ---- scenario shape (distinct)
    for c in &p.clients {
        shape.add(&[c.node, c.sess, c.rounds, c.cancel.map(|x| x as u8 + 1).unwrap_or(0)]);
        if c.cancel.is_some() {
            v.disturbed = true;
        }
    }
    for n in 0..2 {
        for (_, d) in &p.profile[n] {
            shape.add_u64(*d as u64);
            if *d > 0 {
                v.disturbed = true;
            }
        }
        for c in &p.hcancel[n] {
            shape.add(&[c.map(|x| x as u8 + 1).unwrap_or(0)]);
        }
    }
    shape.add_u64(p.net.0 as u64 * 1000 + p.net.1 as u64);
    if p.net.0 + p.net.1 + p.net.2 > 0 {
        v.disturbed = true;
    }
    shape.add_u64(delivery_hash.0);
    v.shape = shape.0;
    rep.count(&format!("polls:{}", if o.polls < 20_000 { "<20k" } else if o.polls < 50_000 { "<50k" } else if o.polls < 100_000 { "<100k" } else { ">=100k" }));
    rep.count_n("datagrams_observed", o.datagrams as u64);
    rep.count_n("wire:dropped", o.net_stats.1);
    rep.count_n("wire:duplicated", o.net_stats.2);
    rep.count_n("wire:delayed", o.net_stats.3);
    rep.count_n("watch_snapshots", o.watch[0].polls + o.watch[1].polls);
    v
}

pub fn run(ctx: &Ctx) -> Report {
    let mut rep = Report::new(
        "C10",
        "Scenarios of two real rs-matter nodes with three mirrored secure sessions, concurrent multi-round exchanges in both directions, \
         acceptor pools that accept late / never, handlers and clients cancelled at their n-th await, a lossy network during the disturbance \
         phase, sessions closed / expired in flight, and a keyed hostile peer (own secure sessions, group keys, unsecured messages) sending \
         crafted messages over {exchange id class} x {I, R, A flags} x {opcode} x {session live / expired}. A scenario is non-trivial if it \
         contains at least one disturbance. distinct = hashes of the scenario shape (clients with their cancellation points, acceptor profiles, \
         handler cancellation plan, network policy, the order in which tagged payloads surfaced) plus one hash per injected combination \
         (session kind, id class, opcode, flags, expired) plus, for a twins scenario, one hash of (session kinds of the peers, exchange-id \
         pattern, opening opcodes / handler modes, the follow-up sequence with ack / R / opcode / handler mode, and the order in which the twin \
         payloads surfaced on which peer's handle); interleavings = executor schedule hashes.",
    );
    crate::util::quiet_panics();
    crate::util::init_log_from_env();
    rep.assumptions.push("sessions are installed through ReservedSession::update with random keys (no handshake); group keys through the public Groups API (C03 key ring builder)".into());
    rep.assumptions.push("the hostile peer H is a legitimate key holder of its own sessions (a buggy or malicious peer), never an outsider; it impersonates A / B only for a single CloseSession".into());
    rep.assumptions.push("a session is marked expired through Sessions::remove_for_fabric(unused fabric index, Some(session)) - the call RemoveFabric makes for the session its command arrived on".into());
    rep.assumptions.push("datagrams of the probe session are never dropped by the network adversary (duplicated / delayed only), no handler or client of it is cancelled, H never addresses it".into());
    rep.assumptions.push("probe bound 30 s virtual = 2 x (accept timeout 1 s + sweeps + one MRP ladder of 5 transmissions in each direction); the probe starts once all harness handlers are idle (at most 60 s after the faults stop)".into());
    rep.assumptions.push("a handle's peer is read from its session's peer address (unsecured twin peers: peer node id) in the verif snapshot; group sessions have no single peer: the peer comparison of R1 is skipped for them".into());
    rep.assumptions.push("status reports with the I flag are not judged for exchange creation (CloseSession is legitimately sent that way); unsecured initiator data messages are not judged either".into());

    if let Some(r) = &ctx.replay {
        let seed: u64 = r["shard_seed"].as_str().and_then(|s| s.parse().ok()).unwrap_or(0);
        let idx = r["index"].as_u64().unwrap_or(0);
        let mut rng = Rng::new(subseed(seed, &[idx]));
        let p = gen_params(&mut rng, idx);
        let o = run_case(&p);
        rep.evaluations += 1;
        let v = judge(&mut rep, &p, &o, r.clone());
        rep.distinct.insert(v.shape);
        rep.interleavings.insert(o.sched_hash);
        rep.sample(json!({"params": params_json(&p), "status": format!("{:?}", o.status), "events": o.events.len(), "datagrams": o.datagrams, "virtual_ms": (o.end_time.saturating_sub(o.t0)) / 1000, "polls": o.polls}));
        return rep;
    }

    let scale = if ctx.scale < 1.0 { ctx.scale } else { 1.0 };
    let fl = |n: u64| ((n as f64) * scale).ceil() as u64;
    for (k, min) in [
        ("probes_answered", 2000u64),
        ("late_accepts", 300),
        ("never_accepts", 150),
        ("handler_cancellations", 300),
        ("client_cancellations", 150),
        ("injections", 4000),
        ("inj-id:Fresh", 1000),
        ("inj-id:LiveResp", 150),
        ("inj-id:LiveInit", 80),
        ("inj-id:Stale", 100),
        ("inj-id:OtherSess", 200),
        ("inj-op:Data", 800),
        ("inj-op:Sack", 400),
        ("inj-op:StatusOther", 150),
        ("inj-op:StatusClose", 100),
        ("inj-op:Sigma1", 150),
        ("inj-op:Pbkdf", 150),
        ("group_injections", 100),
        ("expired_session_injections", 100),
        ("sessions_closed_in_flight", 150),
        ("idle_sessions_evicted", 20),
        ("misroute_checks", 8000),
        ("misroute_checks_hostile", 500),
        ("new_exchange_checks", 1500),
        ("hostile_opened_exchanges", 500),
        ("quiescence_checks", 2000),
        ("accept_deadline_checks", 2500),
        ("acked_messages_surfaced_on_owner", 4000),
        ("wire_quiescence_checks", 1000),
        // family "twins"
        ("misroute_peer_checks", 8000),
        ("misroute_peer_checks_unsecured", 400),
        ("twin_scenarios", 120),
        ("twin_exchanges_accepted", 300),
        ("twin_same_id_pairs", 120),
        ("twin_same_id_pairs_unsecured", 80),
        ("twin-same-id-pair:unsecured+secure", 15),
        ("twin-same-id-pair:secure+secure", 10),
        ("twin_diff_id_pairs", 20),
        ("twin_followups_checked", 300),
        ("twin_followups_with_live_unsecured_twin", 100),
        ("twin_followups_while_twin_waiting", 80),
        ("twin_followups_while_unsecured_twin_waiting", 40),
        ("twin_openers_while_unsecured_twin_waiting", 15),
    ] {
        // the smallest table configuration has no room for the group key ring's sessions nor for
        // secure sessions next to two unsecured twin peers
        if SMALL_TABLES && ["group_injections", "twin-same-id-pair:unsecured+secure", "twin-same-id-pair:secure+secure"].contains(&k) {
            continue;
        }
        // with one disturbed session instead of two there are fewer unclaimed exchanges and fewer
        // live initiator exchanges towards H
        let min = if SMALL_TABLES && ["accept_deadline_checks", "inj-id:LiveInit"].contains(&k) { min * 6 / 10 } else { min };
        rep.floor(k, fl(min));
    }
    if SMALL_TABLES {
        rep.assumptions.push("small-tables build (3 sessions x 3 exchanges per session): only disturbed session 0, the probe session and the session with H are installed (a full table), no group key ring, no filler sessions; a twins scenario installs only the probe session and all twin peers are unsecured; before a replacement probe session is installed, idle unsecured sessions, expired sessions and the surviving half of the lost probe session are removed by the harness".into());
    }

    let n = ctx.share(1_500, 80_000);
    let shard_seed = ctx.shard_seed();
    for k in 0..n {
        let idx = k * ctx.nshards + ctx.shard;
        let mut rng = Rng::new(subseed(shard_seed, &[idx]));
        let p = gen_params(&mut rng, idx);
        let o = run_case(&p);
        rep.evaluations += 1;
        let mut pj = params_json(&p);
        pj["shard_seed"] = json!(shard_seed.to_string());
        pj["index"] = json!(idx);
        let v = judge(&mut rep, &p, &o, pj);
        if v.disturbed {
            rep.distinct.insert(v.shape);
        }
        rep.interleavings.insert(o.sched_hash);
        if k < 3 {
            rep.sample(json!({
                "clients": p.clients.len(), "injections": p.injs.len(), "net": format!("{:?}", p.net),
                "status": format!("{:?}", o.status), "virtual_ms": (o.end_time.saturating_sub(o.t0)) / 1000, "polls": o.polls,
                "app_events": o.events.len(), "datagrams": o.datagrams,
            }));
        }
        if rep.get("violation:C10/wedge/poll-budget-exhausted") >= 3 {
            // every such scenario burns the whole poll budget: stop early
            rep.note("stopped-after-3-poll-budget-violations");
            break;
        }
        if rep.get("violations_raw") > 3000 {
            rep.note("stopped-after-3000-violations");
            break;
        }
    }
    rep
}
