//! C18 helper — an independent BTP (Bluetooth Transport Protocol) segment codec and a
//! reference model of one BTP endpoint, written from the Matter Core specification
//! (section "Bluetooth Transport Protocol") and the C18 property statement, *not* from
//! rs-matter's `btp/session.rs`.
//!
//! Wire format of a segment (fields present according to the flags, in this order):
//!   flags | [management opcode if M] | [ack number if A] | [sequence number unless H]
//!         | [message length u16 LE if B and not H] | payload
//! Flags: H=0x40 handshake, M=0x20 management, A=0x08 ack, E=0x04 ending, C=0x02 continuing,
//! B=0x01 beginning.
//! Handshake request  (central -> peripheral): 65 6c | versions[4] | att_mtu u16 LE | window u8
//! Handshake response (peripheral -> central): 65 6c | version u8 | segment size u16 LE | window u8
//! The handshake response implicitly is the peripheral's segment number 0 (it occupies one
//! slot of the central's receive window and must be acknowledged); the central's first
//! segment has sequence number 0, the peripheral's first one sequence number 1.

use std::collections::VecDeque;

pub const F_H: u8 = 0x40;
pub const F_M: u8 = 0x20;
pub const F_A: u8 = 0x08;
pub const F_E: u8 = 0x04;
pub const F_C: u8 = 0x02;
pub const F_B: u8 = 0x01;
pub const HS_OPCODE: u8 = 0x6c;

/// Ack deadline of the specification: 15 s after receipt of a segment.
pub const ACK_DEADLINE_US: u64 = 15_000_000;

#[derive(Clone, Debug, Default, PartialEq, Eq)]
pub struct Seg {
    pub flags: u8,
    pub opcode: Option<u8>,
    pub ack: Option<u8>,
    pub seq: Option<u8>,
    pub msg_len: Option<u16>,
    pub payload: Vec<u8>,
}

impl Seg {
    pub fn is(&self, f: u8) -> bool {
        self.flags & f != 0
    }

    /// Decode following the flags byte.
    pub fn decode(b: &[u8]) -> Result<Seg, &'static str> {
        let mut it = b.iter().copied();
        let flags = it.next().ok_or("empty")?;
        let mut s = Seg {
            flags,
            ..Default::default()
        };
        if flags & F_M != 0 {
            s.opcode = Some(it.next().ok_or("truncated-opcode")?);
        }
        if flags & F_A != 0 {
            s.ack = Some(it.next().ok_or("truncated-ack")?);
        }
        if flags & F_H == 0 {
            s.seq = Some(it.next().ok_or("truncated-seq")?);
            if flags & F_B != 0 {
                let lo = it.next().ok_or("truncated-len")?;
                let hi = it.next().ok_or("truncated-len")?;
                s.msg_len = Some(u16::from_le_bytes([lo, hi]));
            }
        }
        s.payload = it.collect();
        Ok(s)
    }

    /// Encode: the flags byte as given, then every field that is `Some`, in wire order.
    /// (Consistency between flags and fields is the caller's business: the hostile
    /// generator produces inconsistent ones on purpose.)
    pub fn encode(&self) -> Vec<u8> {
        let mut v = Vec::with_capacity(6 + self.payload.len());
        v.push(self.flags);
        if let Some(o) = self.opcode {
            v.push(o);
        }
        if let Some(a) = self.ack {
            v.push(a);
        }
        if let Some(s) = self.seq {
            v.push(s);
        }
        if let Some(l) = self.msg_len {
            v.extend_from_slice(&l.to_le_bytes());
        }
        v.extend_from_slice(&self.payload);
        v
    }

    pub fn hdr_len(&self) -> usize {
        1 + self.opcode.is_some() as usize
            + self.ack.is_some() as usize
            + self.seq.is_some() as usize
            + if self.msg_len.is_some() { 2 } else { 0 }
    }
}

#[derive(Clone, Copy, Debug, PartialEq, Eq)]
pub struct HsReq {
    pub versions: [u8; 4],
    pub mtu: u16,
    pub window: u8,
}

impl HsReq {
    pub fn encode(&self) -> Vec<u8> {
        let mut v = vec![F_H | F_M | F_E | F_B, HS_OPCODE];
        v.extend_from_slice(&self.versions);
        v.extend_from_slice(&self.mtu.to_le_bytes());
        v.push(self.window);
        v
    }
    pub fn decode(b: &[u8]) -> Option<HsReq> {
        if b.len() != 9 || b[0] != (F_H | F_M | F_E | F_B) || b[1] != HS_OPCODE {
            return None;
        }
        Some(HsReq {
            versions: [b[2], b[3], b[4], b[5]],
            mtu: u16::from_le_bytes([b[6], b[7]]),
            window: b[8],
        })
    }
}

#[derive(Clone, Copy, Debug, PartialEq, Eq)]
pub struct HsResp {
    pub version: u8,
    pub seg: u16,
    pub window: u8,
}

impl HsResp {
    pub fn encode(&self) -> Vec<u8> {
        let mut v = vec![F_H | F_M | F_E | F_B, HS_OPCODE, self.version];
        v.extend_from_slice(&self.seg.to_le_bytes());
        v.push(self.window);
        v
    }
    pub fn decode(b: &[u8]) -> Option<HsResp> {
        if b.len() != 6 || b[0] != (F_H | F_M | F_E | F_B) || b[1] != HS_OPCODE {
            return None;
        }
        Some(HsResp {
            version: b[2],
            seg: u16::from_le_bytes([b[3], b[4]]),
            window: b[5],
        })
    }
}

/// What the statement says about a segment arriving at an endpoint in a given state.
#[derive(Clone, Copy, Debug, PartialEq, Eq)]
pub enum Verdict {
    /// Conforms to the protocol in this state.
    Valid,
    /// One of the violations the statement names: must be refused with an error.
    MustReject(&'static str),
    /// Odd, but the statement does not fix the outcome (recorded, not judged).
    /// `clear` = the model knows what accepting it means; otherwise the model gives up
    /// following the endpoint after an acceptance.
    Any(&'static str, bool),
}

/// Passive reference model of one BTP endpoint `E` talking to a remote `R`.
///
/// Segments are counted with absolute indices per direction; the sequence number of the
/// n-th segment (n from 0) of a direction is `n mod 256` (for the peripheral, n = 0 is the
/// handshake response).
#[derive(Clone, Debug, Default)]
pub struct End {
    pub established: bool,
    /// E is the central (GATT client) end.
    pub central: bool,
    /// Negotiated segment size (ATT_MTU - 3) and window.
    pub seg: usize,
    pub win: u64,
    /// Segments emitted by E / of those, acknowledged by R (as known to E).
    pub out_count: u64,
    pub out_acked: u64,
    /// Segments accepted by E from R / of those, acknowledged by E in its emissions.
    pub in_count: u64,
    pub in_acked: u64,
    /// Receipt time of every segment E accepted and has not acknowledged yet: (abs, t, kind).
    pub in_unacked: VecDeque<(u64, u64, &'static str)>,
    /// Reassembly in progress: (announced length, bytes so far).
    pub in_msg: Option<(usize, Vec<u8>)>,
    /// Messages completed by accepted segments, not yet handed to the application.
    pub completed: VecDeque<Vec<u8>>,
    pub max_out_unacked: u64,
    pub last_slot_without_ack: u64,
}

impl End {
    pub fn establish_peripheral(&mut self, seg: usize, win: u64) {
        *self = End::default();
        self.established = true;
        self.seg = seg;
        self.win = win;
        // The handshake response is E's segment 0.
        self.out_count = 1;
        self.max_out_unacked = 1;
    }

    pub fn establish_central(&mut self, seg: usize, win: u64, now: u64) {
        *self = End::default();
        self.established = true;
        self.central = true;
        self.seg = seg;
        self.win = win;
        // The handshake response is R's segment 0: received, to be acknowledged.
        self.in_count = 1;
        self.in_unacked.push_back((0, now, "handshake-response"));
    }

    pub fn out_unacked(&self) -> u64 {
        self.out_count - self.out_acked
    }
    pub fn in_pending(&self) -> u64 {
        self.in_count - self.in_acked
    }
    pub fn next_in_seq(&self) -> u8 {
        (self.in_count % 256) as u8
    }
    pub fn next_out_seq(&self) -> u8 {
        (self.out_count % 256) as u8
    }
    /// Remaining bytes of the message R is in the middle of sending, if any.
    pub fn in_remaining(&self) -> Option<usize> {
        self.in_msg.as_ref().map(|(l, b)| l - b.len())
    }

    /// Map an ack number to the absolute index of an outstanding (unacknowledged) segment
    /// of E, if it designates one.
    fn ack_to_abs(&self, a: u8) -> Option<u64> {
        (self.out_acked..self.out_count).find(|abs| (abs % 256) as u8 == a)
    }

    /// Judge a (non-handshake) segment arriving at E, from the statement.
    pub fn classify_incoming(&self, s: &Seg) -> Verdict {
        let Some(seq) = s.seq else {
            return Verdict::Any("no-seq", false);
        };
        if s.is(F_H) {
            return Verdict::Any("handshake-flag", false);
        }
        if seq != self.next_in_seq() {
            return Verdict::MustReject("wrong-seq");
        }
        // Whether the handshake response occupies a slot of the central's window is a matter
        // of reading the specification; while it is unacknowledged allow one more segment.
        let slack = if self.central && self.in_acked == 0 { 1 } else { 0 };
        if self.in_pending() >= self.win + slack {
            return Verdict::MustReject("window-overrun");
        }
        let mut odd: Option<(&'static str, bool)> = None;
        if let Some(a) = s.ack {
            if self.ack_to_abs(a).is_none() {
                let dup = self.out_acked > 0 && ((self.out_acked - 1) % 256) as u8 == a;
                if dup {
                    odd = Some(("ack-duplicate", true));
                } else if self.out_count < 256 && (a as u64) >= self.out_count {
                    return Verdict::MustReject("ack-never-sent");
                } else {
                    odd = Some(("ack-stale", true));
                }
            }
        }
        if s.is(F_M) || s.flags & 0x90 != 0 {
            odd = Some(("management-or-reserved-flags", false));
        }
        let b = s.is(F_B);
        let c = s.is(F_C);
        let e = s.is(F_E);
        let plen = s.payload.len();
        if !b && !c && !e {
            if plen > 0 {
                return Verdict::MustReject("payload-without-bce");
            }
            if s.ack.is_none() {
                odd = odd.or(Some(("empty-segment-no-flags", false)));
            }
            // stand-alone acknowledgement
            return match odd {
                Some((o, clear)) => Verdict::Any(o, clear),
                None => Verdict::Valid,
            };
        }
        if b {
            let Some(len) = s.msg_len.map(|l| l as usize) else {
                return Verdict::Any("begin-without-length", false);
            };
            if self.in_msg.is_some() {
                return Verdict::MustReject("begin-inside-message");
            }
            if c {
                odd = Some(("begin-and-continue", false));
            }
            if e {
                if plen != len {
                    return Verdict::MustReject("single-length-mismatch");
                }
            } else if plen >= len {
                return Verdict::MustReject("begin-not-final-but-complete");
            }
        } else {
            match self.in_remaining() {
                None => {
                    if plen > 0 {
                        return Verdict::MustReject("continuation-without-beginning");
                    }
                    odd = odd.or(Some(("empty-continuation-without-beginning", false)));
                }
                Some(rem) => {
                    if plen > rem {
                        return Verdict::MustReject("payload-exceeds-remaining");
                    }
                    if e && plen < rem {
                        return Verdict::MustReject("ending-with-remaining-length");
                    }
                    if !e && plen == rem {
                        odd = Some(("complete-without-ending-flag", false));
                    }
                }
            }
        }
        // Segment size rules: not named by the statement, recorded only.
        if s.hdr_len() + plen > self.seg {
            odd = Some(("larger-than-segment-size", false));
        } else if !e && s.hdr_len() + plen < self.seg {
            odd = Some(("non-final-shorter-than-segment-size", false));
        }
        match odd {
            Some((o, clear)) => Verdict::Any(o, clear),
            None => Verdict::Valid,
        }
    }

    /// E accepted `s` (which was classified `Valid` or a clear `Any`) at time `now`.
    pub fn apply_incoming(&mut self, s: &Seg, now: u64) {
        let kind = if s.is(F_B) || s.is(F_C) || s.is(F_E) {
            "data"
        } else {
            "standalone-ack"
        };
        self.in_unacked.push_back((self.in_count, now, kind));
        self.in_count += 1;
        if let Some(a) = s.ack {
            if let Some(abs) = self.ack_to_abs(a) {
                self.out_acked = abs + 1;
            }
        }
        if s.is(F_B) {
            if let Some(len) = s.msg_len {
                self.in_msg = Some((len as usize, Vec::new()));
            }
        }
        if let Some((len, buf)) = self.in_msg.as_mut() {
            buf.extend_from_slice(&s.payload);
            let _ = len;
            if s.is(F_E) {
                let (_, buf) = self.in_msg.take().unwrap();
                self.completed.push_back(buf);
            }
        }
    }

    /// E emitted `s` at `now`. Returns the acknowledged (abs, receipt time, kind) entries,
    /// or the protocol rule the emission breaks.
    pub fn note_outgoing(
        &mut self,
        s: &Seg,
        now: u64,
    ) -> Result<Vec<(u64, u64, &'static str)>, &'static str> {
        let _ = now;
        let Some(seq) = s.seq else {
            return Err("emitted-without-seq");
        };
        if seq != self.next_out_seq() {
            return Err("emitted-wrong-seq");
        }
        let mut acked = Vec::new();
        if let Some(a) = s.ack {
            let Some(abs) = (self.in_acked..self.in_count).find(|x| (x % 256) as u8 == a) else {
                return Err("emitted-ack-of-nothing-outstanding");
            };
            self.in_acked = abs + 1;
            while let Some(&(i, t, k)) = self.in_unacked.front() {
                if i <= abs {
                    acked.push((i, t, k));
                    self.in_unacked.pop_front();
                } else {
                    break;
                }
            }
        }
        let free_before = self.win.saturating_sub(self.out_unacked());
        if free_before == 1 && s.ack.is_none() {
            self.last_slot_without_ack += 1;
        }
        self.out_count += 1;
        if self.out_unacked() > self.max_out_unacked {
            self.max_out_unacked = self.out_unacked();
        }
        if self.out_unacked() > self.win {
            return Err("emitted-beyond-peer-window");
        }
        if s.hdr_len() + s.payload.len() > self.seg {
            return Err("emitted-larger-than-segment-size");
        }
        Ok(acked)
    }
}

/// Active, well-behaved BTP endpoint of the harness (either role).
#[derive(Clone, Debug)]
pub struct Peer {
    pub end: End,
    pub txq: VecDeque<Vec<u8>>,
    pub tx_off: usize,
    /// Send a stand-alone ack this long after the oldest unacknowledged receipt (< 7.5 s).
    pub ack_timer_us: u64,
    /// Acknowledge immediately once the remote's remaining window (as seen here) is <= this;
    /// negative: never immediately.
    pub imm_thr: i64,
    /// Set the C flag together with E on the last segment of a multi-segment message.
    pub c_on_last: bool,
    pub sent_msgs: u64,
}

impl Peer {
    pub fn new(ack_timer_us: u64, imm_thr: i64, c_on_last: bool) -> Self {
        Self {
            end: End::default(),
            txq: VecDeque::new(),
            tx_off: 0,
            ack_timer_us,
            imm_thr,
            c_on_last,
            sent_msgs: 0,
        }
    }

    pub fn can_send(&self) -> bool {
        if !self.end.established {
            return false;
        }
        let free = self.end.win.saturating_sub(self.end.out_unacked());
        free > 1 || (free == 1 && self.end.in_pending() > 0)
    }

    pub fn ack_due_at(&self) -> Option<u64> {
        self.end
            .in_unacked
            .front()
            .map(|&(_, t, _)| t + self.ack_timer_us)
    }

    pub fn ack_wanted(&self, now: u64) -> bool {
        if self.end.in_pending() == 0 {
            return false;
        }
        let remote_free = self.end.win as i64 - self.end.in_pending() as i64;
        remote_free <= self.imm_thr || self.ack_due_at().map(|t| t <= now).unwrap_or(false)
    }

    /// Produce the next segment to transmit, if the protocol allows one and there is a
    /// reason (data queued, or an acknowledgement wanted).
    pub fn next_segment(&mut self, now: u64) -> Option<Seg> {
        if !self.can_send() {
            return None;
        }
        let have_data = !self.txq.is_empty();
        if !have_data && !self.ack_wanted(now) {
            return None;
        }
        let mut s = Seg {
            seq: Some(self.end.next_out_seq()),
            ..Default::default()
        };
        if self.end.in_pending() > 0 {
            s.flags |= F_A;
            s.ack = Some(((self.end.in_count - 1) % 256) as u8);
        }
        if have_data {
            let msg = self.txq.front().unwrap();
            if self.tx_off == 0 {
                s.flags |= F_B;
                s.msg_len = Some(msg.len() as u16);
            } else {
                s.flags |= F_C;
            }
            let cap = self.end.seg - s.hdr_len();
            let rem = msg.len() - self.tx_off;
            let n = rem.min(cap);
            s.payload = msg[self.tx_off..self.tx_off + n].to_vec();
            if n == rem {
                s.flags |= F_E;
                if self.tx_off > 0 && !self.c_on_last {
                    s.flags &= !F_C;
                }
                self.txq.pop_front();
                self.tx_off = 0;
                self.sent_msgs += 1;
            } else {
                self.tx_off += n;
            }
        }
        // Own emission obeys the model by construction; keep the model in step.
        self.end
            .note_outgoing(&s, now)
            .expect("harness peer emitted a non-conformant segment");
        Some(s)
    }
}
