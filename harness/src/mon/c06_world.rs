//! Two-node scaffold shared by C06 and C14: a device node running the real
//! `InteractionModel` over the probe data model, a controller node with one mirrored secure
//! session per requester, and a data-driven interpreter of request "steps" on the controller.

#![allow(dead_code)]

use core::num::NonZeroU8;
use std::panic::{catch_unwind, AssertUnwindSafe};
use std::rc::Rc;

use rs_matter::acl::{AclEntry, AuthMode, Target};
use rs_matter::dm::clusters::net_comm::DummyNetworks;
use rs_matter::dm::{AttrChangeNotifier, EventEmitter, Privilege};
use rs_matter::error::{Error, ErrorCode};
use rs_matter::im::events::EVENT_DATA_TAG;
use rs_matter::im::{EventPriority, InteractionModel, InteractionModelState, OpCode};
use rs_matter::persist::DummyKvBlobStore;
use rs_matter::respond::Responder;
use rs_matter::tlv::{TLVTag, TLVWrite};
use rs_matter::transport::exchange::{Exchange, MatterBuffers};
use rs_matter::transport::session::SessionMode;

use super::im_ref::{
    self, AclRef, Auth, DeviceAcl, InvokeItem, NodeSpec, Priv, ReadRequest, Requester, Shape, Tlv, WriteItem,
};
use super::probe_dm::{Call, Probe, ProbeDm, ProbeSnap};
use crate::sim::exec::{self, BoxFut, Limits, RunStatus};
use crate::sim::net::NetHub;
use crate::sim::node::{self, FabricCa};
use crate::sim::rng::{subseed, Rng};
use crate::sim::{clock, tapmon};

pub const DEVICE_NODE: u64 = 0xD0D0;
pub const EVENTS_BUF: usize = 8192;

pub const OP_STATUS: u8 = 1;
pub const OP_SUBSCRIBE_RESP: u8 = 4;
pub const OP_REPORT: u8 = 5;
pub const OP_WRITE_RESP: u8 = 7;
pub const OP_INVOKE_RESP: u8 = 9;

#[derive(Clone, Debug)]
pub struct WorldCfg {
    pub seed: u64,
    /// Node compositions; index 0 is installed at start.
    pub variants: Vec<Rc<NodeSpec>>,
    pub n_fabrics: u8,
    /// Install real credentials (root / NOC) for the fabrics on the device.
    pub real_fabrics: bool,
    pub acl: Vec<AclRef>,
    pub requesters: Vec<Requester>,
    pub shuffle: bool,
}

impl WorldCfg {
    pub fn device_acl(&self) -> DeviceAcl {
        DeviceAcl { fabrics: (1..=self.n_fabrics).collect(), entries: self.acl.clone() }
    }
}

#[derive(Clone, Debug)]
pub enum Step {
    Read {
        sess: usize,
        req: ReadRequest,
        /// Swap to `variants[idx]` right after chunk number `chunk` (0-based) has been received.
        swap_at_chunk: Option<(usize, usize)>,
        max_chunks: usize,
        /// Drive the request through rs-matter's public IM client instead of the raw exchange.
        via_client: bool,
    },
    Subscribe {
        sess: usize,
        req: ReadRequest,
        min_int: u16,
        max_int: u16,
        max_chunks: usize,
    },
    /// Accept an incoming exchange (subscription report) and consume it.
    AwaitReport { max_wait_ms: u64, max_chunks: usize },
    Write {
        sess: usize,
        items: Vec<WriteItem>,
        timed_flag: bool,
        timed_req: Option<u16>,
        delay_ms: u64,
        via_client: bool,
        /// Send the items as a chunked write: several WriteRequest messages on one exchange.
        chunks: Option<ChunkPlan>,
    },
    Invoke {
        sess: usize,
        items: Vec<InvokeItem>,
        timed_flag: bool,
        timed_req: Option<u16>,
        delay_ms: u64,
        via_client: bool,
    },
    SwapNode(usize),
    SwapAfterReads(u32, usize),
    /// Bump the value versions of these attributes; optionally tell the IM they changed.
    Bump { attrs: Vec<(u16, u32, u32)>, notify: bool },
    SetShapes(Vec<(u16, u32, u32, Shape)>),
    SetDataver(u16, u32, u32),
    Emit { ep: u16, cl: u32, ev: u32, prio: u8, fabric: Option<u8>, payload_len: usize },
    Sleep(u64),
}

/// How a write is split into several WriteRequest messages on one exchange. All messages but
/// the last carry MoreChunkedMessages=true; the controller sends message k+1 after it has
/// received the answer to message k.
#[derive(Clone, Debug)]
pub struct ChunkPlan {
    /// Number of items in each message (sums to `items.len()`).
    pub sizes: Vec<usize>,
    /// TimedRequest flag of each message.
    pub flags: Vec<bool>,
    /// Virtual delay before message k is sent (entry 0 is unused: message 0 uses `delay_ms`).
    pub gaps_ms: Vec<u64>,
    /// Keep sending the remaining messages on the same exchange after one was answered with
    /// something else than a WriteResponse.
    pub continue_after_refusal: bool,
    /// The last message carries MoreChunkedMessages=false explicitly (otherwise the field is left out).
    pub explicit_last: bool,
}

/// What happened to one message of a chunked write.
#[derive(Clone, Debug, Default)]
pub struct ChunkIo {
    pub t_send: u64,
    pub t_recv: u64,
    pub msg: Option<Msg>,
    pub err: Option<String>,
}

#[derive(Clone, Debug)]
pub struct Msg {
    pub opcode: u8,
    pub payload: Vec<u8>,
}

#[derive(Clone, Debug, Default)]
pub struct StepOut {
    pub msgs: Vec<Msg>,
    pub err: Option<String>,
    /// The controller stopped the answer because it exceeded `max_chunks`.
    pub aborted: bool,
    pub calls: Vec<Call>,
    /// Event number assigned by an `Emit` step.
    pub event_number: Option<u64>,
    pub t0: u64,
    pub t1: u64,
    /// Value versions / data versions the reference must use are those at t0 (steps are sequential).
    pub timed_status: Option<u16>,
    /// Probe state when the step started.
    pub snap: Option<ProbeSnap>,
    /// Answers decoded by rs-matter's own IM client (steps driven `via_client`).
    pub client_reports: Vec<im_ref::Report>,
    pub client_write: Option<Vec<im_ref::AttrItem>>,
    pub client_invoke: Option<im_ref::InvokeResponse>,
    pub via_client: bool,
    /// Virtual time at which the answer to the TimedRequest arrived at the controller.
    pub timed_t: Option<u64>,
    /// Chunked write: one entry per WriteRequest message that was sent.
    pub chunk_io: Vec<ChunkIo>,
}

#[derive(Default)]
pub struct WorldOut {
    pub steps: Vec<StepOut>,
    pub status: Option<RunStatus>,
    pub panic: Option<String>,
    pub tap_violations: Vec<String>,
    pub max_datagram: usize,
    pub datagrams: usize,
    pub sched_hash: u64,
    pub setup_error: Option<String>,
    pub probe: Option<Probe>,
}

fn privilege_of(p: Priv) -> Privilege {
    match p {
        Priv::View => Privilege::VIEW,
        Priv::ProxyView => Privilege::PROXYVIEW,
        Priv::Operate => Privilege::OPERATE,
        Priv::Manage => Privilege::MANAGE,
        Priv::Administer => Privilege::ADMIN,
    }
}

fn session_mode(r: &Requester) -> SessionMode {
    match r.auth {
        Some(Auth::Case) => SessionMode::Case {
            fab_idx: NonZeroU8::new(r.fab_idx.max(1)).unwrap(),
            cat_ids: node::cat_ids(&r.cats),
        },
        Some(Auth::Group) => SessionMode::Group {
            fab_idx: NonZeroU8::new(r.fab_idx.max(1)).unwrap(),
            group_id: r.subject as u16,
        },
        _ => SessionMode::Pase { fab_idx: r.fab_idx },
    }
}

async fn recv_msg(ex: &mut Exchange<'_>, timeout_ms: u64) -> Result<Msg, String> {
    match exec::with_timeout(timeout_ms, async {
        let rx = ex.recv().await?;
        Ok::<_, Error>(Msg { opcode: rx.meta().proto_opcode, payload: rx.payload().to_vec() })
    })
    .await
    {
        Some(Ok(m)) => Ok(m),
        Some(Err(e)) => Err(format!("recv:{:?}", e.code())),
        None => Err("recv-timeout".into()),
    }
}

async fn send_msg(ex: &mut Exchange<'_>, op: OpCode, payload: &[u8], timeout_ms: u64) -> Result<(), String> {
    match exec::with_timeout(timeout_ms, ex.send(op, payload)).await {
        Some(Ok(())) => Ok(()),
        Some(Err(e)) => Err(format!("send:{:?}", e.code())),
        None => Err("send-timeout".into()),
    }
}

async fn ack(ex: &mut Exchange<'_>) {
    let _ = exec::with_timeout(2000, ex.acknowledge()).await;
}

const T_MS: u64 = 12_000;

fn trace_msg(dir: &str, m: &Msg) {
    if std::env::var("RSMV_TRACE").is_ok() {
        let body = match Tlv::parse_strict(&m.payload) {
            Ok(t) => t.show(),
            Err(e) => format!("<malformed: {}> {}", e, crate::util::hex(&m.payload)),
        };
        eprintln!("t={:>10} {} op={} len={} {}", clock::now(), dir, m.opcode, m.payload.len(), body);
    }
}

/// Consume a (possibly chunked) ReportData answer on `ex`. `on_chunk(k)` runs after chunk `k`
/// has been received and before it is acknowledged. Returns false if the answer ended with
/// something else than a final ReportData.
async fn consume_report(
    ex: &mut Exchange<'_>,
    out: &mut StepOut,
    max_chunks: usize,
    always_status: bool,
    mut on_chunk: impl FnMut(usize),
) -> bool {
    let mut k = 0usize;
    loop {
        let m = match recv_msg(ex, T_MS).await {
            Ok(m) => m,
            Err(e) => {
                out.err = Some(e);
                return false;
            }
        };
        trace_msg("<-", &m);
        let opcode = m.opcode;
        let parsed = if opcode == OP_REPORT {
            Tlv::parse_strict(&m.payload).ok().and_then(|t| im_ref::decode_report(&t).ok())
        } else {
            None
        };
        out.msgs.push(m);
        if opcode != OP_REPORT {
            ack(ex).await;
            return false;
        }
        on_chunk(k);
        k += 1;
        let (more, suppress) = parsed.map(|r| (r.more_chunks, r.suppress)).unwrap_or((false, true));
        if more {
            if k >= max_chunks {
                out.aborted = true;
                let _ = send_msg(ex, OpCode::StatusResponse, &im_ref::enc_status_response(1), 2000).await;
                return false;
            }
            if let Err(e) = send_msg(ex, OpCode::StatusResponse, &im_ref::enc_status_response(0), T_MS).await {
                out.err = Some(e);
                return false;
            }
        } else {
            if !suppress || always_status {
                if let Err(e) = send_msg(ex, OpCode::StatusResponse, &im_ref::enc_status_response(0), T_MS).await {
                    out.err = Some(e);
                    return false;
                }
            } else {
                ack(ex).await;
            }
            return true;
        }
    }
}

fn conv_li(l: &Option<rs_matter::tlv::Nullable<u16>>) -> im_ref::ListIdx {
    match l.clone().map(|l| l.into_option()) {
        None => im_ref::ListIdx::Absent,
        Some(None) => im_ref::ListIdx::Null,
        Some(Some(i)) => im_ref::ListIdx::Idx(i),
    }
}

fn conv_val(e: &rs_matter::tlv::TLVElement<'_>) -> im_ref::Val {
    Tlv::parse_prefix(e.raw_data()).map(|(t, _)| t.val).unwrap_or(im_ref::Val::Null)
}

fn conv_attr_status(s: &rs_matter::im::AttrStatus) -> im_ref::AttrItem {
    im_ref::AttrItem {
        ep: s.path.endpoint,
        cl: s.path.cluster,
        attr: s.path.attr,
        list_index: conv_li(&s.path.list_index),
        kind: im_ref::ItemKind::Status { code: s.status.status as u16, cluster_status: s.status.cluster_status },
        enc_len: 0,
    }
}

fn conv_report(r: &rs_matter::im::ReportDataResp<'_>) -> Result<im_ref::Report, String> {
    let mut out = im_ref::Report {
        sub_id: r.subscription_id,
        more_chunks: r.more_chunks.unwrap_or(false),
        suppress: r.suppress_response.unwrap_or(false),
        rev: r.interaction_model_revision.map(|v| v as u64),
        ..Default::default()
    };
    if let Some(arr) = &r.attr_reports {
        let mut v = Vec::new();
        for a in arr.iter() {
            match a.map_err(|e| format!("client-decode:{:?}", e.code()))? {
                rs_matter::im::AttrResp::Data(d) => v.push(im_ref::AttrItem {
                    ep: d.path.endpoint,
                    cl: d.path.cluster,
                    attr: d.path.attr,
                    list_index: conv_li(&d.path.list_index),
                    kind: im_ref::ItemKind::Data { dataver: d.data_ver, val: conv_val(&d.data) },
                    enc_len: 0,
                }),
                rs_matter::im::AttrResp::Status(s) => v.push(conv_attr_status(&s)),
            }
        }
        out.attrs = Some(v);
    }
    Ok(out)
}

async fn client_read(ex: Exchange<'_>, req: &ReadRequest, so: &mut StepOut, max_chunks: usize) -> Result<(), String> {
    use rs_matter::im::client::{ImClient, TxOutcome};
    use rs_matter::im::AttrPath;
    let paths: Vec<AttrPath> = req
        .attr_paths
        .iter()
        .flatten()
        .map(|p| AttrPath { endpoint: p.ep, cluster: p.cl, attr: p.leaf, ..Default::default() })
        .collect();
    let ff = req.fabric_filtered;
    let e = |e: Error| format!("client:{:?}", e.code());
    let fut = async {
        let mut sender = ex.read_sender().await.map_err(e)?;
        let mut chunk = loop {
            match sender.tx().await.map_err(e)? {
                TxOutcome::BuildRequest(b) => {
                    sender = b.attr_requests_from(&paths).and_then(|b| b.fabric_filtered(ff)).and_then(|b| b.end()).map_err(e)?;
                }
                TxOutcome::GotResponse(c) => break c,
            }
        };
        loop {
            let rep = conv_report(&chunk.response().map_err(e)?)?;
            so.client_reports.push(rep);
            if so.client_reports.len() > max_chunks {
                so.aborted = true;
                return Ok(());
            }
            match chunk.complete().await.map_err(e)? {
                Some(n) => chunk = n,
                None => return Ok(()),
            }
        }
    };
    match exec::with_timeout(T_MS, fut).await {
        Some(r) => r,
        None => Err("client-timeout".into()),
    }
}

async fn client_write(ex: Exchange<'_>, items: &[WriteItem], timed_flag: bool, timed: Option<u16>, so: &mut StepOut) -> Result<(), String> {
    use rs_matter::im::client::ImClient;
    use rs_matter::im::AttrPath;
    let e = |e: Error| format!("client:{:?}", e.code());
    let fut = async {
        let h = ex
            .write_with(timed, |b| {
                let mut arr = b.suppress_response(false)?.timed_request(timed_flag)?.write_requests()?;
                for w in items {
                    let path = AttrPath {
                        endpoint: w.path.ep,
                        cluster: w.path.cl,
                        attr: w.path.leaf,
                        list_index: match w.path.list_index {
                            im_ref::ListIdx::Absent => None,
                            im_ref::ListIdx::Null => Some(rs_matter::tlv::Nullable::none()),
                            im_ref::ListIdx::Idx(i) => Some(rs_matter::tlv::Nullable::some(i)),
                        },
                        ..Default::default()
                    };
                    let bytes = Tlv::ctx(2, w.data.clone()).to_bytes();
                    let entry = arr.push()?;
                    let entry = match w.data_ver {
                        Some(dv) => entry.data_version(dv)?.path_from(&path)?,
                        None => entry.path_from(&path)?,
                    };
                    arr = entry.data(|tw| tw.write_raw_data(bytes.iter().copied()))?.end()?;
                }
                arr.end()?.end()
            })
            .await
            .map_err(e)?;
        let resp = h.response().map_err(e)?;
        let mut v = Vec::new();
        for s in resp.write_responses.iter() {
            v.push(conv_attr_status(&s.map_err(e)?));
        }
        so.client_write = Some(v);
        Ok(())
    };
    match exec::with_timeout(T_MS, fut).await {
        Some(r) => r,
        None => Err("client-timeout".into()),
    }
}

async fn client_invoke(ex: Exchange<'_>, items: &[InvokeItem], timed_flag: bool, timed: Option<u16>, so: &mut StepOut) -> Result<(), String> {
    use rs_matter::im::client::ImClient;
    use rs_matter::im::{CmdPath, CmdResp};
    let e = |e: Error| format!("client:{:?}", e.code());
    let fut = async {
        let chunk = ex
            .invoke_with(timed, |b| {
                let mut arr = b.suppress_response(false)?.timed_request(timed_flag)?.invoke_requests()?;
                for w in items {
                    let bytes = Tlv::ctx(1, w.data.clone()).to_bytes();
                    let entry = arr
                        .push()?
                        .path_from(&CmdPath::new(w.path.ep, w.path.cl, w.path.leaf))?
                        .data(|tw| tw.write_raw_data(bytes.iter().copied()))?;
                    arr = match w.cmd_ref {
                        Some(r) => entry.command_ref(r)?.end()?,
                        None => entry.end()?,
                    };
                }
                arr.end()?.end()
            })
            .await
            .map_err(e)?;
        let mut out = im_ref::InvokeResponse::default();
        if let Some(resp) = chunk.response().map_err(e)? {
            out.suppress = resp.suppress_response;
            out.more_chunks = resp.more_chunks.unwrap_or(false);
            if let Some(arr) = &resp.invoke_responses {
                let mut v = Vec::new();
                for r in arr.iter() {
                    match r.map_err(e)? {
                        CmdResp::Cmd(d) => v.push(im_ref::CmdItem {
                            ep: d.path.endpoint,
                            cl: d.path.cluster,
                            cmd: d.path.cmd,
                            cmd_ref: d.command_ref,
                            kind: im_ref::CmdKind::Data { val: Some(conv_val(&d.data)) },
                        }),
                        CmdResp::Status(s) => v.push(im_ref::CmdItem {
                            ep: s.path.endpoint,
                            cl: s.path.cluster,
                            cmd: s.path.cmd,
                            cmd_ref: s.command_ref,
                            kind: im_ref::CmdKind::Status { code: s.status.status as u16 },
                        }),
                    }
                }
                out.items = Some(v);
            }
        }
        so.client_invoke = Some(out);
        let _ = chunk.complete().await;
        Ok(())
    };
    match exec::with_timeout(T_MS, fut).await {
        Some(r) => r,
        None => Err("client-timeout".into()),
    }
}

fn add_acl(md: &rs_matter::Matter<'_>, e: &AclRef) -> Result<(), Error> {
    let mut entry = AclEntry::new(
        None,
        privilege_of(e.privilege),
        match e.auth {
            Auth::Case => AuthMode::Case,
            Auth::Group => AuthMode::Group,
            Auth::Pase => AuthMode::Pase,
        },
    );
    for s in &e.subjects {
        entry.add_subject(*s)?;
    }
    for t in &e.targets {
        entry.add_target(Target::new(t.ep, t.cl, t.dt))?;
    }
    md.with_state(|s| {
        s.fabrics
            .fabric_mut(NonZeroU8::new(e.fab_idx).ok_or(ErrorCode::Invalid)?)?
            .acl_add(entry)
            .map(|_| ())
    })
}

struct StderrLog;
impl log::Log for StderrLog {
    fn enabled(&self, _: &log::Metadata) -> bool {
        true
    }
    fn log(&self, r: &log::Record) {
        eprintln!("    [{} {}] {}", r.level(), r.target(), r.args());
    }
    fn flush(&self) {}
}
static LOGGER: StderrLog = StderrLog;

pub fn run_world(cfg: &WorldCfg, steps: &[Step]) -> WorldOut {
    if let Ok(l) = std::env::var("RSMV_LOG") {
        if log::set_logger(&LOGGER).is_ok() {
            log::set_max_level(match l.as_str() {
                "trace" => log::LevelFilter::Trace,
                "debug" => log::LevelFilter::Debug,
                "info" => log::LevelFilter::Info,
                _ => log::LevelFilter::Warn,
            });
        }
    }
    clock::reset(1_000_000);
    let mut out = WorldOut::default();
    let mut rng = Rng::new(cfg.seed);
    let crypto_c = node::crypto(rng.fork());
    let crypto_d = node::crypto(rng.fork());
    let crypto_g = node::crypto(rng.fork());

    let mc = node::new_matter();
    let md = node::new_matter();

    // Fabrics on the device
    let stage = std::cell::Cell::new(0u8);
    for k in 0..cfg.n_fabrics {
        let r: Result<(), Error> = if cfg.real_fabrics {
            (|| {
                let ca = FabricCa::new(&crypto_g, &mut rng, 0x100 + k as u64, false).map_err(|e| { stage.set(1); e })?;
                let creds = ca.mint(&crypto_g, DEVICE_NODE, &[]).map_err(|e| { stage.set(2); e })?;
                ca.install(&md, &crypto_d, &creds, 0x7777).map_err(|e| { stage.set(3); e })?;
                md.with_state(|s| {
                    s.fabrics.fabric_mut(NonZeroU8::new(k + 1).unwrap())?.acl_remove_all();
                    Ok(())
                })
            })()
        } else {
            md.with_state(|s| s.fabrics.add_with_post_init(|_| Ok(())).map(|_| ()))
        };
        if let Err(e) = r {
            out.setup_error = Some(format!("fabric {}: {:?} at stage {} (1=CA 2=mint 3=install)", k + 1, e.code(), stage.get()));
            return out;
        }
    }
    // One fabric on the controller so that CASE-mode sessions there designate something
    let _ = mc.with_state(|s| s.fabrics.add_with_post_init(|_| Ok(())).map(|_| ()));

    for e in &cfg.acl {
        if let Err(err) = add_acl(&md, e) {
            out.setup_error = Some(format!("acl: {:?}", err.code()));
            return out;
        }
    }

    // Group membership for group requesters
    for r in &cfg.requesters {
        if r.auth == Some(Auth::Group) {
            for ep in &r.group_endpoints {
                let res = md.with_state(|s| {
                    s.fabrics
                        .fabric_mut(NonZeroU8::new(r.fab_idx).ok_or(ErrorCode::Invalid)?)?
                        .groups_mut()
                        .add(*ep, r.subject as u16, "g")
                        .map(|_| ())
                });
                if let Err(e) = res {
                    out.setup_error = Some(format!("group: {:?}", e.code()));
                    return out;
                }
            }
        }
    }

    let hub = NetHub::new(rng.u64(), 2);
    let addr_c = hub.addr(0);
    let addr_d = hub.addr(1);

    // Sessions
    let mut sess_ids: Vec<u32> = Vec::new();
    for (i, r) in cfg.requesters.iter().enumerate() {
        let mut k1 = [0u8; 16];
        let mut k2 = [0u8; 16];
        rand_core::RngCore::fill_bytes(&mut rng, &mut k1);
        rand_core::RngCore::fill_bytes(&mut rng, &mut k2);
        let local_node = if r.auth == Some(Auth::Case) { r.subject } else { 0 };
        let mode_at_c = match r.auth {
            Some(Auth::Case) => SessionMode::Case { fab_idx: NonZeroU8::new(1).unwrap(), cat_ids: Default::default() },
            _ => SessionMode::Pase { fab_idx: 0 },
        };
        match node::mirrored_sessions(
            &mc,
            &md,
            &crypto_g,
            addr_c,
            addr_d,
            local_node,
            DEVICE_NODE,
            100 + i as u16,
            200 + i as u16,
            mode_at_c,
            session_mode(r),
            &k1,
            &k2,
        ) {
            Ok((ida, _)) => sess_ids.push(ida),
            Err(e) => {
                out.setup_error = Some(format!("session {}: {:?}", i, e.code()));
                return out;
            }
        }
    }

    // A Group-mode session at the receiver is ephemeral (it is swept with its last exchange):
    // the script creates a fresh mirrored one right before every group message.
    let mut group_keys: std::collections::VecDeque<([u8; 16], [u8; 16])> = std::collections::VecDeque::new();
    for _ in 0..steps.len() {
        let mut k1 = [0u8; 16];
        let mut k2 = [0u8; 16];
        rand_core::RngCore::fill_bytes(&mut rng, &mut k1);
        rand_core::RngCore::fill_bytes(&mut rng, &mut k2);
        group_keys.push_back((k1, k2));
    }

    let probe = Probe::new(cfg.variants[0].clone());
    out.probe = Some(probe.clone());

    let buffers: Box<MatterBuffers> = Box::new(MatterBuffers::new());
    let state: Box<InteractionModelState<DummyNetworks, 3, EVENTS_BUF>> =
        Box::new(InteractionModelState::new(DummyNetworks));
    state.suppress_start_up_event();
    let kv = md.kv(DummyKvBlobStore);
    let dm = InteractionModel::new(&md, &crypto_d, &*buffers, ProbeDm::new(probe.clone(), rng.fork()), &kv, &*state);

    let limits = Limits {
        max_polls: 20_000_000,
        horizon: clock::now() + 3600 * clock::TICKS_PER_SEC,
        shuffle: cfg.shuffle,
    };

    let mut results: Vec<StepOut> = Vec::new();
    let seed = cfg.seed;
    let shuffle = cfg.shuffle;
    let mut exec_rng = Rng::new(subseed(seed, &[7]));

    let run = {
        let results = &mut results;
        let mc = &*mc;
        let md = &*md;
        let dm = &dm;
        let crypto_c = &crypto_c;
        let crypto_d = &crypto_d;
        let probe = probe.clone();
        let hub = hub.clone();
        let variants = cfg.variants.clone();
        let sess_ids = sess_ids.clone();
        let group_sess: Vec<bool> = cfg.requesters.iter().map(|r| r.auth == Some(Auth::Group)).collect();
        let mut group_keys = group_keys;
        let crypto_g = &crypto_g;
        let requesters = cfg.requesters.clone();
        let mut group_n = 0u16;
        catch_unwind(AssertUnwindSafe(move || {
            let script: BoxFut = Box::pin(async move {
                for (si, step) in steps.iter().enumerate() {
                    probe.0.step.set(si as u32);
                    let mut so = StepOut { t0: clock::now(), snap: Some(probe.snapshot()), ..Default::default() };
                    match step {
                        Step::Read { sess, req, max_chunks, via_client: true, .. } => {
                            so.via_client = true;
                            match Exchange::initiate_for_session(mc, crypto_c, sess_ids[*sess]) {
                                Ok(ex) => {
                                    if let Err(e) = client_read(ex, req, &mut so, *max_chunks).await {
                                        so.err = Some(e);
                                    }
                                }
                                Err(e) => so.err = Some(format!("initiate:{:?}", e.code())),
                            }
                        }
                        Step::Write { sess, items, timed_flag, timed_req, via_client: true, .. } => {
                            so.via_client = true;
                            match Exchange::initiate_for_session(mc, crypto_c, sess_ids[*sess]) {
                                Ok(ex) => {
                                    if let Err(e) = client_write(ex, items, *timed_flag, *timed_req, &mut so).await {
                                        so.err = Some(e);
                                    }
                                }
                                Err(e) => so.err = Some(format!("initiate:{:?}", e.code())),
                            }
                        }
                        Step::Invoke { sess, items, timed_flag, timed_req, via_client: true, .. } => {
                            so.via_client = true;
                            match Exchange::initiate_for_session(mc, crypto_c, sess_ids[*sess]) {
                                Ok(ex) => {
                                    if let Err(e) = client_invoke(ex, items, *timed_flag, *timed_req, &mut so).await {
                                        so.err = Some(e);
                                    }
                                }
                                Err(e) => so.err = Some(format!("initiate:{:?}", e.code())),
                            }
                        }
                        Step::Read { sess, req, swap_at_chunk, max_chunks, .. } => {
                            match Exchange::initiate_for_session(mc, crypto_c, sess_ids[*sess]) {
                                Ok(mut ex) => {
                                    let bytes = im_ref::enc_read_request(req);
                                    trace_msg("->", &Msg { opcode: 2, payload: bytes.clone() });
                                    match send_msg(&mut ex, OpCode::ReadRequest, &bytes, T_MS).await {
                                        Ok(()) => {
                                            let p2 = probe.clone();
                                            let v2 = variants.clone();
                                            let sw = *swap_at_chunk;
                                            consume_report(&mut ex, &mut so, *max_chunks, false, move |k| {
                                                if let Some((at, idx)) = sw {
                                                    if at == k {
                                                        p2.swap(v2[idx].clone());
                                                    }
                                                }
                                            })
                                            .await;
                                        }
                                        Err(e) => so.err = Some(e),
                                    }
                                }
                                Err(e) => so.err = Some(format!("initiate:{:?}", e.code())),
                            }
                        }
                        Step::Subscribe { sess, req, min_int, max_int, max_chunks } => {
                            match Exchange::initiate_for_session(mc, crypto_c, sess_ids[*sess]) {
                                Ok(mut ex) => {
                                    let bytes = im_ref::enc_subscribe_request(req, false, *min_int, *max_int);
                                    trace_msg("->", &Msg { opcode: 3, payload: bytes.clone() });
                                    match send_msg(&mut ex, OpCode::SubscribeRequest, &bytes, T_MS).await {
                                        Ok(()) => {
                                            if consume_report(&mut ex, &mut so, *max_chunks, true, |_| {}).await {
                                                match recv_msg(&mut ex, T_MS).await {
                                                    Ok(m) => {
                                                        trace_msg("<-", &m);
                                                        so.msgs.push(m);
                                                        ack(&mut ex).await;
                                                    }
                                                    Err(e) => so.err = Some(e),
                                                }
                                            }
                                        }
                                        Err(e) => so.err = Some(e),
                                    }
                                }
                                Err(e) => so.err = Some(format!("initiate:{:?}", e.code())),
                            }
                        }
                        Step::AwaitReport { max_wait_ms, max_chunks } => {
                            match exec::with_timeout(*max_wait_ms, Exchange::accept(mc)).await {
                                Some(Ok(mut ex)) => {
                                    consume_report(&mut ex, &mut so, *max_chunks, false, |_| {}).await;
                                }
                                Some(Err(e)) => so.err = Some(format!("accept:{:?}", e.code())),
                                None => so.err = Some("no-report".into()),
                            }
                        }
                        Step::Write { sess, timed_flag, .. } | Step::Invoke { sess, timed_flag, .. } if group_sess[*sess] => {
                            // group message: unreliable, nothing comes back
                            let (k1, k2) = group_keys.pop_front().unwrap_or(([1; 16], [2; 16]));
                            group_n += 1;
                            let sid = node::mirrored_sessions(
                                mc,
                                md,
                                crypto_g,
                                addr_c,
                                addr_d,
                                0x6001,
                                DEVICE_NODE,
                                300 + group_n,
                                400 + group_n,
                                session_mode(&requesters[*sess]),
                                session_mode(&requesters[*sess]),
                                &k1,
                                &k2,
                            )
                            .map(|(a, _)| a);
                            match sid.and_then(|sid| Exchange::initiate_for_session(mc, crypto_c, sid)) {
                                Ok(mut ex) => {
                                    let (op, bytes) = match step {
                                        Step::Write { items, .. } => (OpCode::WriteRequest, im_ref::enc_write_request(items, *timed_flag, None)),
                                        Step::Invoke { items, .. } => (OpCode::InvokeRequest, im_ref::enc_invoke_request(items, *timed_flag)),
                                        _ => unreachable!(),
                                    };
                                    trace_msg("->", &Msg { opcode: op as u8, payload: bytes.clone() });
                                    match exec::with_timeout(1000, ex.send(op.meta().reliable(false), &bytes)).await {
                                        Some(Ok(())) => {}
                                        Some(Err(e)) => so.err = Some(format!("send:{:?}", e.code())),
                                        None => so.err = Some("send-timeout".into()),
                                    }
                                    // anything coming back?
                                    if let Ok(m) = recv_msg(&mut ex, 300).await {
                                        trace_msg("<-", &m);
                                        so.msgs.push(m);
                                    }
                                }
                                Err(e) => so.err = Some(format!("initiate:{:?}", e.code())),
                            }
                        }
                        Step::Write { sess, timed_flag, timed_req, delay_ms, .. }
                        | Step::Invoke { sess, timed_flag, timed_req, delay_ms, .. } => {
                            match Exchange::initiate_for_session(mc, crypto_c, sess_ids[*sess]) {
                                Ok(mut ex) => {
                                    let r: Result<(), String> = async {
                                        if let Some(t) = timed_req {
                                            let b = im_ref::enc_timed_request(*t);
                                            trace_msg("->", &Msg { opcode: 10, payload: b.clone() });
                                            send_msg(&mut ex, OpCode::TimedRequest, &b, T_MS).await?;
                                            let m = recv_msg(&mut ex, T_MS).await?;
                                            trace_msg("<-", &m);
                                            so.timed_status = Tlv::parse_strict(&m.payload)
                                                .ok()
                                                .and_then(|t| im_ref::decode_status_resp(&t).ok());
                                            if m.opcode != OP_STATUS || so.timed_status != Some(0) {
                                                so.msgs.push(m);
                                                return Ok(());
                                            }
                                        }
                                        so.timed_t = timed_req.map(|_| clock::now());
                                        if *delay_ms > 0 {
                                            exec::sleep_ms(*delay_ms).await;
                                        }
                                        if let Step::Write { items, chunks: Some(plan), .. } = step {
                                            // chunked write: message k+1 follows the answer to message k
                                            let n = plan.sizes.len();
                                            let mut start = 0usize;
                                            for k in 0..n {
                                                let end = (start + plan.sizes[k]).min(items.len());
                                                if k > 0 && plan.gaps_ms[k] > 0 {
                                                    exec::sleep_ms(plan.gaps_ms[k]).await;
                                                }
                                                let bytes = im_ref::enc_write_request(&items[start..end], plan.flags[k], if k + 1 < n { Some(true) } else if plan.explicit_last { Some(false) } else { None });
                                                start = end;
                                                trace_msg("->", &Msg { opcode: OpCode::WriteRequest as u8, payload: bytes.clone() });
                                                let mut io = ChunkIo { t_send: clock::now(), ..Default::default() };
                                                let res = match send_msg(&mut ex, OpCode::WriteRequest, &bytes, T_MS).await {
                                                    Ok(()) => recv_msg(&mut ex, T_MS).await,
                                                    Err(e) => Err(e),
                                                };
                                                io.t_recv = clock::now();
                                                match res {
                                                    Ok(m) => {
                                                        trace_msg("<-", &m);
                                                        let refused = m.opcode != OP_WRITE_RESP;
                                                        so.msgs.push(m.clone());
                                                        io.msg = Some(m);
                                                        so.chunk_io.push(io);
                                                        if refused && !plan.continue_after_refusal {
                                                            break;
                                                        }
                                                    }
                                                    Err(e) => {
                                                        io.err = Some(e.clone());
                                                        so.chunk_io.push(io);
                                                        return Err(e);
                                                    }
                                                }
                                            }
                                            return Ok(());
                                        }
                                        let (op, bytes) = match step {
                                            Step::Write { items, .. } => {
                                                (OpCode::WriteRequest, im_ref::enc_write_request(items, *timed_flag, None))
                                            }
                                            Step::Invoke { items, .. } => {
                                                (OpCode::InvokeRequest, im_ref::enc_invoke_request(items, *timed_flag))
                                            }
                                            _ => unreachable!(),
                                        };
                                        trace_msg("->", &Msg { opcode: op as u8, payload: bytes.clone() });
                                        send_msg(&mut ex, op, &bytes, T_MS).await?;
                                        let m = recv_msg(&mut ex, T_MS).await?;
                                        trace_msg("<-", &m);
                                        so.msgs.push(m);
                                        Ok(())
                                    }
                                    .await;
                                    if let Err(e) = r {
                                        so.err = Some(e);
                                    }
                                    ack(&mut ex).await;
                                }
                                Err(e) => so.err = Some(format!("initiate:{:?}", e.code())),
                            }
                        }
                        Step::SwapNode(idx) => probe.swap(variants[*idx].clone()),
                        Step::SwapAfterReads(n, idx) => probe.swap_after_reads(*n, variants[*idx].clone()),
                        Step::Bump { attrs, notify } => {
                            for (e, c, a) in attrs {
                                probe.bump_version(*e, *c, *a);
                                if *notify {
                                    dm.notify_attr_changed(*e, *c, *a);
                                }
                            }
                        }
                        Step::SetShapes(v) => {
                            for (e, c, a, s) in v {
                                probe.set_shape(*e, *c, *a, s.clone());
                            }
                        }
                        Step::SetDataver(e, c, v) => probe.set_dataver(*e, *c, *v),
                        Step::Emit { ep, cl, ev, prio, fabric, payload_len } => {
                            let prio_e = match prio {
                                0 => EventPriority::Debug,
                                1 => EventPriority::Info,
                                _ => EventPriority::Critical,
                            };
                            let payload = event_payload(*ep, *cl, *ev, *payload_len, *fabric);
                            let r = dm.emit_event(*ep, *cl, *ev, prio_e, |mut tw| {
                                tw.start_struct(&EVENT_DATA_TAG)?;
                                if let im_ref::Val::Struct(fields) = &payload {
                                    for f in fields {
                                        match (&f.tag, &f.val) {
                                            (im_ref::Tag::Ctx(t), im_ref::Val::Bytes(b)) => tw.str(&TLVTag::Context(*t), b)?,
                                            (im_ref::Tag::Ctx(t), im_ref::Val::U(v)) => tw.u8(&TLVTag::Context(*t), *v as u8)?,
                                            _ => {}
                                        }
                                    }
                                }
                                tw.end_container()
                            });
                            match r {
                                Ok(n) => so.event_number = Some(n),
                                Err(e) => so.err = Some(format!("emit:{:?}", e.code())),
                            }
                        }
                        Step::Sleep(ms) => exec::sleep_ms(*ms).await,
                    }
                    so.t1 = clock::now();
                    results.push(so);
                    // let standalone acks / exchange teardown play out
                    exec::sleep_ms(2).await;
                }
                exec::sleep_ms(400).await;
            });
            let node_c: BoxFut = {
                let ep = hub.endpoint(0);
                Box::pin(async move {
                    let t: BoxFut = Box::pin(async {
                        let _ = mc.run(crypto_c, ep.clone(), ep.clone(), ep.clone()).await;
                    });
                    exec::ShuffleSelect::new(subseed(seed, &[11]), shuffle, vec![script, t]).await
                })
            };
            let node_d: BoxFut = {
                let ep = hub.endpoint(1);
                Box::pin(async move {
                    let responder = Responder::new_default(dm);
                    let t: BoxFut = Box::pin(async {
                        let _ = md.run(crypto_d, ep.clone(), ep.clone(), ep.clone()).await;
                    });
                    let r: BoxFut = Box::pin(async {
                        let _ = responder.run::<4>().await;
                    });
                    let d: BoxFut = Box::pin(async {
                        let _ = dm.run().await;
                    });
                    exec::ShuffleSelect::new(subseed(seed, &[12]), shuffle, vec![t, r, d]).await
                })
            };
            exec::run(&mut exec_rng, limits, vec![node_c, node_d])
        }))
    };

    match run {
        Ok(o) => {
            out.status = Some(o.status);
            out.sched_hash = o.sched_hash;
        }
        Err(e) => out.panic = Some(crate::util::panic_msg(&e)),
    }

    // attribute handler calls to steps
    let calls = probe.take_log();
    for c in calls {
        if let Some(s) = results.get_mut(c.step as usize) {
            s.calls.push(c);
        }
    }
    out.steps = results;

    let tap = tapmon::TapMonitor::new();
    hub.with_tap(|t| {
        for ev in t {
            if !ev.injected {
                tap.observe(ev.dgram.src, &ev.dgram.bytes);
            }
            out.max_datagram = out.max_datagram.max(ev.dgram.bytes.len());
        }
        out.datagrams = t.len();
    });
    out.tap_violations = tap.violations();
    out
}

/// Payload of a probe event: struct { 0: octets(len) [, 254: fabric index] }.
pub fn event_payload(ep: u16, cl: u32, ev: u32, len: usize, fabric: Option<u8>) -> im_ref::Val {
    let mut f = vec![Tlv::ctx(0, im_ref::Val::Bytes(im_ref::gen_bytes(im_ref::value_seed(ep, cl, ev, 0xEE), len)))];
    if let Some(x) = fabric {
        f.push(Tlv::ctx(0xFE, im_ref::Val::U(x as u64)));
    }
    im_ref::Val::Struct(f)
}
