//! C13 — subscriber side: the subscribe script (public IM client) and the report sink (a
//! harness `ExchangeHandler` that answers each ReportData with Success / a failure status /
//! nothing at all), with its log.

use core::num::NonZeroU8;
use std::cell::{Cell, RefCell};

use embassy_time::{Instant, Timer};

use rs_matter::crypto::Crypto;
use rs_matter::error::{Error, ErrorCode};
use rs_matter::im::client::{ImClient, SubscribeOutcome, TxOutcome};
use rs_matter::im::encoding::ReportDataResp;
use rs_matter::im::{
    AttrPath, AttrResp, EventPath, EventResp, GenericPath, IMStatusCode, OpCode, StatusResp,
    PROTO_ID_INTERACTION_MODEL,
};
use rs_matter::respond::ExchangeHandler;
use rs_matter::tlv::{FromTLV, TLVElement};
use rs_matter::transport::exchange::Exchange;
use rs_matter::Matter;

use crate::sim::clock;
use crate::sim::exec;
use crate::sim::rng::Rng;

use super::c13_dev::{decode_value, Path, DEV_NODE};

/// (endpoint, cluster, leaf) with `None` = wildcard.
pub type WPath = (Option<u16>, Option<u32>, Option<u32>);

#[derive(Clone, Copy, Debug, PartialEq, Eq)]
pub enum Policy {
    /// Answer StatusResponse(Success)
    Ok,
    /// Do not answer at all (the exchange is dropped: the device's wait for the response fails)
    Silent,
    /// Answer StatusResponse(Failure)
    Fail,
}

#[derive(Clone, Debug)]
pub struct PolicyWindow {
    pub from_ms: u64,
    pub to_ms: u64,
    /// percentages: silent, fail (rest = ok)
    pub silent_pct: u32,
    pub fail_pct: u32,
}

#[derive(Clone, Debug)]
pub struct SubPlan {
    pub t_ms: u64,
    pub attrs: Vec<WPath>,
    pub events: Vec<WPath>,
    pub min: u16,
    pub max: u16,
    pub keep: bool,
    /// Upper bound of the random virtual sleep inserted before each priming step.
    pub step_sleep_ms: u64,
}

#[derive(Clone, Debug, Default)]
pub struct Content {
    pub attrs: Vec<(Path, u32)>,
    pub events: Vec<(u64, u64)>,
    /// Things in the report the harness did not expect (status entries, foreign values)
    pub odd: Vec<String>,
}

#[derive(Clone, Debug)]
pub enum SubEv {
    Start { t: u64, ord: usize },
    Priming { t: u64, ord: usize, chunk: u32, sub_id: Option<u32>, content: Content, more: bool },
    Established { t: u64, ord: usize, id: u32, max_int: u16 },
    Failed { t: u64, ord: usize, err: String },
    Report {
        t: u64,
        sub_id: Option<u32>,
        /// Ordinal of the exchange (server-initiated report transaction) at this subscriber
        xchg: u64,
        chunk: u32,
        content: Content,
        more: bool,
        suppress: bool,
        answered: Policy,
        /// length of the IM payload (to find the datagram on the wire tap)
        plen: usize,
    },
}

impl SubEv {
    pub fn t(&self) -> u64 {
        match self {
            SubEv::Start { t, .. }
            | SubEv::Priming { t, .. }
            | SubEv::Established { t, .. }
            | SubEv::Failed { t, .. }
            | SubEv::Report { t, .. } => *t,
        }
    }
}

pub fn parse_content(resp: &ReportDataResp<'_>) -> Content {
    let mut c = Content::default();
    if let Some(arr) = &resp.attr_reports {
        for item in arr.iter() {
            match item {
                Ok(AttrResp::Data(d)) => {
                    let (Some(ep), Some(cl), Some(at)) = (d.path.endpoint, d.path.cluster, d.path.attr) else {
                        c.odd.push("attr-data-with-wildcard-path".into());
                        continue;
                    };
                    if at >= 0xFFF0 {
                        continue; // global attributes: not versioned
                    }
                    match d.data.octets().ok().and_then(decode_value) {
                        Some((v, p)) if p == (ep, cl, at) => c.attrs.push((p, v)),
                        Some(_) => c.odd.push("attr-value-of-other-path".into()),
                        None => c.odd.push("attr-value-undecodable".into()),
                    }
                }
                Ok(AttrResp::Status(s)) => c.odd.push(format!("attr-status:{:?}", s.status.status)),
                Err(_) => c.odd.push("attr-report-undecodable".into()),
            }
        }
    }
    if let Some(arr) = &resp.event_reports {
        for item in arr.iter() {
            match item {
                Ok(EventResp::Data(d)) => {
                    let payload = d.data.u64().unwrap_or(u64::MAX);
                    c.events.push((d.event_number, payload));
                }
                Ok(EventResp::Status(_)) => c.odd.push("event-status".into()),
                Err(_) => c.odd.push("event-report-undecodable".into()),
            }
        }
    }
    c
}

/// Shared state of one subscriber node (log + report policy).
pub struct SubState {
    pub idx: usize,
    pub log: RefCell<Vec<SubEv>>,
    pub windows: Vec<PolicyWindow>,
    pub rng: RefCell<Rng>,
    pub t0: u64,
    pub xchg: Cell<u64>,
}

impl SubState {
    fn draw_policy(&self) -> Policy {
        let now_ms = (clock::now().saturating_sub(self.t0)) / clock::TICKS_PER_MS;
        for w in &self.windows {
            if now_ms >= w.from_ms && now_ms < w.to_ms {
                let r = self.rng.borrow_mut().below(100) as u32;
                return if r < w.silent_pct {
                    Policy::Silent
                } else if r < w.silent_pct + w.fail_pct {
                    Policy::Fail
                } else {
                    Policy::Ok
                };
            }
        }
        Policy::Ok
    }
}

/// The report sink.
pub struct ReportSink<'a>(pub &'a SubState);

async fn send_status(exchange: &mut Exchange<'_>, status: IMStatusCode) -> Result<(), Error> {
    exchange
        .send_with(|_, wb| {
            StatusResp::write(wb, status)?;
            Ok(Some(OpCode::StatusResponse.into()))
        })
        .await
}

impl ExchangeHandler for ReportSink<'_> {
    async fn handle(&self, mut exchange: Exchange<'_>) -> Result<(), Error> {
        if exchange.rx().is_err() {
            exchange.recv_fetch().await?;
        }
        let st = self.0;
        let xchg = st.xchg.get();
        st.xchg.set(xchg + 1);
        let mut chunk = 0u32;
        loop {
            let (more, suppress, is_report) = {
                let rx = exchange.rx()?;
                let meta = rx.meta();
                if meta.proto_id != PROTO_ID_INTERACTION_MODEL || meta.proto_opcode != OpCode::ReportData as u8 {
                    (false, false, false)
                } else {
                    let resp = ReportDataResp::from_tlv(&TLVElement::new(rx.payload()))?;
                    let content = parse_content(&resp);
                    let more = resp.more_chunks.unwrap_or(false);
                    let suppress = resp.suppress_response.unwrap_or(false);
                    // One policy per received message, drawn from the seed.
                    let answered = st.draw_policy();
                    st.log.borrow_mut().push(SubEv::Report {
                        t: clock::now(),
                        sub_id: resp.subscription_id,
                        xchg,
                        chunk,
                        content,
                        more,
                        suppress,
                        answered,
                        plen: rx.payload().len(),
                    });
                    (more, suppress, true)
                }
            };
            if !is_report {
                // Not a report (e.g. a stray IM request): refuse.
                return send_status(&mut exchange, IMStatusCode::InvalidAction).await;
            }
            let answered = match st.log.borrow().last() {
                Some(SubEv::Report { answered, .. }) => *answered,
                _ => Policy::Ok,
            };
            match answered {
                Policy::Ok => {
                    if !suppress {
                        send_status(&mut exchange, IMStatusCode::Success).await?;
                    }
                }
                Policy::Fail => {
                    return send_status(&mut exchange, IMStatusCode::Failure).await;
                }
                Policy::Silent => {
                    // No answer: drop the exchange.
                    return Ok(());
                }
            }
            if !more {
                break;
            }
            chunk += 1;
            exchange.recv_fetch().await?;
        }
        exchange.acknowledge().await?;
        Ok(())
    }
}

fn wp_attr(p: &WPath) -> AttrPath {
    AttrPath::from_gp(&GenericPath::new(p.0, p.1, p.2))
}

fn wp_event(p: &WPath) -> EventPath {
    EventPath::from_gp(&GenericPath::new(p.0, p.1, p.2))
}

/// One subscribe transaction through the public client API; logs every priming chunk.
async fn subscribe_once<C: Crypto>(
    matter: &Matter<'_>,
    crypto: C,
    fab: NonZeroU8,
    st: &SubState,
    ord: usize,
    plan: &SubPlan,
    rng: &mut Rng,
) -> Result<(u32, u16), Error> {
    let attr_paths: Vec<AttrPath> = plan.attrs.iter().map(wp_attr).collect();
    let ev_paths: Vec<EventPath> = plan.events.iter().map(wp_event).collect();

    let exchange = Exchange::initiate(matter, crypto, fab, DEV_NODE).await?;
    let mut sender = exchange.subscribe_sender().await?;

    let mut chunk = loop {
        match sender.tx().await? {
            TxOutcome::BuildRequest(b) => {
                let b = b.keep_subs(plan.keep)?.min_int_floor(plan.min)?.max_int_ceil(plan.max)?;
                sender = match (attr_paths.is_empty(), ev_paths.is_empty()) {
                    (false, true) => b.attr_requests_from(&attr_paths)?.fabric_filtered(false)?.end()?,
                    (false, false) => b
                        .attr_requests_from(&attr_paths)?
                        .event_requests_from(&ev_paths)?
                        .fabric_filtered(false)?
                        .end()?,
                    (true, false) => b.event_requests_from(&ev_paths)?.fabric_filtered(false)?.end()?,
                    (true, true) => return Err(ErrorCode::Invalid.into()),
                };
            }
            TxOutcome::GotResponse(c) => break c,
        }
    };

    let mut n = 0u32;
    loop {
        {
            let resp = chunk.response()?;
            let content = parse_content(&resp);
            st.log.borrow_mut().push(SubEv::Priming {
                t: clock::now(),
                ord,
                chunk: n,
                sub_id: resp.subscription_id,
                content,
                more: resp.more_chunks.unwrap_or(false),
            });
        }
        n += 1;
        if plan.step_sleep_ms > 0 {
            let ms = rng.below(plan.step_sleep_ms + 1);
            if ms > 0 {
                exec::sleep_ms(ms).await;
            }
        }
        match chunk.complete().await? {
            SubscribeOutcome::NextChunk(next) => chunk = next,
            SubscribeOutcome::Established(est) => return Ok((est.subscription_id, est.max_int)),
        }
    }
}

/// The subscriber script: performs the planned subscribes at their times, then idles.
pub async fn subscriber_script<C: Crypto>(
    matter: &Matter<'_>,
    crypto: C,
    fab: NonZeroU8,
    st: &SubState,
    plans: &[SubPlan],
    seed: u64,
) {
    let mut rng = Rng::new(seed);
    for (ord, plan) in plans.iter().enumerate() {
        let at = st.t0 + plan.t_ms * clock::TICKS_PER_MS;
        if at > clock::now() {
            Timer::at(Instant::from_ticks(at)).await;
        }
        st.log.borrow_mut().push(SubEv::Start { t: clock::now(), ord });
        let r = exec::with_timeout(
            45_000,
            subscribe_once(matter, &crypto, fab, st, ord, plan, &mut rng),
        )
        .await;
        match r {
            Some(Ok((id, max_int))) => st.log.borrow_mut().push(SubEv::Established {
                t: clock::now(),
                ord,
                id,
                max_int,
            }),
            Some(Err(e)) => st.log.borrow_mut().push(SubEv::Failed {
                t: clock::now(),
                ord,
                err: format!("{:?}", e.code()),
            }),
            None => st.log.borrow_mut().push(SubEv::Failed {
                t: clock::now(),
                ord,
                err: "harness-timeout".into(),
            }),
        }
    }
    core::future::pending::<()>().await;
}
