//! C18 — BTP delivers each message intact, once and in order, or fails cleanly.
//!
//! Everything is driven through the public `rs_matter::transport::network::btp::Btp`
//! object (`process_incoming` / `process_outgoing` / `send` / `recv` / `wait_outgoing` /
//! `wait_timeout`), exactly as an OS-specific GATT driver does. The harness side speaks BTP
//! by hand with the independent codec + reference endpoint model of `c18_ref`.
//!
//! Workload 1 (`c18_conv`): well-behaved conversations on the virtual clock / seeded executor.
//! Workload 2 (`c18_hostile`): hostile segment sequences, every call under `catch_unwind`.

use std::cell::RefCell;

use serde_json::Value;

use crate::report::{Ctx, Report};
use crate::sim::rng::subseed;

use super::{c18_conv, c18_hostile};

/// One oracle verdict against rs-matter (or a harness self-check failure when `inconclusive`).
#[derive(Clone, Debug)]
pub struct Finding {
    pub rule: String,
    pub sig: String,
    pub detail: String,
    pub inconclusive: bool,
}

#[derive(Clone, Debug, Default)]
pub struct PanicInfo {
    pub msg: String,
    pub file: String,
    pub line: u32,
}

thread_local! {
    static LAST_PANIC: RefCell<Option<PanicInfo>> = const { RefCell::new(None) };
}

pub fn install_panic_hook() {
    std::panic::set_hook(Box::new(|info| {
        let msg = if let Some(s) = info.payload().downcast_ref::<&str>() {
            s.to_string()
        } else if let Some(s) = info.payload().downcast_ref::<String>() {
            s.clone()
        } else {
            "<non-string panic payload>".to_string()
        };
        let (file, line) = info
            .location()
            .map(|l| (l.file().to_string(), l.line()))
            .unwrap_or_default();
        LAST_PANIC.with(|p| *p.borrow_mut() = Some(PanicInfo { msg, file, line }));
    }));
}

pub fn take_panic() -> PanicInfo {
    LAST_PANIC
        .with(|p| p.borrow_mut().take())
        .unwrap_or_default()
}

impl PanicInfo {
    /// Does the panic originate in rs-matter (or a dependency it called), as opposed to the
    /// harness' own sources?
    pub fn in_harness(&self) -> bool {
        self.file.starts_with("src/") || self.file.contains("/harness/src/")
    }

    /// Class of the panic, for signatures.
    pub fn kind(&self) -> &'static str {
        let m = &self.msg;
        if m.contains("subtract with overflow") {
            "sub-overflow"
        } else if m.contains("add with overflow") {
            "add-overflow"
        } else if m.contains("multiply with overflow") {
            "mul-overflow"
        } else if m.contains("divide by zero") || m.contains("remainder with a divisor of zero") {
            "div-by-zero"
        } else if m.contains("assertion") {
            "assert"
        } else if m.contains("out of bounds") || m.contains("out of range") || m.contains("range end") || m.contains("range start") {
            "index"
        } else if m.contains("unwrap") || m.contains("Option::") || m.contains("Result::") {
            "unwrap"
        } else {
            "other"
        }
    }

    pub fn describe(&self) -> String {
        format!("panic '{}' at {}:{}", self.msg, self.file, self.line)
    }
}

pub fn hex(b: &[u8]) -> String {
    let mut s = String::with_capacity(b.len() * 2);
    for x in b {
        s.push_str(&format!("{:02x}", x));
    }
    s
}

pub fn unhex(s: &str) -> Vec<u8> {
    let s: Vec<u8> = s.bytes().filter(|c| c.is_ascii_hexdigit()).collect();
    s.chunks(2)
        .filter(|c| c.len() == 2)
        .map(|c| u8::from_str_radix(std::str::from_utf8(c).unwrap(), 16).unwrap())
        .collect()
}

pub fn report_finding(rep: &mut Report, f: &Finding, replay: Value) {
    if f.inconclusive {
        rep.inconclusive(&f.sig);
        rep.note(&format!("inconclusive-detail: {} :: {}", f.sig, truncate(&f.detail, 300)));
    } else {
        rep.violation(&f.rule, &f.sig, f.detail.clone(), replay);
    }
}

pub fn truncate(s: &str, n: usize) -> String {
    if s.len() <= n {
        s.to_string()
    } else {
        let mut e = n;
        while !s.is_char_boundary(e) {
            e -= 1;
        }
        format!("{}…", &s[..e])
    }
}

pub fn run(ctx: &Ctx) -> Report {
    let mut rep = Report::new(
        "C18",
        "W1: one well-behaved BTP conversation (topology, ATT MTU, handshake parameters, message lengths/gaps, peer policy, schedule seed) \
         between the real rs-matter `Btp` and an independent spec-based peer (or a second `Btp`); distinct = hash of (topology, negotiated segment size, \
         window, message-length lists, schedule hash), counted only when at least one multi-segment message was exchanged. \
         W2: one hostile step sequence fed to a real `Btp`; distinct = hash of (role, relaxed, per-step class sequence incl. outcome), counted only when \
         at least one non-valid segment was injected.",
    );
    rep.assumptions.push("ack deadline = 15 s after receipt (Matter BTP_ACK_TIMEOUT), measured in virtual time at the Btp API boundary while the end is polled exactly like the in-tree GATT drivers do (process_outgoing loop + wait_outgoing)".into());
    rep.assumptions.push("the handshake response counts as the peripheral's segment 0 (occupies a window slot, must be acknowledged)".into());
    rep.assumptions.push("zero-length messages handed to rs-matter's send() (refused) or arriving from the peer (swallowed) are recorded, not judged".into());
    rep.assumptions.push("hostile workload: local ATT MTU values reported by the BLE stack are kept in the legal range (None or >= 23); smaller ones only as notes".into());
    rep.max_violations = 200;

    install_panic_hook();

    if let Some(r) = &ctx.replay {
        match r["kind"].as_str().unwrap_or("") {
            "hostile" => c18_hostile::replay(&mut rep, r),
            _ => c18_conv::replay(&mut rep, r),
        }
        let _ = std::panic::take_hook();
        return rep;
    }

    for (k, min) in [
        ("conv_total", 1000u64),
        ("conv_seq_wrap", 200),
        ("conv_seq_wrap_x3", 50),
        ("conv_completed", 300),
        ("delivered_to_rs", 5000),
        ("delivered_from_rs", 5000),
        ("segments_tapped", 200_000),
        ("conv_topo:peer-central/rs-peripheral", 300),
        ("conv_topo:rs-central/peer-peripheral", 100),
        ("conv_topo:rs-central/rs-peripheral", 100),
        ("conv_att_mtu:none", 50),
        ("conv_att_mtu:23", 30),
        ("conv_att_mtu:24-100", 50),
        ("conv_att_mtu:101-246", 50),
        ("conv_att_mtu:247", 30),
        ("conv_att_mtu:>247", 30),
        ("conv_seg:20", 50),
        ("conv_seg:21-100", 50),
        ("conv_seg:101-243", 50),
        ("conv_seg:244", 30),
        ("conv_idle>=15s", 50),
        ("conv_idle>=30s", 20),
        ("hostile_segments", 100_000),
        ("hostile_sequences", 3000),
    ] {
        rep.floor(k, min);
    }
    for c in c18_hostile::FLOOR_CLASSES {
        rep.floor(&format!("hostile_class:{}", c), 40);
    }

    // Workload 1: conversations.
    let convs = ctx.share(5_000, 250_000);
    for i in 0..convs {
        let seed = subseed(ctx.shard_seed(), &[1, i]);
        let p = c18_conv::gen_params(seed, ctx.scale);
        c18_conv::run_one(&mut rep, &p, i < 2);
    }

    // Workload 2: hostile sequences until this shard's share of hostile segments is spent.
    let budget = ctx.share(200_000, 10_000_000);
    let mut spent = 0u64;
    let mut n = 0u64;
    while spent < budget {
        let seed = subseed(ctx.shard_seed(), &[2, n]);
        spent += c18_hostile::run_one(&mut rep, seed, n < 2).max(1);
        n += 1;
    }
    let _ = std::panic::take_hook();
    rep
}
