//! C17 — headers, onboarding payloads and discovery records decode what was encoded.
//!
//! For every format for which rs-matter exposes both an encoder and a decoder publicly:
//!   (a) legal field combinations → encode → decode → field-wise equality,
//!   (b) for the pairing codes: wrong check digit / out-of-range fields must be refused,
//!   (c) every decoder is fed arbitrary input (random, truncations, bit flips, boundary
//!       substitutions, format-specific hostile structures) under `catch_unwind`.
//!
//! The format families live in `c17_wire` (message/protocol header, packet, status report,
//! BDX, check-in, ParseBuf/WriteBuf), `c17_pair` (QR, manual code, base-38, BLE
//! advertisement), `c17_mdns` and `c17_cert` (Matter TLV → X.509, CSR, attestation X.509
//! parser, certification declaration).
//!
//! A case is identified by `(format, k, seed)`: everything the case does derives from
//! `Rng::new(subseed(seed, [format-id, k]))`, so it replays on any shard layout.

use std::cell::RefCell;
use std::panic::{catch_unwind, AssertUnwindSafe};

use serde_json::{json, Value};

use crate::report::{Ctx, Report};
use crate::sim::rng::{subseed, Fnv, Rng};

use super::{c17_cert, c17_mdns, c17_pair, c17_wire};

// ---------------------------------------------------------------------------------------
// Oracle strictness switches (see the final notes of the module author):
// the bare statement demands refusal for "a wrong check digit or out-of-range fields".
// ---------------------------------------------------------------------------------------

/// A passcode outside 1..=99_999_998 (the range the Matter specification gives for the
/// 27-bit passcode field) in a QR / manual code counts as an out-of-range field.
pub const ASSERT_PASSCODE_RANGE_REFUSED: bool = true;
/// A base-38 group whose value does not fit the bytes it stands for (5 chars ≥ 2^24,
/// 4 chars ≥ 2^16, 2 chars ≥ 2^8) counts as an out-of-range field of the base-38 packing.
pub const ASSERT_BASE38_GROUP_RANGE_REFUSED: bool = true;
/// QR strings with characters outside the base-38 alphabet / impossible lengths must be
/// refused (task directive (b); `base38::decode` documents "Fails if the string contains
/// invalid characters").  The bare statement only says "value or error" for those, so
/// this one can be switched to a note.
pub const ASSERT_MALFORMED_QR_REFUSED: bool = true;

// ---------------------------------------------------------------------------------------
// Panic capture
// ---------------------------------------------------------------------------------------

#[derive(Clone, Debug)]
pub struct PanicInfo {
    pub msg: String,
    pub file: String,
    pub line: u32,
}

thread_local! {
    static LAST_PANIC: RefCell<Option<PanicInfo>> = const { RefCell::new(None) };
}

pub fn install_hook() {
    std::panic::set_hook(Box::new(|info| {
        let msg = if let Some(s) = info.payload().downcast_ref::<&str>() {
            (*s).to_string()
        } else if let Some(s) = info.payload().downcast_ref::<String>() {
            s.clone()
        } else {
            "<non-string panic payload>".to_string()
        };
        let (file, line) = info
            .location()
            .map(|l| (l.file().to_string(), l.line()))
            .unwrap_or_else(|| ("<unknown>".into(), 0));
        LAST_PANIC.with(|p| *p.borrow_mut() = Some(PanicInfo { msg, file, line }));
    }));
}

/// Run `f`, turning a panic into `Err(PanicInfo)`.
pub fn guard<T>(f: impl FnOnce() -> T) -> Result<T, PanicInfo> {
    LAST_PANIC.with(|p| *p.borrow_mut() = None);
    match catch_unwind(AssertUnwindSafe(f)) {
        Ok(v) => Ok(v),
        Err(payload) => {
            let stored = LAST_PANIC.with(|p| p.borrow_mut().take());
            Err(stored.unwrap_or_else(|| {
                let msg = if let Some(s) = payload.downcast_ref::<&str>() {
                    (*s).to_string()
                } else if let Some(s) = payload.downcast_ref::<String>() {
                    s.clone()
                } else {
                    "<panic>".to_string()
                };
                PanicInfo {
                    msg,
                    file: "<unknown>".into(),
                    line: 0,
                }
            }))
        }
    }
}

fn norm_file(file: &str) -> String {
    if let Some(i) = file.find("/rs-matter/src/") {
        return file[i + "/rs-matter/src/".len()..].to_string();
    }
    if let Some(i) = file.find("/registry/src/") {
        let rest = &file[i + "/registry/src/".len()..];
        // <index-dir>/<crate-version>/src/...
        let mut it = rest.splitn(3, '/');
        let _ = it.next();
        let krate = it.next().unwrap_or("?");
        let krate = krate.rsplit_once('-').map(|(a, _)| a).unwrap_or(krate);
        let tail = it.next().unwrap_or("");
        let tail = tail.rsplit('/').next().unwrap_or(tail);
        return format!("dep:{}/{}", krate, tail);
    }
    if let Some(i) = file.find("/library/") {
        return format!("std:{}", file[i + "/library/".len()..].rsplit('/').next().unwrap_or(""));
    }
    file.rsplit('/').next().unwrap_or(file).to_string()
}

fn panic_kind(msg: &str) -> &'static str {
    let m = msg;
    if m.contains("with overflow") || m.contains("attempt to shift") || m.contains("attempt to negate") {
        "arith-overflow"
    } else if m.contains("attempt to divide by zero") || m.contains("remainder with a divisor of zero") {
        "div-by-zero"
    } else if m.contains("index out of bounds") {
        "index-oob"
    } else if m.contains("out of range for slice")
        || m.contains("range end index")
        || m.contains("range start index")
        || m.contains("slice index starts at")
        || m.contains("mid > len")
        || m.contains("byte index")
    {
        "slice-oob"
    } else if m.contains("source slice length") || m.contains("copy_from_slice") {
        "len-mismatch"
    } else if m.contains("called `Option::unwrap()`")
        || m.contains("called `Result::unwrap()`")
        || m.contains("unwrap")
    {
        "unwrap"
    } else if m.contains("assertion") {
        "assert"
    } else if m.contains("unreachable") {
        "unreachable"
    } else if m.contains("not implemented") || m.contains("not yet implemented") {
        "unimplemented"
    } else {
        "other"
    }
}

/// `<normalised file>:<panic kind>` – class-based, no line numbers / values.
pub fn panic_class(p: &PanicInfo) -> String {
    format!("{}:{}", norm_file(&p.file), panic_kind(&p.msg))
}

// ---------------------------------------------------------------------------------------
// Small helpers
// ---------------------------------------------------------------------------------------

pub fn hex(b: &[u8]) -> String {
    let mut s = String::with_capacity(b.len() * 2);
    for x in b {
        s.push_str(&format!("{:02x}", x));
    }
    s
}

pub fn unhex(s: &str) -> Vec<u8> {
    let b = s.as_bytes();
    let mut v = Vec::with_capacity(b.len() / 2);
    let nib = |c: u8| -> u8 {
        match c {
            b'0'..=b'9' => c - b'0',
            b'a'..=b'f' => c - b'a' + 10,
            b'A'..=b'F' => c - b'A' + 10,
            _ => 0,
        }
    };
    let mut i = 0;
    while i + 1 < b.len() {
        v.push((nib(b[i]) << 4) | nib(b[i + 1]));
        i += 2;
    }
    v
}

/// Boundary values of an unsigned field of `bits` bits plus a random one.
pub fn edge(rng: &mut Rng, bits: u32) -> u64 {
    let max = if bits >= 64 { u64::MAX } else { (1u64 << bits) - 1 };
    match rng.below(12) {
        0 => 0,
        1 => 1,
        2 => max,
        3 => max - 1,
        4 => max >> 1,
        5 => (max >> 1) + 1,
        6 => 0x7f & max,
        7 => 0x80 & max,
        8 => 0xff & max,
        9 => 0x100 & max,
        _ => rng.u64() & max,
    }
}

pub fn edge_class(v: u64, bits: u32) -> u8 {
    let max = if bits >= 64 { u64::MAX } else { (1u64 << bits) - 1 };
    if v == 0 {
        0
    } else if v == 1 {
        1
    } else if v == max {
        2
    } else if v == max - 1 {
        3
    } else if v == max >> 1 {
        4
    } else if v == (max >> 1) + 1 {
        5
    } else {
        6 + (64 - v.leading_zeros() as u8) / 8
    }
}

/// One decoder reachable by name (for the generic fuzzers and for replay).
/// The function returns `true` when the decoder produced a value and `false` when it
/// refused the input; it must not catch panics itself.
pub struct Decoder {
    pub name: &'static str,
    pub fmt: &'static str,
    /// Upper bound for uniform random input lengths.
    pub max_len: usize,
    /// Text decoders get the input through `String::from_utf8_lossy`.
    pub text: bool,
    pub f: fn(&[u8]) -> bool,
}

pub fn all_decoders() -> Vec<Decoder> {
    let mut v = Vec::new();
    v.extend(c17_wire::decoders());
    v.extend(c17_pair::decoders());
    v.extend(c17_mdns::decoders());
    v.extend(c17_cert::decoders());
    v
}

/// One format family member with a case generator.
pub struct Format {
    pub name: &'static str,
    pub id: u64,
    pub quick: u64,
    pub thorough: u64,
    /// false: no public encoder ⇒ arbitrary-input only, no round-trip floor.
    pub has_encoder: bool,
    pub case: fn(&mut Cx, u64, &mut Rng),
}

pub fn all_formats() -> Vec<Format> {
    let mut v = Vec::new();
    v.extend(c17_wire::formats());
    v.extend(c17_pair::formats());
    v.extend(c17_mdns::formats());
    v.extend(c17_cert::formats());
    v
}

/// Per-case context handed to the format modules.
pub struct Cx<'a> {
    pub rep: &'a mut Report,
    pub seed: u64,
    pub fmt: &'static str,
    pub k: u64,
    /// Scrambled `k` for modular selections (so that they do not alias with the shard stride).
    pub m: u64,
    pub scale: f64,
    pub decs: &'a [Decoder],
}

impl Cx<'_> {
    pub fn replay_case(&self) -> Value {
        json!({"check": "C17", "format": self.fmt, "k": self.k, "seed": self.seed})
    }

    /// A successful field-wise round trip.
    pub fn rt_ok(&mut self) {
        self.rep.evaluations += 1;
        self.rep.count(&format!("{}:roundtrips_ok", self.fmt));
    }

    /// One written-out case per format.
    pub fn sample(&mut self, what: String, encoded: &[u8]) {
        let fmt = self.fmt;
        if !self.rep.samples.iter().any(|s| s["format"] == fmt) {
            let shown = if encoded.len() > 96 { format!("{}… ({} bytes)", hex(&encoded[..96]), encoded.len()) } else { hex(encoded) };
            self.rep.sample(json!({"format": fmt, "k": self.k, "case": what, "encoded": shown}));
        }
    }

    /// Non-trivial case class (what makes the case different from the default one).
    pub fn shape(&mut self, class: &[u8]) {
        let mut f = Fnv::new();
        f.add(self.fmt.as_bytes());
        f.add(&[0xff]);
        f.add(class);
        self.rep.distinct.insert(f.0);
    }

    pub fn mismatch(&mut self, field: &str, detail: String, encoded: &[u8]) {
        self.rep.evaluations += 1;
        self.rep.count(&format!("{}:roundtrip_mismatch", self.fmt));
        let sig = format!("C17/{}/roundtrip-mismatch/{}", self.fmt, field);
        let mut r = self.replay_case();
        r["encoded"] = json!(hex(encoded));
        self.rep.violation(
            "roundtrip-mismatch",
            &sig,
            format!(
                "format {} case k={} seed={}: field `{}` decoded differently from what was encoded: {} (encoded bytes {})",
                self.fmt,
                self.k,
                self.seed,
                field,
                detail,
                hex(encoded)
            ),
            r,
        );
    }

    /// The encoder refused / the decoder refused a legal value: also a round-trip failure.
    pub fn rt_fail(&mut self, stage: &str, detail: String, encoded: &[u8]) {
        self.mismatch(stage, detail, encoded);
    }

    /// Compare one field.
    pub fn eq<T: PartialEq + std::fmt::Debug>(&mut self, field: &str, enc: &T, dec: &T, bytes: &[u8]) -> bool {
        if enc == dec {
            true
        } else {
            self.mismatch(field, format!("encoded {:?}, decoded {:?}", enc, dec), bytes);
            false
        }
    }

    /// An encoder panicked on a legal value.
    pub fn encoder_panic(&mut self, p: &PanicInfo, what: String) {
        self.rep.count(&format!("{}:panics", self.fmt));
        let sig = format!("C17/{}/panic/encode/{}", self.fmt, panic_class(p));
        let r = self.replay_case();
        self.rep.violation(
            "no-panic",
            &sig,
            format!(
                "format {} case k={} seed={}: encoder/round trip panicked on a legal value ({}): `{}` at {}:{}",
                self.fmt, self.k, self.seed, what, p.msg, p.file, p.line
            ),
            r,
        );
    }

    /// Feed one arbitrary input to a named decoder.
    /// Returns Some(true)=value, Some(false)=refused, None=panicked.
    pub fn fuzz(&mut self, decoder: &str, input: &[u8], origin: &str) -> Option<bool> {
        let d = self
            .decs
            .iter()
            .find(|d| d.name == decoder)
            .unwrap_or_else(|| panic!("harness: unknown decoder {decoder}"));
        fuzz_one(self.rep, d, input, origin)
    }

    /// Structured mutations of a valid encoding.
    pub fn mutate(&mut self, decoder: &str, valid: &[u8], rng: &mut Rng, n: usize) {
        let d = self
            .decs
            .iter()
            .find(|d| d.name == decoder)
            .unwrap_or_else(|| panic!("harness: unknown decoder {decoder}"));
        // slow (Miri / sanitizer) builds: one mutation per valid encoding
        let n = if self.scale < 1.0 { n.min(1) } else { n };
        mutate_and_fuzz(self.rep, d, valid, rng, n);
    }
}

pub fn fuzz_one(rep: &mut Report, d: &Decoder, input: &[u8], origin: &str) -> Option<bool> {
    rep.evaluations += 1;
    rep.count(&format!("{}:arbitrary_inputs", d.fmt));
    let f = d.f;
    match guard(|| f(input)) {
        Ok(true) => {
            rep.count(&format!("{}:decode_ok", d.fmt));
            Some(true)
        }
        Ok(false) => {
            rep.count(&format!("{}:decode_err", d.fmt));
            Some(false)
        }
        Err(p) => {
            rep.count(&format!("{}:panics", d.fmt));
            // structured hostile inputs name their class; random mutations do not
            let suffix = origin
                .strip_prefix("hostile:")
                .or_else(|| origin.strip_prefix("negative:"))
                .map(|c| format!("/{}", c))
                .unwrap_or_default();
            let sig = format!("C17/{}/panic/{}{}", d.fmt, panic_class(&p), suffix);
            let shown = if d.text {
                format!(" text {:?}", String::from_utf8_lossy(input))
            } else {
                String::new()
            };
            rep.violation(
                "no-panic",
                &sig,
                format!(
                    "decoder `{}` panicked on a {}-byte input ({}): `{}` at {}:{}; input hex {}{}; the statement requires a value or an error",
                    d.name,
                    input.len(),
                    origin,
                    p.msg,
                    p.file,
                    p.line,
                    hex(input),
                    shown
                ),
                json!({"check": "C17", "decoder": d.name, "input": hex(input), "origin": origin}),
            );
            None
        }
    }
}

const SUBST: [u8; 24] = [
    0, 1, 2, 3, 4, 5, 6, 7, 8, 9, 0x0f, 0x10, 0x1f, 0x20, 0x3f, 0x40, 0x7f, 0x80, 0x81, 0xbf, 0xc0, 0xfe, 0xff, 0x30,
];

fn mut_hash(d: &Decoder, kind: u8, pos: usize, len: usize) -> u64 {
    let mut f = Fnv::new();
    f.add(d.name.as_bytes());
    // position bucket: eighths of the encoding
    let bucket = if len == 0 { 0 } else { (pos * 8 / len.max(1)).min(7) as u8 };
    f.add(&[0xfe, kind, bucket]);
    f.0
}

/// `n` mutated variants of `valid`: truncation, bit flip, boundary substitution,
/// 16/32-bit length-like substitution, segment duplication / removal, appended garbage.
pub fn mutate_and_fuzz(rep: &mut Report, d: &Decoder, valid: &[u8], rng: &mut Rng, n: usize) {
    let len = valid.len();
    for _ in 0..n {
        let kind = rng.below(8) as u8;
        let mut v = valid.to_vec();
        let pos = if len == 0 { 0 } else { rng.usize(len) };
        let origin = match kind {
            0 => {
                v.truncate(pos);
                "truncation"
            }
            1 if len > 0 => {
                v[pos] ^= 1 << rng.below(8);
                "bit-flip"
            }
            2 if len > 0 => {
                v[pos] = *rng.pick(&SUBST);
                "boundary-substitution"
            }
            3 if len > 1 => {
                let p = pos.min(len - 2);
                let w = *rng.pick(&[0u16, 1, 0x7f, 0x80, 0xff, 0x100, 0x7fff, 0x8000, 0xfffe, 0xffff]);
                let b = if rng.bool() { w.to_le_bytes() } else { w.to_be_bytes() };
                v[p] = b[0];
                v[p + 1] = b[1];
                "u16-substitution"
            }
            4 if len > 0 => {
                let l = 1 + rng.usize((len - pos).min(16));
                let seg: Vec<u8> = v[pos..pos + l].to_vec();
                let at = rng.usize(len + 1);
                for (i, b) in seg.into_iter().enumerate() {
                    v.insert((at + i).min(v.len()), b);
                }
                "segment-duplication"
            }
            5 if len > 0 => {
                let l = 1 + rng.usize((len - pos).min(16));
                v.drain(pos..pos + l);
                "segment-removal"
            }
            6 => {
                let extra = rng.usize(24);
                v.extend(rng.bytes(extra));
                "appended-garbage"
            }
            _ => {
                if len > 0 {
                    let cnt = 1 + rng.usize(4);
                    for _ in 0..cnt {
                        let p = rng.usize(len);
                        v[p] = rng.u64() as u8;
                    }
                }
                "random-bytes-substitution"
            }
        };
        rep.distinct.insert(mut_hash(d, kind, pos, len));
        fuzz_one(rep, d, &v, origin);
    }
}

/// Every truncation of a valid encoding (sampled when long).
pub fn all_truncations(rep: &mut Report, d: &Decoder, valid: &[u8], rng: &mut Rng) {
    let len = valid.len();
    if len <= 160 {
        for l in 0..len {
            fuzz_one(rep, d, &valid[..l], "truncation");
        }
    } else {
        for _ in 0..160 {
            let l = rng.usize(len);
            fuzz_one(rep, d, &valid[..l], "truncation");
        }
    }
}

fn random_input(rng: &mut Rng, d: &Decoder) -> Vec<u8> {
    let max = if d.max_len > 64 && rng.chance(1, 4) { d.max_len } else { 64 };
    let len = rng.usize(max + 1);
    if d.text {
        // characters: mostly from a small alphabet close to the accepted ones
        const ALPHA: &[u8] = b"0123456789ABCDEFGHIJKLMNOPQRSTUVWXYZ-.MT:abc/ $%*+_!\x00\x7f";
        let mut s: Vec<u8> = Vec::with_capacity(len);
        let style = rng.below(4);
        while s.len() < len {
            match style {
                0 => s.push(*rng.pick(&ALPHA[..10])),
                1 => s.push(*rng.pick(&ALPHA[..38])),
                2 => s.push(*rng.pick(ALPHA)),
                _ => {
                    if rng.chance(1, 8) {
                        s.extend("é€𝄞".chars().nth(rng.usize(3)).unwrap().to_string().as_bytes());
                    } else {
                        s.push(rng.u64() as u8);
                    }
                }
            }
        }
        if rng.chance(1, 2) && d.fmt == "qr" {
            let mut p = b"MT:".to_vec();
            p.extend(s);
            s = p;
        }
        s
    } else {
        match rng.below(4) {
            0 => vec![*rng.pick(&[0u8, 0xff, 0x80, 0x7f, 1]); len],
            1 => {
                // mostly small values: more structure reached
                (0..len).map(|_| (rng.below(40)) as u8).collect()
            }
            _ => rng.bytes(len),
        }
    }
}

pub fn run(ctx: &Ctx) -> Report {
    let mut rep = Report::new(
        "C17",
        "per format: legal field combinations are encoded with the public encoder, decoded with the public decoder and compared field by field; \
         every public decoder is additionally fed arbitrary bytes/characters (random, truncations, bit flips, boundary substitutions, hostile \
         structures) under catch_unwind. distinct = hash(format, field-shape class) for round trips with non-default optional fields / boundary \
         values, and hash(decoder, mutation kind, position eighth) for mutated inputs.",
    );
    rep.max_violations = 120;
    rep.max_samples = 24;
    rep.assumptions.push("check-in / packet decoders are exercised with the rustcrypto backend (the backend configured for the harness)".into());
    rep.assumptions.push("long (21-digit) manual codes, raw QR bit strings, certification-declaration TLV, and non-generator certificate shapes are produced by the harness's own reference encoders written from the Matter specification (rs-matter has no public encoder for them)".into());
    install_hook();

    let decs = all_decoders();
    let fmts = all_formats();

    if let Some(r) = &ctx.replay {
        replay(&mut rep, ctx, r, &decs, &fmts);
        let _ = std::panic::take_hook();
        return rep;
    }

    // Floors
    for f in &fmts {
        if f.has_encoder {
            rep.floor(&format!("{}:roundtrips_ok", f.name), 1000);
        } else {
            rep.note(&format!("format {}: no public encoder, arbitrary-input checks only", f.name));
        }
    }
    let mut seen = std::collections::BTreeSet::new();
    for d in &decs {
        if seen.insert(d.fmt) {
            rep.floor(&format!("{}:arbitrary_inputs", d.fmt), 1000);
            rep.floor(&format!("{}:decode_ok", d.fmt), 1);
            rep.floor(&format!("{}:decode_err", d.fmt), 1);
        }
    }
    for n in c17_pair::skipped_notes()
        .iter()
        .chain(c17_mdns::skipped_notes().iter())
        .chain(c17_cert::skipped_notes().iter())
        .chain(c17_wire::skipped_notes().iter())
    {
        rep.note(n);
    }

    // (a)+(b)+(structured c): cases per format
    for f in &fmts {
        let n = ctx.share(f.quick, f.thorough);
        for i in 0..n {
            let k = ctx.shard + i * ctx.nshards;
            let mut rng = Rng::new(subseed(ctx.seed, &[f.id, k]));
            let mut cx = Cx {
                rep: &mut rep,
                seed: ctx.seed,
                fmt: f.name,
                k,
                m: subseed(0xC17, &[k]),
                scale: ctx.scale,
                decs: &decs,
            };
            let case = f.case;
            // A panic that escapes a case outside the guarded decoder calls is an
            // encoder-side panic on a legal value (or a harness bug): report it.
            if let Err(p) = guard(|| case(&mut cx, k, &mut rng)) {
                cx.encoder_panic(&p, "unguarded part of the case".into());
            }
        }
    }

    // (c) uniform random input for every decoder
    let mut rng = Rng::new(ctx.shard_seed());
    for d in &decs {
        let n = ctx.share(40_000, 2_000_000);
        for _ in 0..n {
            let input = random_input(&mut rng, d);
            fuzz_one(&mut rep, d, &input, "uniform-random");
        }
    }

    let _ = std::panic::take_hook();
    rep
}

fn replay(rep: &mut Report, ctx: &Ctx, r: &Value, decs: &[Decoder], fmts: &[Format]) {
    if let Some(name) = r.get("decoder").and_then(|v| v.as_str()) {
        let input = unhex(r["input"].as_str().unwrap_or(""));
        match decs.iter().find(|d| d.name == name) {
            Some(d) => {
                let origin = r["origin"].as_str().unwrap_or("replay");
                let out = fuzz_one(rep, d, &input, origin);
                rep.note(&format!("replay decoder {} outcome {:?}", name, out));
                // Negative oracles (a function of the input and of the recorded class).
                c17_pair::replay_negative(rep, name, &input, origin, out);
            }
            None => rep.inconclusive(&format!("unknown decoder {name}")),
        }
        return;
    }
    let name = r["format"].as_str().unwrap_or("");
    let k = r["k"].as_u64().unwrap_or(0);
    let seed = r["seed"].as_u64().unwrap_or(ctx.seed);
    match fmts.iter().find(|f| f.name == name) {
        Some(f) => {
            let mut rng = Rng::new(subseed(seed, &[f.id, k]));
            let mut cx = Cx {
                rep,
                seed,
                fmt: f.name,
                k,
                m: subseed(0xC17, &[k]),
                scale: ctx.scale,
                decs,
            };
            let case = f.case;
            if let Err(p) = guard(|| case(&mut cx, k, &mut rng)) {
                cx.encoder_panic(&p, "unguarded part of the case".into());
            }
        }
        None => rep.inconclusive(&format!("unknown format {name}")),
    }
}
