//! C11, family E — the fabric table over its whole index range.
//!
//! The device histories of `c11.rs` never hold more than two fabrics, so they never leave
//! the low fabric indices. Here the fabric table is driven through the same public calls the
//! cluster handlers make (`Fabrics::add` / `Fabrics::remove` for AddNOC / RemoveFabric,
//! `FabricPersist::store|remove` + `run` for the commit), for histories in which more fabrics
//! come and go over the node's life than the table holds at once - local fabric indices then
//! grow beyond the table capacity - with ACL entries added to committed fabrics in between.
//!
//! Oracle (same as rule A): every prefix of the KV operation log is a crash point; a node
//! started from it holds, per fabric index, the record as of the last acknowledged operation
//! whose writes are all in the prefix, or as of the next one. At the end: read-back equality.

use core::num::NonZeroU8;
use std::collections::BTreeMap;
use std::panic::{catch_unwind, AssertUnwindSafe};

use serde_json::json;

use rs_matter::acl::{AclEntry, AuthMode};
use rs_matter::dm::Privilege;
use rs_matter::fabric::{FabricPersist, MAX_FABRICS};
use rs_matter::tlv::{TLVTag, ToTLV};
use rs_matter::utils::storage::WriteBuf;
use rs_matter::Matter;

use crate::report::Report;
use crate::sim::kv::{KvMap, SimKv};
use crate::sim::node::{self, FabricCa};
use crate::sim::rng::{subseed, Fnv, Rng};

#[derive(Clone, Debug)]
pub enum Op {
    /// AddNOC + CommissioningComplete of a new fabric
    Add,
    /// RemoveFabric of the `n`-th (mod count) fabric present
    Remove(u8),
    /// ACL entry added to the `n`-th fabric present, committed at once (no fail-safe)
    AddAcl(u8),
}

type Table = BTreeMap<u8, Vec<u8>>;

fn table_of(m: &Matter<'_>) -> Table {
    let mut t = Table::new();
    m.with_state(|s| {
        for f in s.fabrics.iter() {
            let mut buf = vec![0u8; 8192];
            let mut wb = WriteBuf::new(&mut buf);
            if f.to_tlv(&TLVTag::Anonymous, &mut wb).is_ok() {
                t.insert(f.fab_idx().get(), wb.as_slice().to_vec());
            }
        }
    });
    t
}

fn restart(map: &KvMap) -> Result<Table, String> {
    let map = map.clone();
    catch_unwind(AssertUnwindSafe(move || {
        let m = node::new_matter();
        let kv = SimKv::from_map(map, false);
        match m.startup(m.kv(kv)) {
            Ok(()) => Ok(table_of(&m)),
            Err(e) => Err(format!("startup failed: {:?}", e.code())),
        }
    }))
    .unwrap_or_else(|p| Err(format!("startup panicked: {}", crate::util::panic_msg(&p))))
}

fn describe(t: &Table) -> String {
    format!("{:?}", t.iter().map(|(k, v)| (*k, v.len(), Fnv::of(v) & 0xffff)).collect::<Vec<_>>())
}

pub fn gen_ops(rng: &mut Rng) -> Vec<Op> {
    let mut ops = Vec::new();
    let mut present = 0usize;
    // fill up (sometimes completely), then churn
    let fill = if rng.chance(2, 3) { MAX_FABRICS } else { 2 + rng.usize(MAX_FABRICS - 1) };
    for _ in 0..fill.min(MAX_FABRICS) {
        ops.push(Op::Add);
        present += 1;
    }
    let churn = 3 + rng.usize(8);
    for _ in 0..churn {
        match rng.below(10) {
            0..=3 if present > 0 => {
                ops.push(Op::Remove(rng.below(8) as u8));
                present -= 1;
            }
            4..=7 if present < MAX_FABRICS => {
                ops.push(Op::Add);
                present += 1;
            }
            _ if present > 0 => ops.push(Op::AddAcl(rng.below(8) as u8)),
            _ => {
                ops.push(Op::Add);
                present += 1;
            }
        }
    }
    ops
}

/// Runs one history; returns the largest fabric index that was in use.
pub fn run_one(rep: &mut Report, seed: u64, replay: serde_json::Value) {
    let mut rng = Rng::new(subseed(seed, &[0xE]));
    let ops = gen_ops(&mut rng);
    let crypto = node::crypto(rng.fork());
    let m = node::new_matter();
    let kv = SimKv::new();
    if m.startup(m.kv(kv.clone())).is_err() {
        rep.inconclusive("E-startup-of-empty-store-failed");
        return;
    }

    // (KV operations done when the op was acknowledged, table then)
    let mut acked: Vec<(usize, Table)> = vec![(kv.mut_count(), table_of(&m))];
    let mut log: Vec<String> = Vec::new();
    let mut next_fabric_id = 1u64;
    let mut max_idx = 0u8;

    for op in &ops {
        let present: Vec<u8> = m.with_state(|s| s.fabrics.iter().map(|f| f.fab_idx().get()).collect());
        let mut persist = FabricPersist::new(m.kv(kv.clone()));
        let done: Result<String, String> = match op {
            Op::Add => {
                let fid = next_fabric_id;
                next_fabric_id += 1;
                let ca = match FabricCa::new(&crypto, &mut rng, fid, fid % 2 == 0) {
                    Ok(ca) => ca,
                    Err(_) => {
                        rep.inconclusive("E-setup-failed(certificate generator)");
                        return;
                    }
                };
                let creds = match ca.mint(&crypto, 0x1000 + fid, &[]) {
                    Ok(c) => c,
                    Err(_) => {
                        rep.inconclusive("E-setup-failed(certificate generator)");
                        return;
                    }
                };
                match ca.install(&m, &crypto, &creds, 0x0001_0000_0000_0001 + fid) {
                    Ok(idx) => m.with_state(|s| {
                        let f = s.fabrics.get(idx).ok_or("fabric vanished")?;
                        persist.store(f).map_err(|e| format!("persist.store {:?}", e.code()))?;
                        Ok(format!("Add -> index {}", idx.get()))
                    }),
                    Err(e) => {
                        // refused (e.g. table full): no effect expected
                        Ok(format!("Add refused {:?}", e.code()))
                    }
                }
            }
            Op::Remove(n) => {
                if present.is_empty() {
                    continue;
                }
                let idx = NonZeroU8::new(present[*n as usize % present.len()]).unwrap();
                m.with_state(|s| {
                    s.fabrics.remove(idx).map_err(|e| format!("remove {:?}", e.code()))?;
                    persist.remove(idx).map_err(|e| format!("persist.remove {:?}", e.code()))?;
                    Ok(format!("Remove index {}", idx.get()))
                })
            }
            Op::AddAcl(n) => {
                if present.is_empty() {
                    continue;
                }
                let idx = NonZeroU8::new(present[*n as usize % present.len()]).unwrap();
                let subject = 0x7000 + rng.below(1000);
                m.with_state(|s| {
                    let mut e = AclEntry::new(None, Privilege::VIEW, AuthMode::Case);
                    let _ = e.add_subject(subject);
                    let f = s.fabrics.get_mut(idx).ok_or("fabric vanished")?;
                    match f.acl_add(e) {
                        Ok(_) => {
                            persist.store(f).map_err(|e| format!("persist.store {:?}", e.code()))?;
                            Ok(format!("AddAcl index {}", idx.get()))
                        }
                        Err(e) => Ok(format!("AddAcl refused {:?}", e.code())),
                    }
                })
            }
        };
        let what = match done {
            Ok(w) => w,
            Err(e) => {
                rep.inconclusive(&format!("E-operation-failed({})", e.split(' ').next().unwrap_or("")));
                return;
            }
        };
        if persist.run().is_err() {
            rep.inconclusive("E-persist-run-failed");
            return;
        }
        log.push(what);
        let t = table_of(&m);
        max_idx = max_idx.max(t.keys().copied().max().unwrap_or(0));
        acked.push((kv.mut_count(), t));
    }

    rep.count("E-histories");
    rep.count_n("E-operations", ops.len() as u64);
    if max_idx as usize > MAX_FABRICS {
        rep.count("E-histories-with-index-beyond-table-capacity");
    }
    let mut f = Fnv::new();
    f.add(format!("{:?}", ops).as_bytes());
    rep.distinct.insert(f.0);

    // ---- crash at every KV operation ----
    let total = kv.mut_count();
    for k in 0..=total {
        let snap = kv.snapshot(k);
        rep.count("E-crash-points-checked");
        let restarted = match restart(&snap) {
            Ok(t) => t,
            Err(e) => {
                rep.violation(
                    "A-crash-points",
                    "C11/E/restart-failed-at-crash-point",
                    format!("restart from the store as of KV operation {} failed ({}); history {:?}", k, e, log),
                    replay.clone(),
                );
                continue;
            }
        };
        // last acknowledged state whose writes are all <= k, and the next one
        let i = acked.iter().rposition(|(n, _)| *n <= k).unwrap_or(0);
        let a = &acked[i].1;
        let b = acked.get(i + 1).map(|x| &x.1).unwrap_or(a);
        let mut idxs: Vec<u8> = a.keys().chain(b.keys()).chain(restarted.keys()).copied().collect();
        idxs.sort_unstable();
        idxs.dedup();
        for idx in idxs {
            let r = restarted.get(&idx);
            if r == a.get(&idx) || r == b.get(&idx) {
                continue;
            }
            let class = match (r.is_some(), a.get(&idx).is_some() || b.get(&idx).is_some()) {
                (false, true) => "committed-fabric-missing",
                (true, false) => "removed-fabric-present",
                _ => "fabric-record-differs",
            };
            let range = if idx as usize > MAX_FABRICS { "index-beyond-table-capacity" } else { "index-within-table-capacity" };
            rep.violation(
                "A-crash-points",
                &format!("C11/E/{}/{}", class, range),
                format!(
                    "crash after KV operation {} of {}: a restart holds for fabric index {} [{}] but the acknowledged history says [{}] (or, with the operation in progress, [{}]); restarted table {}; history {:?}",
                    k, total, idx,
                    r.map(|v| format!("{} bytes", v.len())).unwrap_or("nothing".into()),
                    a.get(&idx).map(|v| format!("{} bytes", v.len())).unwrap_or("nothing".into()),
                    b.get(&idx).map(|v| format!("{} bytes", v.len())).unwrap_or("nothing".into()),
                    describe(&restarted), log
                ),
                replay.clone(),
            );
            break;
        }
    }

    // ---- read-back at the end ----
    rep.count("E-readback-checked");
    match restart(&kv.map()) {
        Ok(t) if t == table_of(&m) => {}
        Ok(t) => rep.violation(
            "B-read-back",
            &format!(
                "C11/E/read-back-differs/{}",
                if max_idx as usize > MAX_FABRICS { "index-beyond-table-capacity" } else { "index-within-table-capacity" }
            ),
            format!("live table {} but a restart from the final store gives {}; history {:?}", describe(&table_of(&m)), describe(&t), log),
            replay.clone(),
        ),
        Err(e) => rep.violation(
            "B-read-back",
            "C11/E/restart-failed-at-end",
            format!("restart from the final store failed ({}); history {:?}", e, log),
            replay.clone(),
        ),
    }
    if rep.samples.len() < 2 {
        rep.sample(json!({"family": "E", "history": log, "kv_ops": total, "max_index": max_idx}));
    }
}
