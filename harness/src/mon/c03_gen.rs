//! C03 Part 1 generators: the harness-side key ring (what the legitimate peers know),
//! original datagrams over all header shapes, and their mutants.

use rs_matter::crypto::Crypto;
use rs_matter::transport::MAX_RX_PAYLOAD_SIZE;

use crate::sim::rng::Rng;

use super::c03_codec::{encode, flip, gen_payload_len, region, HdrParams, Key, TAG_LEN};

pub const R_NODE: u64 = 0x0000_0000_0000_2002;
pub const S_NODE: u64 = 0x0000_0000_0000_1001;
pub const S2_NODE: u64 = 0x0000_0000_0000_1003;
pub const OTHER_NODE: u64 = 0x0000_0000_0000_7777;

/// Group ids: G[0] -> key set 1, G[1] -> key set 2, G[2] -> key set 1, G[3] not mapped on R.
pub const GROUP_IDS: [u16; 4] = [0x0101, 0x0102, 0x0103, 0x0104];
pub const KEY_SET_IDS: [u16; 2] = [0x0011, 0x0022];
/// Max application payload an honest group sender can emit (TX buffer bound).
pub const MAX_GROUP_PAYLOAD: usize = 1178;

/// One unicast secure session as seen by R (receiver).
#[derive(Clone, Debug)]
pub struct UniSess {
    pub name: &'static str,
    pub pase: bool,
    /// R's local session id = what the sender puts into the header.
    pub local_sid: u16,
    pub peer_sid: u16,
    /// R's decrypt key = the sender's encrypt key.
    pub rx_key: Key,
    /// R's encrypt key (the opposite direction).
    pub tx_key: Key,
    /// The sender's node id (nonce), 0 for PASE.
    pub peer_node: u64,
    pub local_node: u64,
    pub internal_id: u32,
    pub next_ctr: u32,
}

#[derive(Clone, Debug)]
pub struct GroupKey {
    /// 0 or 1: index into KEY_SET_IDS
    pub key_set: usize,
    pub op_key: Key,
    pub sid: u16,
}

#[derive(Clone, Debug)]
pub struct Keyring {
    pub uni: Vec<UniSess>,
    pub gk: Vec<GroupKey>,
    /// next group data counter per source (S_NODE, S2_NODE)
    pub group_ctr: [u32; 2],
    /// Scenario variant: session B's local session id equals the group session id of gk[2]
    pub sid_collision: bool,
}

#[derive(Clone, Debug, PartialEq, Eq)]
pub enum Target {
    Uni(usize),
    /// key index into `gk`, source index (0 = S_NODE, 1 = S2_NODE)
    Group { key: usize, src: usize },
}

/// Is the control (authentic original) required to be delivered?
#[derive(Clone, Debug, PartialEq, Eq)]
pub enum Expect {
    /// A shape an honest peer of that session emits: must be delivered exactly once, identical.
    Delivered,
    /// The statement leaves it open (exotic but authentic shape): recorded, not judged -
    /// except that, if delivered, it must be identical.
    Any(&'static str),
    /// Authentic under a key the receiver holds, but addressed to a group that is not mapped
    /// to that key ("encrypted for another session"): must not be handed to any exchange.
    Rejected(&'static str),
}

#[derive(Clone, Debug)]
pub struct Orig {
    pub target: Target,
    pub hp: HdrParams,
    pub payload: Vec<u8>,
    pub key: Key,
    pub nonce_node: u64,
    pub expect: Expect,
    pub exhaustive: bool,
    /// Responder behaviour for the control: 0 drop, 1 explicit ack, 2 echo reply
    pub behaviour: u8,
}

impl Orig {
    pub fn mode(&self, kr: &Keyring) -> &'static str {
        match &self.target {
            Target::Uni(i) => {
                if kr.uni[*i].pase {
                    "pase"
                } else {
                    "case"
                }
            }
            Target::Group { .. } => "group",
        }
    }
}

#[derive(Clone, Debug)]
pub struct Mutant {
    pub class: String,
    pub bytes: Vec<u8>,
    /// bucket of the touched position (for distinct accounting)
    pub bucket: u32,
    /// Must this mutant be rejected? (false = statement leaves it open: observed, not judged)
    pub judged: bool,
}

fn fresh_exch_id(rng: &mut Rng) -> u16 {
    1 + rng.below(0xfffe) as u16
}

/// Generate the next original for this node. Mutates the key ring's counters (so that
/// every authentic original carries a counter its session has never seen).
pub fn gen_orig(rng: &mut Rng, kr: &mut Keyring, force_i0: Option<(usize, u16)>) -> Orig {
    let force_i0_exch = force_i0.map(|f| f.1);
    let exhaustive = rng.chance(1, 40);
    let group = force_i0_exch.is_none() && rng.chance(3, 10);
    let max_payload = if group { MAX_GROUP_PAYLOAD } else { MAX_RX_PAYLOAD_SIZE };
    let plen = if exhaustive { rng.usize(65) } else { gen_payload_len(rng, max_payload) };
    let payload = rng.bytes(plen);
    // proto id: never Secure Channel (0) so that no transport-level opcode semantics apply
    let proto_id = if rng.chance(1, 4) { 1 + rng.below(4) as u16 } else { 0x0100 + rng.below(0xfe00) as u16 };
    let opcode = rng.u32() as u8;
    let ack = if rng.chance(1, 3) { Some(rng.u32()) } else { None };
    let vendor = if rng.chance(1, 4) { Some(1 + rng.below(0xfff0) as u16) } else { None };
    let reliable = rng.bool();
    let behaviour = rng.below(3) as u8;

    if group {
        let key = rng.usize(kr.gk.len());
        let src = if kr.sid_collision { 1 } else { rng.usize(2) };
        let key = if kr.sid_collision && rng.bool() { 2 } else { key };
        let src_node = [S_NODE, S2_NODE][src];
        let gk = kr.gk[key].clone();
        let ctr = kr.group_ctr[src];
        kr.group_ctr[src] = ctr.wrapping_add(1 + rng.below(3) as u32);
        // destinations mapped to this key set
        let mapped: Vec<u16> = if gk.key_set == 0 { vec![GROUP_IDS[0], GROUP_IDS[2]] } else { vec![GROUP_IDS[1]] };
        let mut expect = Expect::Delivered;
        // groups the receiver knows but maps to the OTHER key set
        let mapped_elsewhere: Vec<u16> = if gk.key_set == 0 { vec![GROUP_IDS[1]] } else { vec![GROUP_IDS[0], GROUP_IDS[2]] };
        let (dst_uni, dst_grp, control) = match rng.below(13) {
            10 => {
                expect = Expect::Rejected("unmapped-group/control");
                (None, Some(GROUP_IDS[3]), true)
            }
            11 => {
                let c = rng.bool();
                expect = Expect::Rejected(if c { "group-mapped-to-other-key-set/control" } else { "group-mapped-to-other-key-set/data" });
                (None, Some(*rng.pick(&mapped_elsewhere)), c)
            }
            12 => {
                expect = Expect::Rejected("unmapped-group/data");
                (None, Some(GROUP_IDS[3]), false)
            }
            0 | 1 => (Some(R_NODE), None, true),
            2 => {
                expect = Expect::Any("group-key-unicast-dst-data-message");
                (Some(R_NODE), None, false)
            }
            3 => {
                expect = Expect::Any("group-dst-control-message");
                (None, Some(*rng.pick(&mapped)), true)
            }
            4 => {
                expect = Expect::Any("group-not-mapped-on-receiver");
                (None, Some(GROUP_IDS[3]), false)
            }
            _ => (None, Some(*rng.pick(&mapped)), false),
        };
        // Group DATA messages never request an ack (no MRP on groups). NOTE: an authentic
        // group data message WITH the R flag wedges the unchanged tree (the transport spins
        // forever in `process_dropped_exchanges`, see the `group-reliable-wedge` probe in
        // c03.rs), which a monitor process cannot survive - so it is not generated here.
        // (The same happens for group CONTROL messages: the standalone ack is not an MCSP
        // opcode, so `pre_send` treats it as group data.)
        let reliable = false;
        let _ = control;
        let hp = HdrParams {
            sess_id: gk.sid,
            ctr,
            group: true,
            control,
            src: Some(src_node),
            dst_uni,
            dst_grp,
            exch_id: fresh_exch_id(rng),
            proto_id,
            opcode,
            initiator: true,
            reliable,
            ack,
            vendor,
        };
        return Orig {
            target: Target::Group { key, src },
            hp,
            payload,
            key: gk.op_key,
            nonce_node: src_node,
            expect,
            exhaustive,
            behaviour: if behaviour == 2 { 0 } else { behaviour },
        };
    }

    let i = match force_i0 {
        Some((i, _)) => i,
        None => rng.usize(kr.uni.len()),
    };
    let s = &mut kr.uni[i];
    let ctr = s.next_ctr;
    s.next_ctr += 1 + rng.below(3) as u32;
    let mut expect = Expect::Delivered;
    let src = match rng.below(8) {
        0 | 1 | 2 => Some(s.peer_node),
        3 if force_i0_exch.is_none() => {
            expect = Expect::Any("unicast-src-field-names-another-node");
            Some(OTHER_NODE)
        }
        _ => None,
    };
    let (dst_uni, dst_grp) = match rng.below(10) {
        0 | 1 | 2 => (Some(s.local_node), None),
        3 if force_i0_exch.is_none() => {
            expect = Expect::Any("unicast-dst-field-names-another-node");
            (Some(OTHER_NODE), None)
        }
        4 if force_i0_exch.is_none() => {
            expect = Expect::Any("unicast-session-with-group-dst-field");
            (None, Some(GROUP_IDS[0]))
        }
        _ => (None, None),
    };
    let control = if force_i0_exch.is_none() && rng.chance(1, 12) {
        expect = Expect::Any("unicast-session-with-control-flag");
        true
    } else {
        false
    };
    let hp = HdrParams {
        sess_id: s.local_sid,
        ctr,
        group: false,
        control,
        src,
        dst_uni,
        dst_grp,
        exch_id: force_i0_exch.unwrap_or_else(|| fresh_exch_id(rng)),
        proto_id,
        opcode,
        initiator: force_i0_exch.is_none(),
        reliable,
        ack,
        vendor,
    };
    Orig {
        target: Target::Uni(i),
        hp,
        payload,
        key: s.rx_key,
        nonce_node: s.peer_node,
        expect,
        exhaustive,
        behaviour,
    }
}

fn bucket_of(off: usize, total: usize) -> u32 {
    if off < 32 {
        off as u32
    } else if off + 20 >= total {
        100 + (total - off) as u32
    } else {
        40 + (off * 16 / total.max(1)) as u32
    }
}

/// All mutants of `d` for this original.
pub fn gen_mutants<C: Crypto>(crypto: &C, rng: &mut Rng, kr: &Keyring, o: &Orig, d: &[u8], thorough: bool) -> Vec<Mutant> {
    let mut out: Vec<Mutant> = Vec::new();
    let total = d.len();
    let pl = o.hp.plain_len();
    let has_src = o.hp.src.is_some();
    let mut push = |class: String, bytes: Vec<u8>, bucket: u32, judged: bool| {
        if bytes != d {
            out.push(Mutant { class, bytes, bucket, judged });
        }
    };

    // ---- single-bit flips
    let mut bits: Vec<usize> = Vec::new();
    if o.exhaustive && total <= 128 {
        bits.extend(0..total * 8);
    } else {
        let (nh, nb) = if thorough { (10, 8) } else { (7, 5) };
        for _ in 0..nh {
            bits.push(rng.usize(pl * 8));
        }
        // always the security-flags byte and the flags byte somewhere
        bits.push(rng.usize(8));
        bits.push(24 + rng.usize(8));
        for _ in 0..nb {
            bits.push(pl * 8 + rng.usize((total - pl) * 8));
        }
        for _ in 0..3 {
            bits.push((total - TAG_LEN) * 8 + rng.usize(TAG_LEN * 8));
        }
        // first and last body bytes (encrypted protocol header / last payload byte)
        bits.push(pl * 8 + rng.usize(8));
        bits.sort();
        bits.dedup();
    }
    for b in bits {
        let off = b / 8;
        push(format!("bitflip/{}", region(off, pl, total, has_src)), flip(d, b), bucket_of(off, total) * 8 + (b % 8) as u32, true);
    }

    // ---- truncation
    let mut cuts: Vec<usize> = Vec::new();
    if o.exhaustive && total <= 128 {
        cuts.extend(0..total);
    } else {
        let cand = [0usize, 1, 3, 7, 8, pl.saturating_sub(1), pl, pl + 1, pl + 5, pl + 6, pl + TAG_LEN - 1, pl + TAG_LEN, pl + TAG_LEN + 1, total - TAG_LEN - 1, total - TAG_LEN, total - TAG_LEN + 1, total - 2, total - 1];
        for _ in 0..4 {
            cuts.push(*rng.pick(&cand));
        }
        cuts.push(rng.usize(total));
        cuts.sort();
        cuts.dedup();
    }
    for c in cuts {
        if c < total {
            let cls = if c <= pl {
                "truncate/in-plain-header"
            } else if c + TAG_LEN > total {
                "truncate/in-tag"
            } else {
                "truncate/in-body"
            };
            push(cls.into(), d[..c].to_vec(), 1000 + bucket_of(c, total), true);
        }
    }

    // ---- extension
    let mut exts: Vec<usize> = Vec::new();
    if o.exhaustive && total <= 128 {
        exts.extend(1..=32);
    } else {
        exts.push(*rng.pick(&[1usize, 2, 15, 16, 17, 32]));
        exts.push(1 + rng.usize(32));
        exts.dedup();
    }
    for e in exts {
        let mut m = d.to_vec();
        match rng.below(3) {
            0 => m.extend(std::iter::repeat(0u8).take(e)),
            1 => m.extend(rng.bytes(e)),
            _ => {
                // repeat the tail (e.g. a second copy of the tag)
                let tail: Vec<u8> = d[total - e.min(total)..].to_vec();
                m.extend(tail);
            }
        }
        push("extend".into(), m, 2000 + e as u32, true);
    }

    // ---- transplants / re-keying (built from the original's parameters)
    let enc = |hp: &HdrParams, key: &Key, node: u64| encode(crypto, hp, key, node, &o.payload).ok();
    let rewrite_sid = |sid: u16| {
        let mut m = d.to_vec();
        m[1..3].copy_from_slice(&sid.to_le_bytes());
        m
    };
    match &o.target {
        Target::Uni(i) => {
            let s = &kr.uni[*i];
            for (j, other) in kr.uni.iter().enumerate() {
                if j != *i {
                    // D of this session re-addressed to another session (no re-encryption)
                    push(format!("transplant/sessid-rewritten-to-{}", if other.pase { "pase" } else { "case" }), rewrite_sid(other.local_sid), 3000 + j as u32, true);
                    // header of this session, key of the other session
                    if let Some(m) = enc(&o.hp, &other.rx_key, o.nonce_node) {
                        push("rekey/other-session-key".into(), m, 3010 + j as u32, true);
                    }
                    // completely authentic for the *other* session's key and sender, but
                    // carrying this session's id
                    if let Some(m) = enc(&o.hp, &other.rx_key, other.peer_node) {
                        push("rekey/other-session-key-and-sender".into(), m, 3020 + j as u32, true);
                    }
                }
            }
            push("transplant/sessid-rewritten-to-group".into(), rewrite_sid(kr.gk[0].sid), 3030, true);
            push("transplant/sessid-rewritten-to-peer-sid".into(), rewrite_sid(s.peer_sid), 3031, s.peer_sid != s.local_sid);
            let unknown = loop {
                let x = 1 + rng.below(0xffff) as u16;
                if !kr.uni.iter().any(|u| u.local_sid == x) && !kr.gk.iter().any(|g| g.sid == x) {
                    break x;
                }
            };
            push("transplant/sessid-rewritten-to-unknown".into(), rewrite_sid(unknown), 3032, true);
            // opposite direction: what R itself would encrypt (R's enc key, R's node id in the nonce)
            if let Some(m) = enc(&o.hp, &s.tx_key, s.local_node) {
                push("reflect/own-enc-key-own-node".into(), m, 3040, true);
            }
            if let Some(m) = enc(&o.hp, &s.tx_key, s.peer_node) {
                push("reflect/own-enc-key-peer-node".into(), m, 3041, true);
            }
            let mut hp2 = o.hp.clone();
            hp2.sess_id = s.peer_sid;
            if s.peer_sid != s.local_sid {
                if let Some(m) = enc(&hp2, &s.tx_key, s.local_node) {
                    // exactly what R would send to its peer, sent back to R
                    push("reflect/verbatim-as-sent-by-receiver".into(), m, 3042, true);
                }
            }
            // right key and the nonce of the session's real peer, but the header names ANOTHER
            // source node (the header is authenticated as written): a message claiming a sender
            // identity other than the one the session was established with
            for (n, other) in [S2_NODE, OTHER_NODE, s.local_node].into_iter().enumerate() {
                if other != s.peer_node {
                    let mut hp3 = o.hp.clone();
                    hp3.src = Some(other);
                    if let Some(m) = enc(&hp3, &s.rx_key, s.peer_node) {
                        push("identity/header-names-another-source-node".into(), m, 3055 + n as u32, true);
                    }
                }
            }
            // right key, nonce built from another source node id
            for (n, other) in [S2_NODE, OTHER_NODE, 0u64, s.local_node].into_iter().enumerate() {
                if other != s.peer_node {
                    if let Some(m) = enc(&o.hp, &s.rx_key, other) {
                        push("rekey/nonce-from-another-source-node".into(), m, 3050 + n as u32, true);
                    }
                }
            }
            let mut rk = s.rx_key;
            rk[rng.usize(16)] ^= 1 << rng.usize(8);
            if let Some(m) = enc(&o.hp, &rk, o.nonce_node) {
                push("rekey/one-key-bit-off".into(), m, 3060, true);
            }
            let mut rk = [0u8; 16];
            rk.copy_from_slice(&rng.bytes(16));
            if let Some(m) = enc(&o.hp, &rk, o.nonce_node) {
                push("rekey/random-key".into(), m, 3061, true);
            }
            // group key of R's fabric used on a unicast session id
            if let Some(m) = enc(&o.hp, &kr.gk[0].op_key, o.nonce_node) {
                push("rekey/group-key-on-unicast-session".into(), m, 3062, true);
            }
            // counter rewritten (nonce changes), ciphertext kept
            let mut m = d.to_vec();
            m[4..8].copy_from_slice(&o.hp.ctr.wrapping_add(1 + rng.below(4) as u32).to_le_bytes());
            push("transplant/ctr-rewritten".into(), m, 3070, true);
        }
        Target::Group { key, src } => {
            let gk = &kr.gk[*key];
            let src_node = [S_NODE, S2_NODE][*src];
            let other_src = [S2_NODE, S_NODE][*src];
            for (j, og) in kr.gk.iter().enumerate() {
                if j != *key && og.op_key != gk.op_key {
                    // header (incl. session id) of this key, encrypted with another group key
                    if let Some(m) = enc(&o.hp, &og.op_key, src_node) {
                        push("group/other-group-key".into(), m, 4000 + j as u32, true);
                    }
                    // this key, but the session id of another group key (authenticated)
                    let mut hp2 = o.hp.clone();
                    hp2.sess_id = og.sid;
                    if og.sid != gk.sid {
                        if let Some(m) = enc(&hp2, &gk.op_key, src_node) {
                            push("group/other-groups-session-id".into(), m, 4010 + j as u32, true);
                        }
                        push("group/sessid-rewritten-to-other-group".into(), rewrite_sid(og.sid), 4020 + j as u32, true);
                    }
                }
            }
            for u in kr.uni.iter() {
                if u.local_sid != gk.sid {
                    push("group/sessid-rewritten-to-unicast".into(), rewrite_sid(u.local_sid), 4030, true);
                }
                if let Some(m) = enc(&o.hp, &u.rx_key, src_node) {
                    // If the group session id happens to equal this unicast session's id and the
                    // claimed source is that session's peer, this datagram IS authentic for the
                    // unicast session (its key, its sender, full header as AAD) - only its
                    // session-type bit is odd. The statement leaves that open: not judged.
                    let authentic_for_unicast = u.local_sid == gk.sid && u.peer_node == src_node;
                    // (delivered only sometimes: once accepted it consumes the unicast
                    // session's receive window and the node has to be rebuilt)
                    if !authentic_for_unicast || rng.chance(1, 3) {
                        push("group/unicast-session-key".into(), m, 4031, !authentic_for_unicast);
                    }
                }
            }
            // nonce from another source node than the header claims
            if let Some(m) = enc(&o.hp, &gk.op_key, other_src) {
                push("group/nonce-from-another-source-node".into(), m, 4040, true);
            }
            // source node id field edited in place
            let mut m = d.to_vec();
            m[8..16].copy_from_slice(&other_src.to_le_bytes());
            push("group/srcfield-rewritten".into(), m, 4041, true);
            if o.hp.dst_grp.is_some() {
                let cur = o.hp.dst_grp.unwrap();
                for g in GROUP_IDS {
                    if g != cur {
                        let mut m = d.to_vec();
                        m[16..18].copy_from_slice(&g.to_le_bytes());
                        push("group/groupid-rewritten".into(), m, 4050, true);
                    }
                }
            }
            let mut rk = gk.op_key;
            rk[rng.usize(16)] ^= 1 << rng.usize(8);
            if let Some(m) = enc(&o.hp, &rk, src_node) {
                push("rekey/one-key-bit-off".into(), m, 3060, true);
            }
            let mut m = d.to_vec();
            m[4..8].copy_from_slice(&o.hp.ctr.wrapping_add(1 + rng.below(4) as u32).to_le_bytes());
            push("transplant/ctr-rewritten".into(), m, 3070, true);
        }
    }

    // ---- source / destination field added / removed / changed without re-encryption
    {
        let mut m = d.to_vec();
        if has_src {
            m.drain(8..16);
            m[0] &= !0x04;
            push("srcfield/removed".into(), m, 5000, true);
            let mut m = d.to_vec();
            m[8..16].copy_from_slice(&OTHER_NODE.to_le_bytes());
            push("srcfield/changed".into(), m, 5001, true);
        } else {
            let ins = o.nonce_node.to_le_bytes();
            for (i, b) in ins.iter().enumerate() {
                m.insert(8 + i, *b);
            }
            m[0] |= 0x04;
            push("srcfield/added".into(), m, 5002, true);
        }
        let dst_off = if has_src { 16 } else { 8 };
        let mut m = d.to_vec();
        if o.hp.dst_uni.is_some() {
            m.drain(dst_off..dst_off + 8);
            m[0] &= !0x03;
            push("dstfield/removed".into(), m, 5010, true);
        } else if o.hp.dst_grp.is_none() {
            let ins = R_NODE.to_le_bytes();
            for (i, b) in ins.iter().enumerate() {
                m.insert(dst_off + i, *b);
            }
            m[0] |= 0x01;
            push("dstfield/added".into(), m, 5011, true);
        }
    }

    out
}
