//! C09 — reliable messaging delivers each message at most once, in order, and reports the truth.
//!
//! Two real `Matter` nodes A (client, initiates 1..4 concurrent exchanges) and B (a `Responder`
//! with a harness `ExchangeHandler`) over the simulated network. Sessions: mirrored CASE and
//! PASE sessions with keys known to the harness, plus real unsecured sessions (opened by a
//! message that carries the `PBKDFParamRequest` opcode - the only way the transport lets an
//! unsecured session come into being - but a harness payload, answered by the harness handler).
//!
//! Every application message carries a unique id (exchange tag, direction, sequence number).
//! Both applications log call / return / app-receive events in virtual time; the network tap
//! gives every datagram with the adversary's decision; the oracle decrypts the datagrams with
//! the known session keys and checks the rules O1..O7 (written from the property statement)
//! over the recorded history:
//!  O1 at most once / sending order at the application (n-th reception <-> n-th send call);
//!  O2 `send` Ok => a copy was delivered and an acknowledgement of it had reached the sender;
//!  O3 every `send` returns within the back-off budget (+1 s), no hang;
//!  O4 a send without acknowledgement ends in an error (code recorded, TxTimeout expected);
//!  O5 a transmission and an acknowledgement delivered in time => `send` returned Ok;
//!  O6 retransmissions never earlier than the no-jitter back-off;
//!  O7 a delivered duplicate of an R-flagged message is acknowledged again.
//! Adversary policies: benign, independent random loss/dup/delay per direction, and the
//! scripted ones in `Policy` (drop acks, drop first n copies, deliver after give-up, duplicate
//! after ack incl. "stale duplicate", delay beyond k retransmissions, stale ack carrier).
//! The last path component of a violation signature is a root-cause *class* computed from
//! wire facts (how many counters behind the newest delivered one a datagram arrived); it
//! never decides a verdict. `RSMV_TRACE=1` dumps the merged history, `RSMV_DEBUG=1` prints
//! the replay handle of some recorded-only observations.

use core::future::Future;
use core::pin::Pin;
use core::task::{Context, Poll};
use std::cell::RefCell;
use std::collections::{BTreeMap, HashMap};
use std::panic::{catch_unwind, AssertUnwindSafe};
use std::rc::Rc;

use serde_json::{json, Value};

use rs_matter::crypto::{CanonAeadKey, Crypto};
use rs_matter::dm::clusters::basic_info::BasicInfoConfig;
use rs_matter::dm::devices::test::{TEST_DEV_ATT, TEST_DEV_COMM, TEST_DEV_DET};
use rs_matter::error::{Error, ErrorCode};
use rs_matter::respond::{ExchangeHandler, Responder};
use rs_matter::sc::{OpCode, PROTO_ID_SECURE_CHANNEL};
use rs_matter::transport::exchange::{Exchange, MessageMeta};
use rs_matter::transport::packet::PacketHdr;
use rs_matter::transport::session::SessionMode;
use rs_matter::utils::storage::ParseBuf;
use rs_matter::Matter;

use crate::report::{Ctx, Report};
use crate::sim::exec::{self, BoxFut, Limits, RunStatus};
use crate::sim::net::{Delivery, NetHub, RandomPolicy, BASE_LATENCY_US};
use crate::sim::node;
use crate::sim::rng::{subseed, Fnv, Rng};
use crate::sim::wire;
use crate::sim::{clock, tapmon};

// ---------------------------------------------------------------------------------------------
// Independent model of the protocol's timing (Matter core spec, MRP back-off equation):
//   interval(i) = base * MARGIN * BASE^max(0, i - THRESHOLD) * (1 + rand(0..1) * JITTER)
// ---------------------------------------------------------------------------------------------

const MRP_MARGIN: f64 = 1.1;
const MRP_BACKOFF_BASE: f64 = 1.6;
const MRP_JITTER: f64 = 0.25;
const MRP_THRESHOLD: u32 = 1;
/// Transmissions the spec's MRP_MAX_TRANSMISSIONS allows (recorded, not judged).
const SPEC_MAX_TRANSMISSIONS: u32 = 5;
/// Transmissions used for the *hard* "must have returned by" bound: rs-matter documents its
/// reading of MRP_MAX_TRANSMISSIONS as "5 retransmissions after the first" (6 copies). The
/// statement only demands failure "once the protocol's retransmission budget is used up", so
/// the hard bound uses the larger reading and the smaller one is reported as a note.
const HARD_MAX_TRANSMISSIONS: u32 = 6;
const SLACK_US: u64 = 1_000_000;
/// The applications of this workload hold the (single) RX buffer of a node for at most this
/// long (maximum virtual sleep between two calls, see `nap`); an acknowledgement that reaches a
/// node's inbox later than this before the give-up is "too late to count" for O5.
const APP_HOLD_MARGIN_US: u64 = 600_000;
/// O7: a duplicate must be acknowledged within this time after its delivery (standalone-ack
/// timeout 200 ms + the receiver application's maximum hold time + slack).
const O7_DEADLINE_US: u64 = 3_000_000;

/// No-jitter lower bound of the i-th retransmission interval (i = 0: gap after the first copy).
fn lower_ms(base: u32, i: u32) -> f64 {
    base as f64 * MRP_MARGIN * MRP_BACKOFF_BASE.powi(i.saturating_sub(MRP_THRESHOLD) as i32)
}

/// Time budget for `n` transmissions with maximum jitter.
fn budget_us(base: u32, n: u32) -> u64 {
    let ms: f64 = (0..n).map(|i| lower_ms(base, i) * (1.0 + MRP_JITTER)).sum();
    (ms * 1000.0).ceil() as u64
}

// ---------------------------------------------------------------------------------------------
// Workload parameters
// ---------------------------------------------------------------------------------------------

pub const PROTO_HARNESS: u16 = 0xFFF1;
const OP_PING: u8 = 0x01;
const OP_PONG: u8 = 0x02;

const A_NODE: u64 = 0xA11CE;
const B_NODE: u64 = 0xB0B;

#[derive(Clone, Copy, Debug, PartialEq, Eq, Hash, PartialOrd, Ord)]
pub enum Kind {
    Case,
    Pase,
    Plain,
}

#[derive(Clone, Copy, Debug, PartialEq, Eq, Hash, PartialOrd, Ord)]
pub struct MsgId {
    pub tag: u8,
    /// 0 = A -> B (ping), 1 = B -> A (pong)
    pub dir: u8,
    pub seq: u16,
}

#[derive(Clone, Debug)]
pub struct ExchSpec {
    pub kind: Kind,
    pub rounds: u16,
    /// A calls `acknowledge()` before dropping the exchange (else just drops it).
    pub final_ack: bool,
    /// One-way stream: A sends all messages back to back, B only acknowledges (explicitly, or
    /// not at all: then the transport acknowledges the retransmission) and answers the last one.
    pub stream: bool,
}

#[derive(Clone, Debug, PartialEq)]
pub enum Policy {
    Benign,
    Random {
        a2b: (u32, u32, u32),
        b2a: (u32, u32, u32),
        max_delay_ms: u64,
    },
    /// Drop every datagram from B that carries an acknowledgement (`standalone_only`: only
    /// the standalone acks, piggy-backed ones pass).
    DropAcksFromB { standalone_only: bool },
    /// Drop the first `n` transmissions of one message.
    DropFirst { target: MsgId, n: u8 },
    /// Deliver every copy of one message only after its sender gave up.
    LateAll { target: MsgId },
    /// Deliver one message and deliver a second copy of it after the ack went back.
    DupAfterAck { target: MsgId, delay_ms: u64 },
    /// Delay the first copy of one message beyond the next `k` retransmissions of it.
    DelayBeyond { target: MsgId, k: u8 },
    /// Drop the first `n` copies of one message and every standalone ack its sender emits on
    /// that exchange, while other exchanges of the same session keep the sender's counter
    /// running: the copy that gets through is many counters old when it arrives.
    StaleCarrier { target: MsgId, n: u8 },
}

impl Policy {
    fn class(&self) -> String {
        match self {
            Policy::Benign => "benign".into(),
            Policy::Random { .. } => "random".into(),
            Policy::DropAcksFromB { standalone_only } => {
                format!("drop-acks-from-b/{}", if *standalone_only { "standalone" } else { "all" })
            }
            Policy::DropFirst { n, target } => format!("drop-first-{}/dir{}", n, target.dir),
            Policy::LateAll { target } => format!("late-all/dir{}", target.dir),
            Policy::DupAfterAck { target, .. } => format!("dup-after-ack/dir{}", target.dir),
            Policy::DelayBeyond { k, target } => format!("delay-beyond-{}/dir{}", k, target.dir),
            Policy::StaleCarrier { n, target } => format!("stale-carrier-{}/dir{}", n, target.dir),
        }
    }
}

#[derive(Clone, Debug)]
pub struct Params {
    pub seed: u64,
    pub exch: Vec<ExchSpec>,
    pub policy: Policy,
    /// Session active interval A / B hold for their peer (0 = default, i.e. 300 ms).
    pub sai_a: u32,
    pub sai_b: u32,
    pub shuffle: bool,
    /// 0 = no application sleeps, 1 = short, 2 = up to 200 ms
    pub timing: u8,
    /// Interface back-pressure: 0 = `send_to` never blocks; 1 = 15 % of the datagrams block
    /// for 50..400 ms; 2 = 30 % block for 200..1500 ms (the node's TX buffer stays occupied).
    pub stall: u8,
}

impl Params {
    fn base(&self, node: u8) -> u32 {
        let v = if node == 0 { self.sai_a } else { self.sai_b };
        if v == 0 {
            300
        } else {
            v
        }
    }
}

static DET_DEFAULT: BasicInfoConfig<'static> = TEST_DEV_DET;
static DET_150: BasicInfoConfig<'static> = BasicInfoConfig {
    sai: Some(150),
    ..TEST_DEV_DET
};
static DET_500: BasicInfoConfig<'static> = BasicInfoConfig {
    sai: Some(500),
    ..TEST_DEV_DET
};

fn det_for(sai: u32) -> &'static BasicInfoConfig<'static> {
    match sai {
        150 => &DET_150,
        500 => &DET_500,
        _ => &DET_DEFAULT,
    }
}

pub fn gen_params(rng: &mut Rng, _idx: u64) -> Params {
    let seed = rng.u64();
    let family = rng.below(100);
    let nex = 1 + rng.usize(4);
    let scripted = family >= 55;
    let mut exch: Vec<ExchSpec> = Vec::new();
    for _ in 0..nex {
        let kind = *rng.pick(&[Kind::Case, Kind::Case, Kind::Pase, Kind::Plain]);
        let rounds = if scripted {
            1 + rng.below(5) as u16
        } else {
            let hi = *rng.pick(&[2u64, 4, 8, 20]);
            rng.range(1, hi) as u16
        };
        exch.push(ExchSpec {
            kind,
            rounds,
            final_ack: rng.bool(),
            stream: rng.chance(1, 4),
        });
    }
    let pick_target = |rng: &mut Rng, exch: &[ExchSpec]| {
        let tag = rng.usize(exch.len());
        MsgId {
            tag: tag as u8,
            dir: rng.below(2) as u8,
            seq: rng.below(exch[tag].rounds as u64) as u16,
        }
    };
    let policy = if family < 10 {
        Policy::Benign
    } else if family < 55 {
        let pct = |rng: &mut Rng| *rng.pick(&[0u32, 5, 15, 30, 50]);
        Policy::Random {
            a2b: (pct(rng), pct(rng), pct(rng)),
            b2a: (pct(rng), pct(rng), pct(rng)),
            max_delay_ms: *rng.pick(&[5u64, 100, 500, 1500]),
        }
    } else {
        match rng.below(7) {
            6 => {
                // target exchange + 1..2 fast 20-round exchanges on the same secure session
                let kind = *rng.pick(&[Kind::Case, Kind::Pase]);
                exch.clear();
                exch.push(ExchSpec {
                    kind,
                    rounds: 1 + rng.below(3) as u16,
                    final_ack: rng.bool(),
                    stream: false,
                });
                for _ in 0..1 + rng.below(2) {
                    exch.push(ExchSpec {
                        kind,
                        rounds: 20,
                        final_ack: rng.bool(),
                        stream: false,
                    });
                }
                Policy::StaleCarrier {
                    target: MsgId {
                        tag: 0,
                        dir: rng.below(2) as u8,
                        seq: 0,
                    },
                    n: 2 + rng.below(2) as u8,
                }
            }
            0 => Policy::DropAcksFromB {
                standalone_only: rng.bool(),
            },
            1 | 2 => Policy::DropFirst {
                target: pick_target(rng, &exch),
                n: rng.below(7) as u8,
            },
            3 => Policy::LateAll {
                target: pick_target(rng, &exch),
            },
            4 => Policy::DupAfterAck {
                target: pick_target(rng, &exch),
                delay_ms: *rng.pick(&[2u64, 30, 150, 400, 1500]),
            },
            _ => Policy::DelayBeyond {
                target: pick_target(rng, &exch),
                k: 1 + rng.below(5) as u8,
            },
        }
    };
    let sai = |rng: &mut Rng| *rng.pick(&[0u32, 0, 0, 150, 500]);
    let mut timing = rng.below(3) as u8;
    let mut policy = policy;
    if matches!(policy, Policy::StaleCarrier { .. }) {
        timing = 0;
    }
    if let Policy::DupAfterAck { target, delay_ms } = &mut policy {
        if rng.chance(1, 3) {
            // "stale duplicate": a long fast exchange, the copy arrives many counters later
            exch[target.tag as usize].rounds = 20;
            target.seq = rng.below(3) as u16;
            *delay_ms = *rng.pick(&[25u64, 45, 80, 200]);
            timing = 0;
        }
    }
    Params {
        seed,
        exch,
        policy,
        sai_a: sai(rng),
        sai_b: sai(rng),
        shuffle: !rng.chance(1, 8),
        timing,
        stall: if rng.chance(1, 4) { 1 + rng.below(2) as u8 } else { 0 },
    }
}

fn params_json(p: &Params) -> Value {
    json!({
        "check": "C09",
        "seed": p.seed.to_string(),
        "exchanges": p.exch.iter().map(|e| format!("{:?}x{}{}", e.kind, e.rounds, format!("{}{}", if e.final_ack {"+ack"} else {""}, if e.stream {"+stream"} else {""}))).collect::<Vec<_>>(),
        "policy": format!("{:?}", p.policy),
        "sai_a": p.sai_a, "sai_b": p.sai_b, "shuffle": p.shuffle, "timing": p.timing, "stall": p.stall,
        "gen": "see gen_params; replay by (shard_seed, index)",
    })
}

// ---------------------------------------------------------------------------------------------
// Application-level event log
// ---------------------------------------------------------------------------------------------

#[derive(Clone, Debug)]
pub enum EvKind {
    Call(MsgId),
    Ret(MsgId, Result<(), ErrorCode>),
    /// Application received a harness message on the exchange it associates with `via`.
    Recv { id: MsgId, via: u8 },
    RecvBad { via: u8 },
    RecvErr { via: u8, code: ErrorCode },
    Closed { tag: u8 },
    InitFail { tag: u8, code: ErrorCode },
}

#[derive(Clone, Debug)]
pub struct Ev {
    pub t: u64,
    pub node: u8,
    pub kind: EvKind,
}

type Log = Rc<RefCell<Vec<Ev>>>;

fn log(l: &Log, node: u8, kind: EvKind) {
    l.borrow_mut().push(Ev {
        t: clock::now(),
        node,
        kind,
    });
}

const PAYLOAD_MAGIC: u8 = 0xC9;

fn make_payload(id: MsgId, last: bool, b_sleep_ms: u16, b_mode: u8, fill: usize) -> Vec<u8> {
    let mut v = vec![
        PAYLOAD_MAGIC,
        id.tag,
        id.dir,
        id.seq as u8,
        (id.seq >> 8) as u8,
        last as u8,
        b_sleep_ms as u8,
        (b_sleep_ms >> 8) as u8,
        b_mode,
    ];
    for k in 0..fill {
        v.push((k as u8) ^ id.tag.wrapping_mul(31) ^ (id.seq as u8));
    }
    v
}

struct Parsed {
    id: MsgId,
    last: bool,
    b_sleep_ms: u16,
    b_mode: u8,
}

fn parse_payload(b: &[u8]) -> Option<Parsed> {
    if b.len() < 9 || b[0] != PAYLOAD_MAGIC {
        return None;
    }
    Some(Parsed {
        id: MsgId {
            tag: b[1],
            dir: b[2],
            seq: u16::from_le_bytes([b[3], b[4]]),
        },
        last: b[5] != 0,
        b_sleep_ms: u16::from_le_bytes([b[6], b[7]]),
        b_mode: b[8],
    })
}

/// A random application-level pause (virtual time). Never longer than 200 ms.
fn nap(rng: &mut Rng, timing: u8) -> u64 {
    match timing {
        0 => 0,
        1 => {
            if rng.chance(1, 2) {
                0
            } else {
                rng.below(8)
            }
        }
        _ => match rng.below(4) {
            0 => 0,
            1 => rng.below(5),
            2 => rng.below(40),
            _ => rng.below(200),
        },
    }
}

async fn sleep_opt(ms: u64) {
    if ms > 0 {
        exec::sleep_ms(ms).await;
    }
}

// ---------------------------------------------------------------------------------------------
// B: the responder application
// ---------------------------------------------------------------------------------------------

struct BHandler {
    log: Log,
    rng: RefCell<Rng>,
    timing: u8,
}

impl ExchangeHandler for BHandler {
    async fn handle(&self, mut ex: Exchange<'_>) -> Result<(), Error> {
        let mut via: u8 = 0xff;
        let res: Result<(), Error> = async {
            loop {
                let parsed = {
                    let rx = match ex.recv().await {
                        Ok(rx) => rx,
                        Err(e) => {
                            log(&self.log, 1, EvKind::RecvErr { via, code: e.code() });
                            return Err(e);
                        }
                    };
                    parse_payload(rx.payload())
                };
                let Some(m) = parsed else {
                    log(&self.log, 1, EvKind::RecvBad { via });
                    return Ok(());
                };
                if via == 0xff {
                    via = m.id.tag;
                }
                log(&self.log, 1, EvKind::Recv { id: m.id, via });

                if m.b_mode == 1 || m.b_mode == 2 {
                    // acknowledge explicitly first, answer later (1) or not at all (2)
                    ex.acknowledge().await?;
                }
                sleep_opt(m.b_sleep_ms as u64).await;
                if m.b_mode >= 2 {
                    // one-way message: no answer (3: not even an explicit acknowledgement)
                    continue;
                }

                let rid = MsgId {
                    tag: m.id.tag,
                    dir: 1,
                    seq: m.id.seq,
                };
                let fill = self.rng.borrow_mut().usize(48);
                let payload = make_payload(rid, m.last, 0, 0, fill);
                log(&self.log, 1, EvKind::Call(rid));
                let r = ex
                    .send(MessageMeta::new(PROTO_HARNESS, OP_PONG, true), &payload)
                    .await;
                log(
                    &self.log,
                    1,
                    EvKind::Ret(rid, r.as_ref().map(|_| ()).map_err(|e| e.code())),
                );
                r?;
                if m.last {
                    return Ok(());
                }
                let z = nap(&mut self.rng.borrow_mut(), self.timing.min(1));
                sleep_opt(z).await;
            }
        }
        .await;
        drop(ex);
        log(&self.log, 1, EvKind::Closed { tag: via });
        res
    }
}

// ---------------------------------------------------------------------------------------------
// A: the client application
// ---------------------------------------------------------------------------------------------

async fn client(
    ex: Result<Exchange<'_>, Error>,
    tag: u8,
    spec: ExchSpec,
    timing: u8,
    log_: Log,
    mut rng: Rng,
) {
    let mut ex = match ex {
        Ok(ex) => ex,
        Err(e) => {
            log(&log_, 0, EvKind::InitFail { tag, code: e.code() });
            return;
        }
    };
    sleep_opt(nap(&mut rng, timing)).await;
    for seq in 0..spec.rounds {
        sleep_opt(nap(&mut rng, timing)).await;
        let id = MsgId { tag, dir: 0, seq };
        let last = seq + 1 == spec.rounds;
        let b_sleep = nap(&mut rng, timing) as u16;
        let b_mode = if spec.stream && !last {
            if rng.chance(1, 4) {
                3
            } else {
                2
            }
        } else if rng.chance(1, 4) {
            1
        } else {
            0
        };
        let payload = make_payload(id, last, b_sleep, b_mode, rng.usize(64));
        let meta = if spec.kind == Kind::Plain && seq == 0 {
            // The only messages allowed to open an unsecured session at the peer are
            // PBKDFParamRequest / CASESigma1: borrow the opcode, keep the harness payload.
            MessageMeta::new(PROTO_ID_SECURE_CHANNEL, OpCode::PBKDFParamRequest as u8, true)
        } else {
            MessageMeta::new(PROTO_HARNESS, OP_PING, true)
        };
        log(&log_, 0, EvKind::Call(id));
        let r = ex.send(meta, &payload).await;
        log(
            &log_,
            0,
            EvKind::Ret(id, r.as_ref().map(|_| ()).map_err(|e| e.code())),
        );
        if r.is_err() {
            break;
        }
        if spec.stream && !last {
            continue;
        }
        sleep_opt(nap(&mut rng, timing)).await;
        let got = match ex.recv().await {
            Ok(rx) => Ok(parse_payload(rx.payload())),
            Err(e) => Err(e.code()),
        };
        match got {
            Ok(Some(m)) => log(&log_, 0, EvKind::Recv { id: m.id, via: tag }),
            Ok(None) => {
                log(&log_, 0, EvKind::RecvBad { via: tag });
                break;
            }
            Err(code) => {
                log(&log_, 0, EvKind::RecvErr { via: tag, code });
                break;
            }
        }
    }
    if spec.final_ack {
        let _ = ex.acknowledge().await;
    }
    drop(ex);
    log(&log_, 0, EvKind::Closed { tag });
}

/// Polls all children (seeded shuffled order) until all have completed.
struct JoinAll<'a> {
    children: Vec<Option<BoxFut<'a>>>,
    rng: Rng,
    order: Vec<usize>,
    shuffle: bool,
}

impl<'a> JoinAll<'a> {
    fn new(seed: u64, shuffle: bool, children: Vec<BoxFut<'a>>) -> Self {
        let order = (0..children.len()).collect();
        Self {
            children: children.into_iter().map(Some).collect(),
            rng: Rng::new(seed),
            order,
            shuffle,
        }
    }
}

impl Future for JoinAll<'_> {
    type Output = ();
    fn poll(self: Pin<&mut Self>, cx: &mut Context<'_>) -> Poll<()> {
        let this = self.get_mut();
        if this.shuffle {
            this.rng.shuffle(&mut this.order);
        }
        let mut pending = false;
        for k in 0..this.order.len() {
            let i = this.order[k];
            if let Some(f) = this.children[i].as_mut() {
                match f.as_mut().poll(cx) {
                    Poll::Ready(()) => this.children[i] = None,
                    Poll::Pending => pending = true,
                }
            }
        }
        if pending {
            Poll::Pending
        } else {
            Poll::Ready(())
        }
    }
}

// ---------------------------------------------------------------------------------------------
// Wire decoding (oracle + adversary): plain header by the harness's own decoder, the
// encrypted part by rs-matter's public `PacketHdr::decode_remaining` with the known keys.
// ---------------------------------------------------------------------------------------------

#[derive(Clone, Debug)]
pub struct SessKeys {
    pub kind: Kind,
    pub a_sid: u16,
    pub b_sid: u16,
    pub k_a2b: [u8; 16],
    pub k_b2a: [u8; 16],
    pub a_node: u64,
    pub b_node: u64,
}

#[derive(Clone, Debug)]
pub struct Wire {
    /// Session discriminator: secure = B's local session id; unsecured = A's ephemeral node id.
    pub sess: u64,
    pub kind: Kind,
    pub ctr: u32,
    pub r: bool,
    pub i: bool,
    pub ack: Option<u32>,
    pub exch_id: u16,
    pub proto: u16,
    pub opcode: u8,
    pub standalone_ack: bool,
    pub id: Option<MsgId>,
}

pub struct Decoder<C> {
    crypto: C,
    sess: Vec<SessKeys>,
}

impl<C: Crypto> Decoder<C> {
    pub fn decode(&self, src: usize, bytes: &[u8]) -> Option<Wire> {
        let info = wire::peek(bytes)?;
        if src > 1 {
            return None;
        }
        if info.session_id == 0 {
            let ef = info.exch_flags?;
            let sess = if src == 0 { info.src_node? } else { info.dst_node? };
            let proto = info.proto_id?;
            let opcode = info.opcode?;
            let payload = bytes.get(info.payload_off?..)?;
            Some(Wire {
                sess,
                kind: Kind::Plain,
                ctr: info.ctr,
                r: ef & wire::EXCH_R != 0,
                i: ef & wire::EXCH_I != 0,
                ack: info.ack_ctr,
                exch_id: info.exch_id?,
                proto,
                opcode,
                standalone_ack: proto == 0 && opcode == 0x10,
                id: parse_payload(payload).map(|p| p.id),
            })
        } else {
            let sk = self.sess.iter().find(|s| {
                if src == 0 {
                    s.b_sid == info.session_id
                } else {
                    s.a_sid == info.session_id
                }
            })?;
            let (key, nonce_node) = if src == 0 {
                (&sk.k_a2b, sk.a_node)
            } else {
                (&sk.k_b2a, sk.b_node)
            };
            let mut buf = bytes.to_vec();
            let mut hdr = PacketHdr::new();
            let mut pb = ParseBuf::new(&mut buf[..]);
            hdr.decode_plain_hdr(&mut pb).ok()?;
            let mut k = CanonAeadKey::new();
            k.load_from_array(key);
            hdr.decode_remaining(&self.crypto, Some(k.reference()), nonce_node, &mut pb)
                .ok()?;
            let id = parse_payload(pb.as_slice()).map(|p| p.id);
            Some(Wire {
                sess: sk.b_sid as u64,
                kind: sk.kind,
                ctr: info.ctr,
                r: hdr.proto.is_reliable(),
                i: hdr.proto.is_initiator(),
                ack: hdr.proto.get_ack(),
                exch_id: hdr.proto.exch_id,
                proto: hdr.proto.proto_id,
                opcode: hdr.proto.proto_opcode,
                standalone_ack: hdr.proto.proto_id == 0 && hdr.proto.proto_opcode == 0x10,
                id,
            })
        }
    }
}

/// One datagram put on the wire, as the oracle sees it.
#[derive(Clone, Debug)]
pub struct Tx {
    pub t: u64,
    pub src: usize,
    pub w: Option<Wire>,
    /// Absolute delivery times into the peer's inbox (empty = dropped by the adversary).
    pub deliv: Vec<u64>,
    pub hash: u64,
    pub len: usize,
}

impl Tx {
    fn class(&self) -> u8 {
        if self.deliv.is_empty() {
            b'x' // drop
        } else if self.deliv.len() > 1 {
            b'2' // duplicate
        } else if self.deliv[0] > self.t + BASE_LATENCY_US {
            b'd' // delay
        } else {
            b'.' // deliver
        }
    }
}

#[derive(Clone, Debug, Default)]
pub struct Outcome {
    pub events: Vec<Ev>,
    pub txs: Vec<Tx>,
    pub status: Option<RunStatus>,
    pub end_time: u64,
    pub sched_hash: u64,
    pub panic: Option<String>,
    pub tap_violations: Vec<String>,
    pub setup_error: Option<String>,
    /// (A has CASE session, A has PASE session, B has CASE, B has PASE) at the end
    pub sessions_alive: [bool; 4],
    pub polls: u64,
}

// ---------------------------------------------------------------------------------------------
// One history
// ---------------------------------------------------------------------------------------------

pub fn run_case(p: &Params) -> Outcome {
    clock::reset(1_000_000);
    let mut out = Outcome::default();
    let mut rng = Rng::new(p.seed);
    let crypto_a = node::crypto(rng.fork());
    let crypto_b = node::crypto(rng.fork());
    let crypto_o = node::crypto(rng.fork());
    let crypto_adv = node::crypto(rng.fork());

    let ma: Box<Matter<'static>> = Box::new(Matter::new(det_for(p.sai_a), TEST_DEV_COMM, &TEST_DEV_ATT, 5540));
    let mb: Box<Matter<'static>> = Box::new(Matter::new(det_for(p.sai_b), TEST_DEV_COMM, &TEST_DEV_ATT, 5540));
    for m in [&ma, &mb] {
        // fabric index 1 must exist for a CASE session bound to it (as the e2e runner does)
        let r = m.with_state(|s| s.fabrics.add_with_post_init(|_| Ok(())).map(|_| ()));
        if let Err(e) = r {
            out.setup_error = Some(format!("fabric: {:?}", e.code()));
            return out;
        }
    }

    let hub = NetHub::new(rng.u64(), 2);
    if p.stall > 0 {
        let level = p.stall;
        hub.set_stall(Some(Box::new(move |_src, _bytes, rng| {
            if level == 1 {
                if rng.chance(15, 100) { rng.range(50, 400) } else { 0 }
            } else if rng.chance(30, 100) {
                rng.range(200, 1500)
            } else {
                0
            }
        })));
    }
    STALLED.with(|c| c.set(p.stall > 0));
    let addr_a = hub.addr(0);
    let addr_b = hub.addr(1);

    // Mirrored secure sessions
    let mut keys: Vec<SessKeys> = Vec::new();
    let mut sid_case_a = None;
    let mut sid_pase_a = None;
    for kind in [Kind::Case, Kind::Pase] {
        if !p.exch.iter().any(|e| e.kind == kind) {
            continue;
        }
        let mut k1 = [0u8; 16];
        let mut k2 = [0u8; 16];
        rand_core::RngCore::fill_bytes(&mut rng, &mut k1);
        rand_core::RngCore::fill_bytes(&mut rng, &mut k2);
        let (a_sid, b_sid, an, bn, mode_a, mode_b) = match kind {
            Kind::Case => (
                0x1001u16,
                0x2001u16,
                A_NODE,
                B_NODE,
                SessionMode::Case {
                    fab_idx: core::num::NonZeroU8::new(1).unwrap(),
                    cat_ids: Default::default(),
                },
                SessionMode::Case {
                    fab_idx: core::num::NonZeroU8::new(1).unwrap(),
                    cat_ids: Default::default(),
                },
            ),
            _ => (
                0x1002u16,
                0x2002u16,
                0u64,
                0u64,
                SessionMode::Pase { fab_idx: 0 },
                SessionMode::Pase { fab_idx: 0 },
            ),
        };
        match node::mirrored_sessions(
            &ma, &mb, &crypto_o, addr_a, addr_b, an, bn, a_sid, b_sid, mode_a, mode_b, &k1, &k2,
        ) {
            Ok((ida, _idb)) => {
                if kind == Kind::Case {
                    sid_case_a = Some(ida);
                } else {
                    sid_pase_a = Some(ida);
                }
                keys.push(SessKeys {
                    kind,
                    a_sid,
                    b_sid,
                    k_a2b: k1,
                    k_b2a: k2,
                    a_node: an,
                    b_node: bn,
                });
            }
            Err(e) => {
                out.setup_error = Some(format!("mirrored_sessions {:?}: {:?}", kind, e.code()));
                return out;
            }
        }
    }

    // Adversary
    {
        let dec = Decoder {
            crypto: crypto_adv,
            sess: keys.clone(),
        };
        let policy = p.policy.clone();
        let base_a = p.base(0);
        let base_b = p.base(1);
        let mut copies: HashMap<(usize, u64, u32), u32> = HashMap::new();
        let mut target_exch: Option<(u64, u16)> = None;
        hub.set_adversary(Some(Box::new(move |d, rng| {
            let normal = || vec![Delivery::normal()];
            if matches!(policy, Policy::Benign) {
                return normal();
            }
            if let Policy::Random {
                a2b,
                b2a,
                max_delay_ms,
            } = &policy
            {
                let (dr, du, de) = if d.src == 0 { *a2b } else { *b2a };
                return RandomPolicy {
                    drop_pct: dr,
                    dup_pct: du,
                    delay_pct: de,
                    max_delay_ms: *max_delay_ms,
                }
                .decide(rng);
            }
            let Some(w) = dec.decode(d.src, &d.bytes) else {
                return normal();
            };
            let nth = {
                let c = copies.entry((d.src, w.sess, w.ctr)).or_insert(0);
                *c += 1;
                *c - 1
            };
            match &policy {
                Policy::DropAcksFromB { standalone_only } => {
                    if d.src == 1
                        && if *standalone_only {
                            w.standalone_ack
                        } else {
                            w.ack.is_some()
                        }
                    {
                        vec![]
                    } else {
                        normal()
                    }
                }
                Policy::DropFirst { target, n } if w.id == Some(*target) => {
                    if nth < *n as u32 {
                        vec![]
                    } else {
                        normal()
                    }
                }
                Policy::LateAll { target } if w.id == Some(*target) => {
                    let base = if target.dir == 0 { base_a } else { base_b };
                    let late = budget_us(base, HARD_MAX_TRANSMISSIONS) / 1000 + 700;
                    vec![Delivery::after_ms(late)]
                }
                Policy::DupAfterAck { target, delay_ms } if w.id == Some(*target) && nth == 0 => {
                    vec![Delivery::normal(), Delivery::after_ms(*delay_ms)]
                }
                Policy::StaleCarrier { target, n } => {
                    if w.id == Some(*target) {
                        target_exch = Some((w.sess, w.exch_id));
                        if nth < *n as u32 {
                            vec![]
                        } else {
                            normal()
                        }
                    } else if w.standalone_ack
                        && d.src == target.dir as usize
                        && target_exch == Some((w.sess, w.exch_id))
                    {
                        vec![]
                    } else {
                        normal()
                    }
                }
                Policy::DelayBeyond { target, k } if w.id == Some(*target) && nth == 0 => {
                    let base = if target.dir == 0 { base_a } else { base_b };
                    let ms: f64 = (0..*k as u32).map(|i| lower_ms(base, i) * 1.15).sum();
                    vec![Delivery::after_ms(ms as u64 + 20)]
                }
                _ => normal(),
            }
        })));
    }

    let limits = Limits {
        max_polls: 6_000_000,
        horizon: clock::now() + 900 * clock::TICKS_PER_SEC,
        shuffle: p.shuffle,
    };

    let log_: Log = Rc::new(RefCell::new(Vec::new()));

    let run = {
        let ma = &*ma;
        let mb = &*mb;
        let crypto_a = &crypto_a;
        let crypto_b = &crypto_b;
        let hub = hub.clone();
        let seed = p.seed;
        let shuffle = p.shuffle;
        let timing = p.timing;
        let specs = p.exch.clone();
        let log_a = log_.clone();
        let log_b = log_.clone();
        let mut exec_rng = Rng::new(subseed(seed, &[7]));
        let mut app_rng = Rng::new(subseed(seed, &[8]));
        let b_rng = Rng::new(subseed(seed, &[9]));
        catch_unwind(AssertUnwindSafe(move || {
            let script: BoxFut = Box::pin(async move {
                let mut clients: Vec<BoxFut> = Vec::new();
                for (tag, spec) in specs.iter().enumerate() {
                    let ex = match spec.kind {
                        Kind::Case => match sid_case_a {
                            Some(sid) => Exchange::initiate_for_session(ma, crypto_a, sid),
                            None => Err(ErrorCode::NoSession.into()),
                        },
                        Kind::Pase => match sid_pase_a {
                            Some(sid) => Exchange::initiate_for_session(ma, crypto_a, sid),
                            None => Err(ErrorCode::NoSession.into()),
                        },
                        Kind::Plain => Exchange::initiate_plaintext(ma, crypto_a, addr_b).await,
                    };
                    clients.push(Box::pin(client(
                        ex,
                        tag as u8,
                        spec.clone(),
                        timing,
                        log_a.clone(),
                        app_rng.fork(),
                    )));
                }
                JoinAll::new(subseed(seed, &[13]), shuffle, clients).await;
                // let B's last sends finish (or give up), final acks and late copies play out
                exec::sleep_ms(18_000).await;
            });
            let node_a: BoxFut = {
                let ep = hub.endpoint(0);
                Box::pin(async move {
                    let t: BoxFut = Box::pin(async {
                        let _ = ma.run(crypto_a, ep.clone(), ep.clone(), ep.clone()).await;
                    });
                    exec::ShuffleSelect::new(subseed(seed, &[11]), shuffle, vec![script, t]).await
                })
            };
            let node_b: BoxFut = {
                let ep = hub.endpoint(1);
                Box::pin(async move {
                    let handler = BHandler {
                        log: log_b,
                        rng: RefCell::new(b_rng),
                        timing,
                    };
                    let responder = Responder::new("c09-b", handler, mb, 0);
                    let t: BoxFut = Box::pin(async {
                        let _ = mb.run(crypto_b, ep.clone(), ep.clone(), ep.clone()).await;
                    });
                    let r: BoxFut = Box::pin(async {
                        let _ = responder.run::<6>().await;
                    });
                    exec::ShuffleSelect::new(subseed(seed, &[12]), shuffle, vec![t, r]).await
                })
            };
            exec::run(&mut exec_rng, limits, vec![node_a, node_b])
        }))
    };

    hub.set_adversary(None);

    match run {
        Ok(o) => {
            out.status = Some(o.status);
            out.sched_hash = o.sched_hash;
            out.end_time = o.end_time;
            out.polls = o.polls;
        }
        Err(e) => {
            out.panic = Some(crate::util::panic_msg(&e));
            out.end_time = clock::now();
        }
    }
    out.events = log_.borrow().clone();

    // Sessions at the end
    if out.panic.is_none() {
        let sa = node::snapshot(&ma);
        let sb = node::snapshot(&mb);
        out.sessions_alive = [
            sa.iter().any(|s| s.local_sess_id == 0x1001 && s.encrypted),
            sa.iter().any(|s| s.local_sess_id == 0x1002 && s.encrypted),
            sb.iter().any(|s| s.local_sess_id == 0x2001 && s.encrypted),
            sb.iter().any(|s| s.local_sess_id == 0x2002 && s.encrypted),
        ];
    }

    // Wire history
    let dec = Decoder {
        crypto: crypto_o,
        sess: keys,
    };
    let tap = tapmon::TapMonitor::new();
    hub.with_tap(|t| {
        for ev in t {
            if ev.injected {
                continue;
            }
            tap.observe(ev.dgram.src, &ev.dgram.bytes);
            let w = catch_unwind(AssertUnwindSafe(|| dec.decode(ev.dgram.src, &ev.dgram.bytes)))
                .unwrap_or(None);
            out.txs.push(Tx {
                t: ev.dgram.t,
                src: ev.dgram.src,
                w,
                deliv: ev.deliveries.iter().map(|(d, _)| ev.dgram.t + *d).collect(),
                hash: Fnv::of(&ev.dgram.bytes),
                len: ev.dgram.bytes.len(),
            });
        }
    });
    out.tap_violations = tap.violations();

    if std::env::var("RSMV_TRACE").is_ok() {
        dump_trace(p, &out);
    }
    out
}

fn dump_trace(p: &Params, o: &Outcome) {
    eprintln!("=== C09 history: {:?}", p);
    eprintln!(
        "=== status {:?} end {} polls {} panic {:?} setup {:?}",
        o.status, o.end_time, o.polls, o.panic, o.setup_error
    );
    let mut lines: Vec<(u64, u8, String)> = Vec::new();
    for e in &o.events {
        lines.push((
            e.t,
            1,
            format!("APP  {} {:?}", if e.node == 0 { "A" } else { "B" }, e.kind),
        ));
    }
    for tx in &o.txs {
        let d = match &tx.w {
            Some(w) => format!(
                "{:?} sess={:x} ctr={} {}{}{} ack={:?} exch={:04x} proto={:04x}/{:02x}{} id={:?}",
                w.kind,
                w.sess,
                w.ctr,
                if w.i { "I" } else { "-" },
                if w.r { "R" } else { "-" },
                if w.ack.is_some() { "A" } else { "-" },
                w.ack,
                w.exch_id,
                w.proto,
                w.opcode,
                if w.standalone_ack { " SACK" } else { "" },
                w.id
            ),
            None => "<undecodable>".to_string(),
        };
        lines.push((
            tx.t,
            0,
            format!(
                "WIRE {} len={:>3} {} deliveries@{:?} [{}]",
                if tx.src == 0 { "A>B" } else { "B>A" },
                tx.len,
                d,
                tx.deliv,
                tx.class() as char
            ),
        ));
    }
    lines.sort_by_key(|l| (l.0, l.1));
    for (t, _, s) in lines {
        eprintln!("t={:>10} {}", t, s);
    }
}

// ---------------------------------------------------------------------------------------------
// The offline checker
// ---------------------------------------------------------------------------------------------

struct SendRec {
    node: u8,
    id: MsgId,
    /// n-th call with this id (0 unless the application answered a replayed request)
    nth: usize,
    t_call: u64,
    ret: Option<(u64, Result<(), ErrorCode>)>,
}

pub struct Verdict {
    pub retrans: bool,
    pub giveups: u32,
    pub dups_delivered: u32,
    pub app_recv: u32,
    pub interfered: bool,
    pub trace_hash: u64,
}

fn kind_of(p: &Params, tag: u8) -> String {
    p.exch
        .get(tag as usize)
        .map(|e| format!("{:?}", e.kind))
        .unwrap_or_else(|| "?".into())
}

pub fn judge(rep: &mut Report, p: &Params, o: &Outcome, replay: Value) -> Verdict {
    let mut v = Verdict {
        retrans: false,
        giveups: 0,
        dups_delivered: 0,
        app_recv: 0,
        interfered: false,
        trace_hash: 0,
    };
    if let Some(e) = &o.setup_error {
        rep.inconclusive(&format!("setup-failed:{}", e));
        return v;
    }
    if let Some(msg) = &o.panic {
        viol(rep, 
            "no-panic",
            &format!("C09/panic/{}", crate::util::panic_class(msg)),
            format!("panic while running the history: {} params {:?}", msg, p),
            replay.clone(),
        );
        return v;
    }
    let status = o.status.unwrap_or(RunStatus::Stalled);
    rep.count(&format!("run-status:{:?}", status));
    rep.count(&format!("policy:{}", p.policy.class().split('/').next().unwrap_or("")));

    // ---- application history -------------------------------------------------------------
    let mut sends: Vec<SendRec> = Vec::new();
    let mut send_idx: HashMap<(u8, MsgId), Vec<usize>> = HashMap::new();
    let mut closed: HashMap<(u8, u8), u64> = HashMap::new();
    let mut recv_seq: BTreeMap<(u8, u8), Vec<(u64, MsgId)>> = BTreeMap::new();
    for e in &o.events {
        match &e.kind {
            EvKind::Call(id) => {
                // The same id is sent a second time only by B answering a replayed request
                // (an O1 violation by itself): the n-th call maps to the n-th counter seen.
                let l = send_idx.entry((e.node, *id)).or_default();
                if !l.is_empty() {
                    rep.note("same-answer-sent-again(by B, for a request its application received twice)");
                }
                l.push(sends.len());
                sends.push(SendRec {
                    node: e.node,
                    id: *id,
                    nth: l.len() - 1,
                    t_call: e.t,
                    ret: None,
                });
            }
            EvKind::Ret(id, r) => {
                if let Some(l) = send_idx.get(&(e.node, *id)) {
                    if let Some(i) = l.iter().find(|i| sends[**i].ret.is_none()) {
                        sends[*i].ret = Some((e.t, *r));
                    }
                }
            }
            EvKind::Recv { id, via } => {
                v.app_recv += 1;
                rep.count("app_messages_received");
                recv_seq.entry((e.node, *via)).or_default().push((e.t, *id));
            }
            EvKind::RecvBad { .. } => rep.note("app-received-non-harness-payload"),
            EvKind::RecvErr { code, .. } => rep.count(&format!(
                "recv-error:{}:{:?}",
                if e.node == 0 { "A" } else { "B" },
                code
            )),
            EvKind::Closed { tag } => {
                closed.entry((e.node, *tag)).or_insert(e.t);
            }
            EvKind::InitFail { code, .. } => rep.count(&format!("exchange-init-failed:{:?}", code)),
        }
    }

    // ---- wire history ----------------------------------------------------------------------
    // transmissions of one message: same (sender, session, counter)
    let mut by_msg: BTreeMap<(usize, u64, u32), Vec<usize>> = BTreeMap::new();
    // datagrams of `acker` acknowledging counter `ctr` of the peer on `sess`
    let mut acks_for: HashMap<(usize, u64, u32), Vec<usize>> = HashMap::new();
    // first datagram carrying an application message id
    let mut msg_ctr: HashMap<(usize, MsgId), Vec<(u64, u32)>> = HashMap::new();
    for (k, tx) in o.txs.iter().enumerate() {
        match tx.class() {
            b'x' => rep.count("wire:dropped"),
            b'2' => rep.count("wire:duplicated"),
            b'd' => rep.count("wire:delayed"),
            _ => rep.count("wire:delivered"),
        }
        if tx.class() != b'.' {
            v.interfered = true;
        }
        let Some(w) = &tx.w else {
            rep.note("undecodable-datagram");
            continue;
        };
        by_msg.entry((tx.src, w.sess, w.ctr)).or_default().push(k);
        if let Some(a) = w.ack {
            acks_for.entry((tx.src, w.sess, a)).or_default().push(k);
        }
        if let Some(id) = w.id {
            let l = msg_ctr.entry((tx.src, id)).or_default();
            if !l.contains(&(w.sess, w.ctr)) {
                l.push((w.sess, w.ctr));
            }
        }
        if w.standalone_ack {
            rep.count("wire:standalone-acks");
        }
    }
    rep.count_n("datagrams_observed", o.txs.len() as u64);

    // Classification aid (never decides a verdict): how far behind the newest counter already
    // delivered on its session a datagram is when it is delivered. The receive window of the
    // implementation under test covers 16 counters (the specification's covers 32); a
    // delivery further behind is rejected as a replay on a secure session and re-bases the
    // window on an unsecured one.
    let mut arrivals: HashMap<(usize, u64), Vec<(u64, usize, u32)>> = HashMap::new();
    for (k, tx) in o.txs.iter().enumerate() {
        if let Some(w) = &tx.w {
            for d in &tx.deliv {
                arrivals.entry((tx.src, w.sess)).or_default().push((*d, k, w.ctr));
            }
        }
    }
    for l in arrivals.values_mut() {
        l.sort();
    }
    // datagram `k` (counter `ctr`) delivered at `at`: distance to the newest counter of the same
    // sender and session delivered before it (same instant: the one sent earlier comes first)
    let staleness = |src: usize, sess: u64, ctr: u32, at: u64, k: usize| -> u32 {
        arrivals
            .get(&(src, sess))
            .map(|l| {
                l.iter()
                    .take_while(|(d, kk, _)| (*d, *kk) < (at, k))
                    .map(|(_, _, c)| c.saturating_sub(ctr))
                    .max()
                    .unwrap_or(0)
            })
            .unwrap_or(0)
    };
    // (sender, unsecured session) -> time of the first delivery more than 16 counters stale
    let mut rewound: HashMap<(usize, u64), u64> = HashMap::new();
    for (k, tx) in o.txs.iter().enumerate() {
        if let Some(w) = &tx.w {
            if w.kind == Kind::Plain {
                for d in &tx.deliv {
                    if staleness(tx.src, w.sess, w.ctr, *d, k) > 16 {
                        let e = rewound.entry((tx.src, w.sess)).or_insert(*d);
                        if *d < *e {
                            *e = *d;
                        }
                    }
                }
            }
        }
    }
    if !rewound.is_empty() {
        rep.count("histories_with_unsecured_window_rebased");
    }
    // Root-cause class for signatures. A re-based unsecured window lets old datagrams in as
    // new ones; the replayed message then occupies the receiving node's single RX buffer, so
    // every exchange of that node (any session) can suffer: the class is per receiving node.
    let window_class = |src: usize, _sess: u64, kind: Kind, at: u64| -> &'static str {
        if rewound.iter().any(|((s, _), t)| *s == src && *t <= at) {
            "after-unsecured-window-rebased-at-receiver"
        } else if kind == Kind::Plain {
            "unsecured-window-intact"
        } else {
            "secure"
        }
    };

    // ---- O1: at most once and in sending order ---------------------------------------------
    // The n-th reception of an id corresponds to the n-th send call with that id (an id is
    // sent twice only by an application that itself received the request twice - which is
    // flagged where it happens); more receptions than send calls = the messaging layer
    // delivered one message twice. Order = order of the send calls.
    let mut seen_global: BTreeMap<(u8, MsgId), usize> = BTreeMap::new();
    for ((node, via), seq) in &recv_seq {
        rep.count("O1-checked");
        let expect_dir = if *node == 1 { 0 } else { 1 };
        let sender = 1 - *node as usize;
        let mut last: Option<(u64, MsgId)> = None; // (call time, id) of the previous reception
        for (t, id) in seq {
            if id.tag != *via || id.dir != expect_dir {
                // a message of another exchange: routing is C10's subject
                rep.note("app-received-message-of-another-exchange");
                continue;
            }
            let occ = {
                let c = seen_global.entry((*node, *id)).or_insert(0);
                *c += 1;
                *c - 1
            };
            let calls = send_idx.get(&(sender as u8, *id)).cloned().unwrap_or_default();
            let call_t = calls.get(occ).map(|i| sends[*i].t_call);
            let repeat = call_t.is_none();
            let out_of_order = matches!((call_t, last), (Some(c), Some((l, _))) if c <= l);
            if repeat || out_of_order {
                let what = if repeat { "repeat" } else { "out-of-order" };
                // How many newer counters of that sender had already reached this node?
                let behind = msg_ctr.get(&(sender, *id)).and_then(|l| l.first()).map(|(sess, ctr)| {
                    o.txs
                        .iter()
                        .filter(|tx| tx.src == sender && tx.deliv.iter().any(|d| *d < *t))
                        .filter_map(|tx| tx.w.as_ref())
                        .filter(|w| w.sess == *sess && w.ctr > *ctr)
                        .map(|w| w.ctr - *ctr)
                        .max()
                        .unwrap_or(0)
                });
                // (only B, the responder, can have an exchange re-created by an incoming copy)
                let reopened = *node == 1 && matches!(closed.get(&(*node, *via)), Some(tc) if *tc <= *t);
                let wclass = match p.exch.get(id.tag as usize) {
                    Some(e) => window_class(sender, 0, e.kind, *t),
                    _ => "unknown",
                };
                let behind_class = format!(
                    "{}/{}",
                    if reopened {
                        "exchange-reopened-by-the-copy"
                    } else {
                        "on-the-open-exchange"
                    },
                    wclass
                );
                viol(rep, 
                    "O1-at-most-once-in-order",
                    &format!("C09/O1/{}/{}/dir{}/{}", what, kind_of(p, id.tag), id.dir, behind_class),
                    format!(
                        "application of node {} received {:?} at t={} for the {}. time while its peer sent it {} time(s) (its counter is {:?} behind the newest counter already delivered on that session); previous reception {:?}; receptions on this exchange {:?}; the statement requires at most once and sending order; policy {:?}; params {:?}",
                        if *node == 0 { "A" } else { "B" }, id, t, occ + 1, calls.len(), behind, last,
                        seq.iter().map(|(_, i)| i.seq).collect::<Vec<_>>(), p.policy, p
                    ),
                    replay.clone(),
                );
            }
            if let Some(c) = call_t {
                if !out_of_order {
                    last = Some((c, *id));
                }
            }
        }
    }

    // ---- per send call: O2..O6 -------------------------------------------------------------
    let mut trace = Fnv::new();
    for s in &sends {
        let base = p.base(s.node);
        let who = if s.node == 0 { "A" } else { "B" };
        let kind = kind_of(p, s.id.tag);
        let src = s.node as usize;
        let peer = 1 - src;
        let key = msg_ctr.get(&(src, s.id)).and_then(|l| l.get(s.nth)).copied();
        let txs: Vec<usize> = key
            .and_then(|(sess, ctr)| by_msg.get(&(src, sess, ctr)).cloned())
            .unwrap_or_default();
        let acks: Vec<usize> = key
            .and_then(|(sess, ctr)| acks_for.get(&(peer, sess, ctr)).cloned())
            .unwrap_or_default();
        let first_delivery = txs
            .iter()
            .flat_map(|k| o.txs[*k].deliv.iter().copied())
            .min();
        let first_ack_delivery = acks
            .iter()
            .flat_map(|k| o.txs[*k].deliv.iter().copied())
            .min();
        let ntx = txs.len() as u32;
        rep.count(&format!("transmissions-per-message={}", ntx.min(9)));
        if ntx > 1 {
            v.retrans = true;
            rep.count("messages_retransmitted");
        }
        if ntx > SPEC_MAX_TRANSMISSIONS {
            rep.note(&format!(
                "message-transmitted-{}-times(spec MRP_MAX_TRANSMISSIONS=5; rs-matter: 1+5 retransmissions)",
                ntx.min(99)
            ));
        }
        // byte-identical copies?
        if txs.windows(2).any(|w| o.txs[w[0]].hash != o.txs[w[1]].hash) {
            rep.note("retransmission-not-byte-identical");
            if std::env::var("RSMV_DEBUG").is_ok() {
                eprintln!("DEBUG not-byte-identical: replay {} id {:?} key {:?}", replay, s.id, key);
            }
        }

        // abstract trace
        trace.add(&[s.node, s.id.tag, s.id.dir, s.id.seq as u8]);
        for k in &txs {
            trace.add(&[o.txs[*k].class()]);
        }
        trace.add(&[match &s.ret {
            Some((_, Ok(()))) => b'K',
            Some((_, Err(_))) => b'E',
            None => b'?',
        }]);

        let hard = budget_us(base, HARD_MAX_TRANSMISSIONS) + SLACK_US;
        let spec = budget_us(base, SPEC_MAX_TRANSMISSIONS) + SLACK_US;

        let Some((t_ret, res)) = s.ret else {
            // O3: hang?
            rep.count("O3-checked");
            let waited = o.end_time.saturating_sub(s.t_call);
            if waited > 2 * hard {
                viol(rep, 
                    "O3-bounded",
                    &format!("C09/O3/hang/{}/{}", who, kind),
                    format!(
                        "send of {:?} by {} called at t={} had not returned at t={} ({} ms later; budget for {} transmissions incl. max jitter + 1 s = {} ms); {} copies on the wire; run status {:?}; policy {:?}; params {:?}",
                        s.id, who, s.t_call, o.end_time, waited / 1000, HARD_MAX_TRANSMISSIONS, hard / 1000, ntx, status, p.policy, p
                    ),
                    replay.clone(),
                );
            } else {
                rep.count("send-unfinished-at-end-of-history");
            }
            continue;
        };
        let elapsed = t_ret - s.t_call;
        rep.count(&format!(
            "send-result:{}:{}",
            who,
            match res {
                Ok(()) => "Ok".to_string(),
                Err(c) => format!("{:?}", c),
            }
        ));

        // O3: bounded
        rep.count("O3-checked");
        if elapsed > hard {
            viol(rep, 
                "O3-bounded",
                &format!("C09/O3/late-return/{}/{}/{}", who, kind, if res.is_ok() { "ok" } else { "err" }),
                format!(
                    "send of {:?} by {} returned {:?} after {} ms; budget (base {} ms, {} transmissions, max jitter) + 1 s = {} ms; {} copies on the wire; policy {:?}; params {:?}",
                    s.id, who, res, elapsed / 1000, base, HARD_MAX_TRANSMISSIONS, hard / 1000, ntx, p.policy, p
                ),
                replay.clone(),
            );
        } else if elapsed > spec {
            rep.note("send-returned-later-than-the-5-transmission-budget(+1s)");
        }

        match res {
            Ok(()) => {
                // O2: truthful success
                rep.count("O2-checked");
                let delivered_before = matches!(first_delivery, Some(t) if t <= t_ret);
                let acked_before = matches!(first_ack_delivery, Some(t) if t <= t_ret);
                if !delivered_before {
                    viol(rep, 
                        "O2-truthful-success",
                        &format!("C09/O2/ok-but-never-delivered/{}/{}", who, kind),
                        format!(
                            "send of {:?} by {} returned Ok at t={} but no copy of its datagram had been handed to the peer by then (copies {}, first delivery {:?}); policy {:?}; params {:?}",
                            s.id, who, t_ret, ntx, first_delivery, p.policy, p
                        ),
                        replay.clone(),
                    );
                } else if !acked_before {
                    viol(rep, 
                        "O2-truthful-success",
                        &format!("C09/O2/ok-without-acknowledgement/{}/{}", who, kind),
                        format!(
                            "send of {:?} by {} returned Ok at t={} although no acknowledgement of its counter {:?} had reached the sender by then (first ack delivery {:?}, {} acks on the wire): success was reported without knowing that the peer's stack received the message; policy {:?}; params {:?}",
                            s.id, who, t_ret, key, first_ack_delivery, acks.len(), p.policy, p
                        ),
                        replay.clone(),
                    );
                } else {
                    rep.count("O2-ok-with-delivery-and-ack");
                    // Not judged (the statement is about at-most-once, not at-least-once):
                    // acknowledged, yet the peer application never saw the message although it
                    // kept its exchange open for more than a second after the delivery.
                    let seen = recv_seq
                        .get(&(peer as u8, s.id.tag))
                        .map(|l| l.iter().any(|(_, i)| *i == s.id))
                        .unwrap_or(false);
                    let peer_closed = closed.get(&(peer as u8, s.id.tag)).copied().unwrap_or(o.end_time);
                    if !seen && peer_closed > first_delivery.unwrap_or(0) + 1_000_000 && s.nth == 0 {
                        let all_stale = key
                            .map(|(sess, ctr)| {
                                txs.iter().all(|k| {
                                    o.txs[*k].deliv.iter().all(|d| staleness(src, sess, ctr, *d, *k) > 16)
                                })
                            })
                            .unwrap_or(false);
                        if !all_stale && std::env::var("RSMV_DEBUG").is_ok() {
                            eprintln!("DEBUG ok-never-received: replay {} id {:?} key {:?}", replay, s.id, key);
                        }
                        rep.note(&format!(
                            "send-Ok-and-acknowledged-but-peer-application-never-received-it(exchange open){}",
                            if all_stale { ":every-copy-arrived-more-than-16-counters-stale" } else { "" }
                        ));
                    }
                }
            }
            Err(code) => {
                v.giveups += 1;
                rep.count("send_gave_up");
                // O4: failure class
                rep.count("O4-checked");
                if code != ErrorCode::TxTimeout {
                    rep.note(&format!("send-failed-with-{:?}-instead-of-TxTimeout", code));
                }
                // O5: a transmission and an acknowledgement got through in time => must be Ok
                rep.count("O5-checked");
                let hold_margin = match p.timing {
                    0 => 1_000,
                    1 => 30_000,
                    _ => APP_HOLD_MARGIN_US,
                };
                match first_ack_delivery {
                    Some(t) if t + hold_margin <= t_ret => {
                        // classification: was any in-time ack carried by a datagram that was
                        // still inside the receive window (16 counters) when it arrived?
                        let mut carriers: Vec<(u64, u32, u32)> = Vec::new(); // (at, ctr, staleness)
                        for k in &acks {
                            let tx = &o.txs[*k];
                            if let Some(w) = &tx.w {
                                for d in tx.deliv.iter().filter(|d| **d + hold_margin <= t_ret) {
                                    carriers.push((*d, w.ctr, staleness(peer, w.sess, w.ctr, *d, *k)));
                                }
                            }
                        }
                        let wkind = p.exch.get(s.id.tag as usize).map(|e| e.kind).unwrap_or(Kind::Case);
                        let wc = window_class(peer, key.map(|k| k.0).unwrap_or(0), wkind, t_ret);
                        let cls = if wc == "after-unsecured-window-rebased-at-receiver" {
                            wc
                        } else if carriers.iter().all(|c| c.2 > 16) {
                            "every-ack-carrier-more-than-16-counters-behind"
                        } else {
                            "ack-carrier-inside-window"
                        };
                        viol(rep, 
                            "O5-success-when-delivered-and-acked",
                            &format!("C09/O5/err-despite-ack/{}/{}/{:?}/{}", who, kind, code, cls),
                            format!(
                                "send of {:?} by {} failed with {:?} at t={} although a copy was delivered at {:?} and an acknowledgement of its counter {:?} reached the sender's inbox at t={} ({} ms before the failure); ack-carrying datagrams delivered in time (at, counter, counters behind the newest one delivered before): {:?}; policy {:?}; params {:?}",
                                s.id, who, code, t_ret, first_delivery, key, t, (t_ret - t) / 1000, carriers, p.policy, p
                            ),
                            replay.clone(),
                        );
                    }
                    Some(_) => rep.note("ack-arrived-within-app-hold-margin-of-give-up(not judged)"),
                    None => rep.count("O5-err-without-ack"),
                }
            }
        }
        if first_ack_delivery.is_some() && first_delivery.is_some() {
            if res.is_ok() {
                rep.count("O5-checked");
                rep.count("O5-ok-with-ack");
            }
        }

        // O6: back-off lower bound (no jitter)
        for (i, w) in txs.windows(2).enumerate() {
            rep.count("O6-checked");
            let gap = o.txs[w[1]].t - o.txs[w[0]].t;
            let need = (lower_ms(base, i as u32) * 1000.0) as u64;
            // integer rounding of the implementation's millisecond arithmetic: 1 ms per step
            let tol = 1000 * (i as u64 + 1);
            if gap + tol < need {
                viol(rep, 
                    "O6-backoff-lower-bound",
                    &format!("C09/O6/retransmission-too-early/{}/{}/step{}", who, kind, i.min(6)),
                    format!(
                        "transmission {} of {:?} by {} left {} us after transmission {}, the back-off lower bound (base {} ms x 1.1 x 1.6^{}) is {} us; policy {:?}; params {:?}",
                        i + 2, s.id, who, gap, i + 1, base, (i as u32).saturating_sub(1), need, p.policy, p
                    ),
                    replay.clone(),
                );
            }
        }
    }

    // ---- O7: duplicates of R-flagged messages are acknowledged again -----------------------
    for ((src, sess, ctr), list) in &by_msg {
        let w0 = o.txs[list[0]].w.as_ref().unwrap();
        let mut deliveries: Vec<u64> = list
            .iter()
            .flat_map(|k| o.txs[*k].deliv.iter().copied())
            .collect();
        deliveries.sort();
        if deliveries.len() < 2 {
            continue;
        }
        let receiver = 1 - *src;
        let rname = if receiver == 0 { "A" } else { "B" };
        let racks: Vec<u64> = acks_for
            .get(&(receiver, *sess, *ctr))
            .map(|l| l.iter().map(|k| o.txs[*k].t).collect())
            .unwrap_or_default();
        if !w0.r {
            for _ in &deliveries[1..] {
                rep.count("duplicate-delivered:non-R");
            }
            if !racks.is_empty() {
                rep.note("non-R-duplicate-acknowledged");
            }
            continue;
        }
        let session_alive = match w0.kind {
            Kind::Case => o.sessions_alive[if receiver == 0 { 0 } else { 2 }],
            Kind::Pase => o.sessions_alive[if receiver == 0 { 1 } else { 3 }],
            Kind::Plain => true,
        };
        for t_d in &deliveries[1..] {
            v.dups_delivered += 1;
            rep.count("duplicate-delivered:R");
            let acked = racks.iter().any(|t| *t >= *t_d && *t <= *t_d + O7_DEADLINE_US);
            if let Some(id) = w0.id {
                if matches!(closed.get(&(receiver as u8, id.tag)), Some(tc) if *tc <= *t_d) {
                    if !acked && std::env::var("RSMV_DEBUG").is_ok() {
                        eprintln!("DEBUG dup-after-close-not-acked: replay {} id {:?} t_d {} end {} deliveries {:?} racks {:?}", replay, id, t_d, o.end_time, deliveries, racks);
                    }
                    rep.note(&format!(
                        "duplicate-after-exchange-closed:{}{}",
                        if acked { "acked" } else { "not-acked" },
                        if !acked && *t_d + O7_DEADLINE_US > o.end_time { "(history ended)" } else { "" }
                    ));
                    continue;
                }
            } else {
                rep.note("duplicate-of-R-message-without-harness-id");
                continue;
            }
            if !session_alive {
                rep.note("duplicate-on-session-that-was-closed(not judged)");
                continue;
            }
            if *t_d + O7_DEADLINE_US > o.end_time {
                rep.count("O7-skipped-too-close-to-end");
                continue;
            }
            rep.count("O7-checked");
            if !acked {
                viol(rep, 
                    "O7-duplicate-acknowledged-again",
                    &format!(
                        "C09/O7/duplicate-not-acknowledged/{}/{:?}/{}",
                        rname,
                        w0.kind,
                        window_class(*src, *sess, w0.kind, *t_d + O7_DEADLINE_US)
                    ),
                    format!(
                        "a duplicate of the R-flagged message {:?} (counter {} of {}) was delivered to {} at t={} (all deliveries {:?}) but {} sent no acknowledgement of that counter in [t, t+{} ms] (acks of it were sent at {:?}); policy {:?}; params {:?}",
                        w0.id, ctr, if *src == 0 { "A" } else { "B" }, rname, t_d, deliveries, rname, O7_DEADLINE_US / 1000, racks, p.policy, p
                    ),
                    replay.clone(),
                );
            }
        }
        // stricter reading (one ack per duplicate) only recorded
        if racks.len() < deliveries.len() - 1 {
            rep.note("fewer-acks-than-duplicates(coalesced)");
        }
    }

    // ---- run status ------------------------------------------------------------------------
    if status != RunStatus::Done {
        rep.inconclusive(&format!("run-status-{:?}", status));
    }
    if !o.sessions_alive.iter().zip([Kind::Case, Kind::Pase, Kind::Case, Kind::Pase]).all(|(alive, k)| *alive || !p.exch.iter().any(|e| e.kind == k)) {
        rep.note("a-secure-session-was-closed-during-the-history");
    }

    for tv in &o.tap_violations {
        if tv.starts_with("counter-not-increasing") {
            // Not a nonce reuse: rs-matter has two emission paths. A message stamped with
            // counter N waits in the TX buffer for `process_tx` while the receive path answers a
            // duplicate with a standalone ack stamped N+1 and sends it directly, so N+1 is on
            // the wire before N. Every counter is still used once; C15's statement holds.
            rep.note("tapmon:counter-not-increasing(emission order of TX-buffer path vs direct duplicate-ack path; every counter used once)");
            continue;
        }
        viol(rep, 
            "C15-tap",
            &format!("C15/tap/{}", tv.split(':').next().unwrap_or("x")),
            format!("passive nonce monitor: {} params {:?}", tv, p),
            replay.clone(),
        );
    }

    v.trace_hash = trace.0;
    v
}

fn account(rep: &mut Report, p: &Params, o: &Outcome, v: &Verdict) {
    if v.retrans {
        rep.count("histories_with_retransmission");
    }
    if v.giveups > 0 {
        rep.count("histories_with_give_up");
    }
    if v.dups_delivered > 0 {
        rep.count("histories_with_duplicate_delivered");
    }
    for e in &p.exch {
        rep.count(&format!("exchanges:{:?}", e.kind));
    }
    if v.interfered {
        let mut f = Fnv::new();
        f.add_u64(v.trace_hash);
        f.add(p.policy.class().as_bytes());
        rep.distinct.insert(f.0);
    }
    rep.interleavings.insert(o.sched_hash);
}

pub fn run(ctx: &Ctx) -> Report {
    let mut rep = Report::new(
        "C09",
        "Histories of two rs-matter nodes exchanging reliable application messages (1..4 concurrent exchanges, 1..20 \
         ping-pong rounds, CASE / PASE / unsecured sessions) under a per-datagram adversary. distinct = hashes of the abstract \
         trace of a history (per message: sender, exchange, direction, sequence number, the adversary decision class of each \
         of its transmissions, the outcome of the send call) plus the policy class, counted only for histories with at least \
         one drop / duplicate / delay; interleavings = executor schedule hashes.",
    );
    crate::util::quiet_panics();
    rep.assumptions.push("session active interval = the sender's own BasicInfoConfig::sai (default 300 ms): mirrored sessions carry no peer-advertised parameters".into());
    rep.assumptions.push("hard 'must have returned' bound uses 6 transmissions (rs-matter's reading of MRP_MAX_TRANSMISSIONS = 5 retransmissions) with maximum jitter + 1 s; exceeding the 5-transmission budget is only noted".into());
    rep.assumptions.push("unsecured sessions are opened with the PBKDFParamRequest opcode carrying a harness payload (the transport creates unsecured sessions for no other message); later messages use protocol id 0xFFF1".into());
    rep.assumptions.push("O5 does not count an acknowledgement that reached the sender's inbox less than 600 ms before the give-up (the harness applications may hold the node's single RX buffer for up to 200 ms)".into());
    rep.assumptions.push("O7 asserts 'some acknowledgement of the counter is sent within 3 s after the duplicate's delivery' only while the receiving application still holds the exchange".into());

    if let Some(r) = &ctx.replay {
        let seed: u64 = r["shard_seed"].as_str().and_then(|s| s.parse().ok()).unwrap_or(0);
        let idx = r["index"].as_u64().unwrap_or(0);
        let mut rng = Rng::new(subseed(seed, &[idx]));
        let p = gen_params(&mut rng, idx);
        let o = run_case(&p);
        rep.evaluations += 1;
        let v = judge(&mut rep, &p, &o, r.clone());
        account(&mut rep, &p, &o, &v);
        rep.sample(json!({"params": format!("{:?}", p), "status": format!("{:?}", o.status), "events": o.events.len(), "datagrams": o.txs.len()}));
        return rep;
    }

    let (quick, thorough) = (2_000u64, 200_000u64);
    let total = ((if ctx.thorough { thorough } else { quick }) as f64 * ctx.scale).ceil() as u64;
    rep.floor("histories_with_retransmission", total / 5);
    rep.floor("send_gave_up", 100);
    rep.floor("duplicate-delivered:R", 100);
    rep.floor("app_messages_received", 1000);
    for (rule, min) in [
        ("O1-checked", 200u64),
        ("O2-checked", 500),
        ("O3-checked", 500),
        ("O4-checked", 100),
        ("O5-checked", 500),
        ("O6-checked", 200),
        ("O7-checked", 50),
    ] {
        rep.floor(rule, min);
    }

    let n = ctx.share(quick, thorough);
    let shard_seed = ctx.shard_seed();
    for k in 0..n {
        let idx = k * ctx.nshards + ctx.shard;
        let mut rng = Rng::new(subseed(shard_seed, &[idx]));
        let p = gen_params(&mut rng, idx);
        let o = run_case(&p);
        rep.evaluations += 1;
        let mut pj = params_json(&p);
        pj["shard_seed"] = json!(shard_seed.to_string());
        pj["index"] = json!(idx);
        let v = judge(&mut rep, &p, &o, pj);
        account(&mut rep, &p, &o, &v);
        if k < 3 {
            rep.sample(json!({
                "params": format!("{:?}", p),
                "status": format!("{:?}", o.status),
                "virtual_ms": o.end_time / 1000,
                "polls": o.polls,
                "app_events": o.events.len(),
                "datagrams": o.txs.len(),
                "give_ups": v.giveups,
                "duplicates_delivered": v.dups_delivered,
            }));
        }
    }
    rep
}


/// All violations go through here. A repeat / failure that happens *after the receiver's
/// unsecured receive window was re-based by a stale counter* is not judged: property C04
/// requires unsecured sessions to accept a restart of the peer's counter (a datagram more
/// than one window behind is indistinguishable from a restarted peer), so a late duplicate
/// on an unsecured session being taken for a restart - and what follows from it - is the
/// mandated behaviour, not a defect. It is counted as a note.
thread_local! {
    /// The case being run / judged has interface back-pressure switched on.
    static STALLED: core::cell::Cell<bool> = const { core::cell::Cell::new(false) };
}

fn viol(rep: &mut Report, rule: &str, signature: &str, detail: String, replay: serde_json::Value) {
    // With a network interface that blocks `send_to` for up to 1.5 s per datagram the timing
    // rules (return within the budget, success when acknowledged "in time", back-off lower
    // bound as seen on the wire, prompt re-acknowledgement) have no fixed bounds: only the
    // time-free rules O1 (at most once, in order) and O2 (Ok is truthful) are judged there.
    if STALLED.with(|c| c.get()) && !(rule.starts_with("O1") || rule.starts_with("O2")) {
        rep.note(&format!("not-judged(interface back-pressure):{}", rule));
        return;
    }
    if signature.contains("after-unsecured-window-rebased-at-receiver") {
        rep.note(&format!("not-judged(unsecured counter restart, see C04):{}", signature));
        return;
    }
    rep.violation(rule, signature, detail, replay);
}
