//! C02 — PASE admits only a peer that knows the passcode, only while a window is open.
//!
//! Real nodes over the simulated network: a device (node 1: transport + `SecureChannel`
//! responder, optionally the `InteractionModel` background job, which is what polls the
//! commissioning-window expiry once per second), a commissioner (node 0: runs
//! `PaseInitiator::perform` over `Exchange::initiate_plaintext`, or a hand-crafted handshake)
//! and, for the concurrency family, a second commissioner (node 2).
//!
//! Ground truth per run is kept by the harness itself: the passcodes of every party, the log of
//! window actions the harness performed (open with timeout / close) with their virtual
//! instants, what the on-path adversary did to which handshake datagram and whether the bytes
//! it altered are covered by the SPAKE2+ transcript, and (from the wire tap) which handshakes
//! got a Pake2 out of the device and which were answered with a success status and when.
//! The oracle compares that with both session tables, `comm_window_state()`,
//! `mdns_services()` and the `verif` PASE hook.

use std::cell::{Cell, RefCell};
use std::collections::{BTreeMap, BTreeSet};
use std::panic::{catch_unwind, AssertUnwindSafe};
use std::rc::Rc;

use serde_json::json;

use rs_matter::dm::clusters::net_comm::DummyNetworks;
use rs_matter::dm::devices::test::{TEST_DEV_ATT, TEST_DEV_DET};
use rs_matter::dm::{EmptyHandler, Node};
use rs_matter::error::{Error, ErrorCode};
use rs_matter::im::{InteractionModel, InteractionModelState};
use rs_matter::persist::DummyKvBlobStore;
use rs_matter::respond::Responder;
use rs_matter::sc::pase::{
    PaseInitiator, Spake2pVerifierPassword, Spake2pVerifierPasswordRef,
};
use rs_matter::sc::SecureChannel;
use rs_matter::transport::exchange::{Exchange, MatterBuffers, MessageMeta};
use rs_matter::transport::network::{Address, MatterLocalService};
use rs_matter::transport::session::verif::VerifSession;
use rs_matter::transport::session::SessionMode;
use rs_matter::{BasicCommData, Matter};

use crate::report::{Ctx, Report};
use crate::sim::exec::{self, BoxFut, Limits, RunStatus};
use crate::sim::net::{Delivery, NetHub};
use crate::sim::node;
use crate::sim::rng::{subseed, Fnv, Rng};
use crate::sim::wire;
use crate::sim::{clock, tapmon};

const OP_PBKDF_REQ: u8 = 0x20;
const OP_PBKDF_RESP: u8 = 0x21;
const OP_PAKE1: u8 = 0x22;
const OP_PAKE2: u8 = 0x23;
const OP_PAKE3: u8 = 0x24;
const OP_STATUS: u8 = 0x40;

/// The PASE establishment timeout of the statement (60 s) + the exchange receive timeout an
/// abandoned handler needs to notice that the peer is gone; R4 is evaluated after this.
const QUIESCE_MS: u64 = 110_000;
/// Time for late replays (2.5 s) and final acks to play out before the "after" snapshot.
const SETTLE_MS: u64 = 4_000;
/// Expiry polling period of `InteractionModel::run_timeout_checks`.
const EXPIRY_POLL_MS: u64 = 1_000;

const MSG_NAMES: [&str; 7] = [
    "PBKDFParamRequest",
    "PBKDFParamResponse",
    "Pake1",
    "Pake2",
    "Pake3",
    "StatusFromDevice",
    "StatusFromInitiator",
];

#[derive(Clone, Copy, Debug, PartialEq, Eq)]
pub enum Family {
    /// (A) honest, equal passcode
    Honest,
    /// (B) wrong passcode
    WrongPass,
    /// (C) on-path mutation / schedule fault of one handshake datagram
    Mutate,
    /// (D) commissioner replaced by a hand-crafted handshake with a bad/odd `pA`
    Crafted,
    /// (E) window event between two handshake messages
    WindowEvent,
    /// (F) second concurrent initiator
    Concurrent,
    /// (G) 25 consecutive failing attempts
    Lockout,
}

#[derive(Clone, Debug, PartialEq, Eq)]
pub enum FaultKind {
    FlipBit { bit: u32, every_copy: bool },
    Truncate { keep: u32, every_copy: bool },
    Extend { extra: u8, every_copy: bool },
    Duplicate,
    DropFirst { copies: u8 },
    ReplayLate,
    Reorder,
    /// Every copy is delivered `ms` late (used to let a window event overtake the message).
    Hold { ms: u32 },
}

#[derive(Clone, Debug, PartialEq, Eq)]
pub struct WireFault {
    /// 0 PBKDFParamRequest, 1 PBKDFParamResponse, 2 Pake1, 3 Pake2, 4 Pake3,
    /// 5 status report from the device, 6 status report from the initiator (abort).
    pub msg: u8,
    pub kind: FaultKind,
}

#[derive(Clone, Copy, Debug, PartialEq, Eq)]
pub enum WinEvent {
    Close,
    CloseReopen,
    Expire,
}

#[derive(Clone, Copy, Debug, PartialEq, Eq)]
pub enum Setup {
    /// Window opened with this timeout (valid or not) right at the start.
    Open(u16),
    NeverOpened,
    /// Opened (180 s) and closed again through the API before the handshake.
    OpenThenClose,
    /// Opened with this timeout; the handshake starts after expiry + polling period.
    OpenThenExpire(u16),
}

#[derive(Clone, Copy, Debug, PartialEq, Eq)]
pub enum PointKind {
    Zero65,
    Prefix04Zeros,
    OffCurveY,
    XEqualsP,
    Compressed33,
    Len64,
    Len66,
    Len1Zero,
    Empty,
    /// Valid points for which the sender cannot know the shared secret.
    ValidM,
    ValidG,
}

pub const POINT_KINDS: &[PointKind] = &[
    PointKind::Zero65,
    PointKind::Prefix04Zeros,
    PointKind::OffCurveY,
    PointKind::XEqualsP,
    PointKind::Compressed33,
    PointKind::Len64,
    PointKind::Len66,
    PointKind::Len1Zero,
    PointKind::Empty,
    PointKind::ValidM,
    PointKind::ValidG,
];

#[derive(Clone, Copy, Debug, PartialEq, Eq)]
pub enum CaKind {
    Zero,
    Random,
    /// Echo the device's own cB back as cA.
    EchoCb,
}

#[derive(Clone, Copy, Debug, PartialEq, Eq)]
pub enum SecondStart {
    /// Start when message k of the first handshake has been seen (it is held 60 ms).
    AfterHeld(u8),
    /// Start this many µs after the first.
    OffsetUs(u32),
}

#[derive(Clone, Copy, Debug, PartialEq, Eq)]
pub struct Second {
    pub start: SecondStart,
    pub right: bool,
}

#[derive(Clone, Debug)]
pub struct Params {
    pub seed: u64,
    pub family: Family,
    pub dev_pass: u32,
    pub init_pass: u32,
    pub setup: Setup,
    pub pre_delay_ms: u64,
    pub wire: Option<WireFault>,
    pub crafted: Option<(PointKind, CaKind)>,
    pub event: Option<(WinEvent, u8)>,
    pub second: Option<Second>,
    pub attempts: u8,
    /// 0: rs-matter initiator with wrong passcodes; 1: crafted (valid point, bad cA);
    /// 2: alternating.
    pub lock_kind: u8,
    pub with_im: bool,
    pub shuffle: bool,
    /// After the (honest) handshake: replay all initiator messages from another address.
    pub replay_all: bool,
}

#[derive(Clone, Debug)]
pub struct Sample {
    pub t: u64,
    pub tag: &'static str,
    pub open: bool,
    pub advertised: bool,
    /// What an mDNS back end that re-publishes only when `Transport::wait_mdns` fires
    /// currently has on the air (commissionable service published?).
    pub published: bool,
    pub failures: Option<u8>,
    pub marker: bool,
}

#[derive(Clone, Copy, Debug, PartialEq, Eq)]
pub enum Action {
    Opened(u16),
    OpenFailed(u16),
    Closed(bool),
    CloseFailed,
}

#[derive(Clone, Debug, Default)]
pub struct AdvTruth {
    pub target_exch: Option<u16>,
    pub target_seen: u32,
    pub mutated_copies: u32,
    pub clean_copies: u32,
    /// Every mutated copy altered at least one byte covered by the transcript.
    pub covered_altered_all: bool,
    /// Could not locate the covered bytes of the target message (then nothing is asserted).
    pub covered_unknown: bool,
    pub held_seen_at: Option<u64>,
}

#[derive(Clone, Debug, Default)]
pub struct CraftedOutcome {
    pub got_resp: bool,
    pub got_pake2: bool,
    pub last_opcode: Option<u8>,
    pub last_status: Option<(u16, u16)>,
    pub err: Option<ErrorCode>,
}

#[derive(Clone, Debug, Default)]
pub struct ReplayAllOutcome {
    pub injected: u32,
    /// opcodes the device answered the replayed messages with
    pub replies: Vec<u8>,
    pub final_success: Option<bool>,
}

#[derive(Clone, Debug, Default)]
pub struct Outcome {
    pub status: Option<RunStatus>,
    pub panic: Option<String>,
    pub sched_hash: u64,
    pub init_results: Vec<Result<(), ErrorCode>>,
    pub second_result: Option<Result<(), ErrorCode>>,
    pub post_result: Option<Result<(), ErrorCode>>,
    pub crafted: Vec<CraftedOutcome>,
    pub samples: Vec<Sample>,
    pub actions: Vec<(u64, Action)>,
    /// Session tables after the handshake(s) settled, and at the very end: [node][..]
    pub after: [Vec<VerifSession>; 3],
    pub after2: [Vec<VerifSession>; 3],
    pub replay_all: Option<ReplayAllOutcome>,
    pub fin: [Vec<VerifSession>; 3],
    pub adv: AdvTruth,
    pub datagrams: u32,
    pub tap_violations: Vec<String>,
    /// From the tap: (initiator node, exchange id) -> virtual time of the device's first Pake2
    pub pake2_sent: BTreeMap<(usize, u16), u64>,
    /// From the tap: (initiator node, exchange id) -> virtual time of the device's success status
    pub success_sent: BTreeMap<(usize, u16), u64>,
    /// From the tap: PBKDFParamResponse seen from the device (count of distinct exchanges)
    pub pbkdf_resp_sent: BTreeSet<(usize, u16)>,
    /// per lockout attempt: (time, failures hook, window open)
    pub attempts: Vec<(u64, Option<u8>, bool)>,
    pub open_before_post: Option<bool>,
    pub addrs: Vec<Address>,
    pub wall_us: u64,
    pub handshakes: u32,
}

fn pase_sessions(s: &[VerifSession]) -> Vec<VerifSession> {
    s.iter()
        .filter(|s| matches!(s.mode, SessionMode::Pase { .. }) && !s.reserved)
        .cloned()
        .collect()
}

fn reserved_sessions(s: &[VerifSession]) -> usize {
    s.iter().filter(|s| s.reserved).count()
}

/// Is this an unsecured secure-channel PASE handshake datagram? -> (opcode, exchange id, flags)
fn pase_msg(bytes: &[u8]) -> Option<(u8, u16, u8)> {
    let info = wire::peek(bytes)?;
    if info.session_id != 0 || info.proto_id != Some(0) {
        return None;
    }
    let op = info.opcode?;
    if matches!(
        op,
        OP_PBKDF_REQ | OP_PBKDF_RESP | OP_PAKE1 | OP_PAKE2 | OP_PAKE3 | OP_STATUS
    ) {
        Some((op, info.exch_id?, info.exch_flags?))
    } else {
        None
    }
}

/// Index of a handshake message (see `WireFault::msg`) given opcode and sender.
fn msg_index(op: u8, from_device: bool) -> Option<u8> {
    Some(match (op, from_device) {
        (OP_PBKDF_REQ, false) => 0,
        (OP_PBKDF_RESP, true) => 1,
        (OP_PAKE1, false) => 2,
        (OP_PAKE2, true) => 3,
        (OP_PAKE3, false) => 4,
        (OP_STATUS, true) => 5,
        (OP_STATUS, false) => 6,
        _ => return None,
    })
}

/// Byte ranges (absolute offsets in the datagram) covered by the SPAKE2+ transcript or by a
/// confirmation MAC, written from the Matter message/TLV format: the whole payload of
/// PBKDFParamRequest/Response (hashed into the context), the value bytes of the octet strings
/// of Pake1 (pA), Pake2 (pB, cB) and Pake3 (cA). Nothing in status reports.
fn covered_ranges(msg: u8, bytes: &[u8]) -> Option<Vec<(usize, usize)>> {
    let info = wire::peek(bytes)?;
    let off = info.payload_off?;
    match msg {
        0 | 1 => Some(vec![(off, bytes.len())]),
        2 | 3 | 4 => {
            let p = &bytes[off..];
            if p.first() != Some(&0x15) {
                return None;
            }
            let mut i = 1;
            let mut out = vec![];
            loop {
                let c = *p.get(i)?;
                if c == 0x18 {
                    break;
                }
                if c != 0x30 {
                    return None; // not "context tag, octet string, 1-byte length"
                }
                let len = *p.get(i + 2)? as usize;
                let start = i + 3;
                if start + len > p.len() {
                    return None;
                }
                out.push((off + start, off + start + len));
                i = start + len;
            }
            let want = if msg == 3 { 2 } else { 1 };
            if out.len() != want {
                return None;
            }
            Some(out)
        }
        _ => Some(vec![]),
    }
}

fn success_status_payload(bytes: &[u8]) -> bool {
    let Some(info) = wire::peek(bytes) else {
        return false;
    };
    let Some(off) = info.payload_off else {
        return false;
    };
    bytes.len() >= off + 8 && bytes[off..off + 8] == [0u8; 8]
}

const P256_M: [u8; 65] = [
    0x04, 0x88, 0x6e, 0x2f, 0x97, 0xac, 0xe4, 0x6e, 0x55, 0xba, 0x9d, 0xd7, 0x24, 0x25, 0x79, 0xf2,
    0x99, 0x3b, 0x64, 0xe1, 0x6e, 0xf3, 0xdc, 0xab, 0x95, 0xaf, 0xd4, 0x97, 0x33, 0x3d, 0x8f, 0xa1,
    0x2f, 0x5f, 0xf3, 0x55, 0x16, 0x3e, 0x43, 0xce, 0x22, 0x4e, 0x0b, 0x0e, 0x65, 0xff, 0x02, 0xac,
    0x8e, 0x5c, 0x7b, 0xe0, 0x94, 0x19, 0xc7, 0x85, 0xe0, 0xca, 0x54, 0x7d, 0x55, 0xa1, 0x2e, 0x2d,
    0x20,
];

const P256_G: [u8; 65] = [
    0x04, 0x6b, 0x17, 0xd1, 0xf2, 0xe1, 0x2c, 0x42, 0x47, 0xf8, 0xbc, 0xe6, 0xe5, 0x63, 0xa4, 0x40,
    0xf2, 0x77, 0x03, 0x7d, 0x81, 0x2d, 0xeb, 0x33, 0xa0, 0xf4, 0xa1, 0x39, 0x45, 0xd8, 0x98, 0xc2,
    0x96, 0x4f, 0xe3, 0x42, 0xe2, 0xfe, 0x1a, 0x7f, 0x9b, 0x8e, 0xe7, 0xeb, 0x4a, 0x7c, 0x0f, 0x9e,
    0x16, 0x2b, 0xce, 0x33, 0x57, 0x6b, 0x31, 0x5e, 0xce, 0xcb, 0xb6, 0x40, 0x68, 0x37, 0xbf, 0x51,
    0xf5,
];

const P256_P: [u8; 32] = [
    0xff, 0xff, 0xff, 0xff, 0x00, 0x00, 0x00, 0x01, 0x00, 0x00, 0x00, 0x00, 0x00, 0x00, 0x00, 0x00,
    0x00, 0x00, 0x00, 0x00, 0xff, 0xff, 0xff, 0xff, 0xff, 0xff, 0xff, 0xff, 0xff, 0xff, 0xff, 0xff,
];

fn point_bytes(k: PointKind) -> Vec<u8> {
    match k {
        PointKind::Zero65 => vec![0u8; 65],
        PointKind::Prefix04Zeros => {
            let mut v = vec![0u8; 65];
            v[0] = 4;
            v
        }
        PointKind::OffCurveY => {
            let mut v = P256_M.to_vec();
            v[64] ^= 1;
            v
        }
        PointKind::XEqualsP => {
            let mut v = P256_G.to_vec();
            v[1..33].copy_from_slice(&P256_P);
            v
        }
        PointKind::Compressed33 => {
            let mut v = P256_G[..33].to_vec();
            v[0] = 0x03;
            v
        }
        PointKind::Len64 => P256_G[..64].to_vec(),
        PointKind::Len66 => {
            let mut v = P256_G.to_vec();
            v.push(0);
            v
        }
        PointKind::Len1Zero => vec![0],
        PointKind::Empty => vec![],
        PointKind::ValidM => P256_M.to_vec(),
        PointKind::ValidG => P256_G.to_vec(),
    }
}

fn point_is_valid(k: PointKind) -> bool {
    matches!(k, PointKind::ValidM | PointKind::ValidG)
}

fn tlv_octets_struct(tag: u8, data: &[u8]) -> Vec<u8> {
    let mut v = vec![0x15, 0x30, tag, data.len() as u8];
    v.extend_from_slice(data);
    v.push(0x18);
    v
}

fn pbkdf_req_payload(random: &[u8; 32], ssid: u16) -> Vec<u8> {
    let mut v = vec![0x15, 0x30, 0x01, 0x20];
    v.extend_from_slice(random);
    v.extend_from_slice(&[0x25, 0x02]);
    v.extend_from_slice(&ssid.to_le_bytes());
    v.extend_from_slice(&[0x25, 0x03, 0x00, 0x00]);
    v.extend_from_slice(&[0x28, 0x04]);
    v.push(0x18);
    v
}

/// A hand-driven handshake on a plaintext exchange: honest PBKDFParamRequest/Response, then a
/// Pake1 with the given `pA`, then (if the device answers with Pake2) a Pake3 with a `cA`
/// the harness cannot know.
async fn crafted_attempt<'a, C: rs_matter::crypto::Crypto>(
    m: &'a Matter<'a>,
    crypto: C,
    addr: Address,
    rng: &mut Rng,
    point: PointKind,
    ca: CaKind,
    out: &mut CraftedOutcome,
) -> Result<(), Error> {
    let mut ex = Exchange::initiate_plaintext(m, crypto, addr).await?;
    let mut random = [0u8; 32];
    random.copy_from_slice(&rng.bytes(32));
    let ssid = 1 + rng.below(60000) as u16;
    ex.send(
        MessageMeta::new(0, OP_PBKDF_REQ, true),
        &pbkdf_req_payload(&random, ssid),
    )
    .await?;
    {
        let rx = ex.recv_fetch().await?;
        let meta = rx.meta();
        out.last_opcode = Some(meta.proto_opcode);
        if meta.proto_opcode != OP_PBKDF_RESP {
            return Ok(());
        }
    }
    out.got_resp = true;
    ex.send(
        MessageMeta::new(0, OP_PAKE1, true),
        &tlv_octets_struct(1, &point_bytes(point)),
    )
    .await?;
    let cb: Vec<u8>;
    {
        let rx = ex.recv_fetch().await?;
        let meta = rx.meta();
        out.last_opcode = Some(meta.proto_opcode);
        if meta.proto_opcode == OP_STATUS {
            out.last_status = status_of(rx.payload());
            return Ok(());
        }
        if meta.proto_opcode != OP_PAKE2 {
            return Ok(());
        }
        // Pake2 payload: 15 30 01 41 <pB> 30 02 20 <cB> 18
        let p = rx.payload();
        cb = if p.len() >= 4 + 65 + 3 + 32 {
            p[4 + 65 + 3..4 + 65 + 3 + 32].to_vec()
        } else {
            vec![0u8; 32]
        };
    }
    out.got_pake2 = true;
    let ca_bytes = match ca {
        CaKind::Zero => vec![0u8; 32],
        CaKind::Random => rng.bytes(32),
        CaKind::EchoCb => cb,
    };
    ex.send(
        MessageMeta::new(0, OP_PAKE3, true),
        &tlv_octets_struct(1, &ca_bytes),
    )
    .await?;
    {
        let rx = ex.recv_fetch().await?;
        let meta = rx.meta();
        out.last_opcode = Some(meta.proto_opcode);
        if meta.proto_opcode == OP_STATUS {
            out.last_status = status_of(rx.payload());
        }
    }
    let _ = ex.acknowledge().await;
    Ok(())
}

fn status_of(p: &[u8]) -> Option<(u16, u16)> {
    if p.len() < 8 {
        return None;
    }
    Some((
        u16::from_le_bytes([p[0], p[1]]),
        u16::from_le_bytes([p[6], p[7]]),
    ))
}

fn boxed_matter(pass: u32) -> Box<Matter<'static>> {
    let comm = BasicCommData {
        password: Spake2pVerifierPassword::new_from_ref(Spake2pVerifierPasswordRef::new(
            &pass.to_le_bytes(),
        )),
        discriminator: 3840,
    };
    Box::new(Matter::new(&TEST_DEV_DET, comm, &TEST_DEV_ATT, 5540))
}

const EMPTY_NODE: Node<'static> = Node { endpoints: &[] };

/// Shared, harness-side state of one run.
struct RunState {
    samples: RefCell<Vec<Sample>>,
    actions: RefCell<Vec<(u64, Action)>>,
    adv: RefCell<AdvTruth>,
    hs_done: Cell<bool>,
    first_started_at: Cell<Option<u64>>,
    /// see `Sample::published`
    published: Cell<bool>,
    publishes: Cell<u32>,
}

pub fn run_case(p: &Params) -> Outcome {
    let wall0 = std::time::Instant::now();
    clock::reset(1_000_000);
    let mut rng = Rng::new(p.seed);
    let crypto_i = node::crypto(rng.fork());
    let crypto_r = node::crypto(rng.fork());
    let crypto_2 = node::crypto(rng.fork());

    let mi = boxed_matter(20202021);
    let mr = boxed_matter(p.dev_pass);
    let m2 = boxed_matter(20202021);

    let hub = NetHub::new(rng.u64(), 3);
    let tap = tapmon::TapMonitor::new();
    let mut out = Outcome::default();
    out.addrs = vec![hub.addr(0), hub.addr(1), hub.addr(2)];

    let rs = Rc::new(RunState {
        samples: RefCell::new(vec![]),
        actions: RefCell::new(vec![]),
        adv: RefCell::new(AdvTruth::default()),
        hs_done: Cell::new(false),
        first_started_at: Cell::new(None),
        published: Cell::new(false),
        publishes: Cell::new(0),
    });

    // ---------------- adversary ----------------
    {
        let rs = rs.clone();
        // The fault applied to the first handshake of node 0. Window events and the
        // "after held" second initiator are implemented as a hold of message k.
        let fault: Option<WireFault> = if let Some(w) = &p.wire {
            Some(w.clone())
        } else if let Some((ev, k)) = p.event {
            Some(WireFault {
                msg: k,
                kind: FaultKind::Hold {
                    ms: if ev == WinEvent::Expire { 2500 } else { 300 },
                },
            })
        } else if let Some(Second {
            start: SecondStart::AfterHeld(k),
            ..
        }) = p.second
        {
            Some(WireFault {
                msg: k,
                kind: FaultKind::Hold { ms: 60 },
            })
        } else {
            None
        };
        let mut seen: Vec<(usize, Vec<u8>)> = Vec::new();
        hub.set_adversary(Some(Box::new(move |d, _rng| {
            let Some(fault) = &fault else {
                return vec![Delivery::normal()];
            };
            let Some((op, exch, _fl)) = pase_msg(&d.bytes) else {
                return vec![Delivery::normal()];
            };
            // Only the first handshake of node 0 is the target.
            let init_node = if d.src == 1 { d.dst.unwrap_or(9) } else { d.src };
            if init_node != 0 {
                return vec![Delivery::normal()];
            }
            {
                let mut a = rs.adv.borrow_mut();
                if a.target_exch.is_none() && op == OP_PBKDF_REQ && d.src == 0 {
                    a.target_exch = Some(exch);
                }
                if a.target_exch != Some(exch) {
                    return vec![Delivery::normal()];
                }
            }
            let Some(k) = msg_index(op, d.src == 1) else {
                return vec![Delivery::normal()];
            };
            if k != fault.msg {
                return vec![Delivery::normal()];
            }
            let copies = seen
                .iter()
                .filter(|(s, b)| *s == d.src && *b == d.bytes)
                .count() as u32;
            seen.push((d.src, d.bytes.clone()));
            let mut a = rs.adv.borrow_mut();
            a.target_seen += 1;
            if a.target_seen == 1 {
                a.covered_altered_all = true;
            }
            let cov = covered_ranges(k, &d.bytes);
            let mut mutate = |a: &mut AdvTruth, nb: Vec<u8>| -> Vec<Delivery> {
                if nb == d.bytes {
                    a.clean_copies += 1;
                    return vec![Delivery::normal()];
                }
                a.mutated_copies += 1;
                match &cov {
                    None => a.covered_unknown = true,
                    Some(r) => {
                        let mut hit = false;
                        for (s, e) in r {
                            let s = *s;
                            let e = *e;
                            // altered if a covered byte differs, is missing, or (whole-payload
                            // coverage) bytes were appended
                            for i in s..e {
                                if nb.get(i) != d.bytes.get(i) {
                                    hit = true;
                                }
                            }
                            if (k == 0 || k == 1) && nb.len() != d.bytes.len() {
                                hit = true;
                            }
                        }
                        if !hit {
                            a.covered_altered_all = false;
                        }
                    }
                }
                vec![Delivery::mutant(nb)]
            };
            match &fault.kind {
                FaultKind::FlipBit { bit, every_copy } if *every_copy || copies == 0 => {
                    let mut b = d.bytes.clone();
                    let nbits = (b.len() * 8) as u32;
                    let bit = bit % nbits;
                    b[(bit / 8) as usize] ^= 1 << (bit % 8);
                    mutate(&mut a, b)
                }
                FaultKind::Truncate { keep, every_copy } if *every_copy || copies == 0 => {
                    let keep = (*keep as usize) % d.bytes.len();
                    mutate(&mut a, d.bytes[..keep].to_vec())
                }
                FaultKind::Extend { extra, every_copy } if *every_copy || copies == 0 => {
                    let mut b = d.bytes.clone();
                    for j in 0..(*extra).max(1) {
                        b.push(j.wrapping_mul(37).wrapping_add(1));
                    }
                    mutate(&mut a, b)
                }
                FaultKind::Duplicate if copies == 0 => {
                    a.clean_copies += 1;
                    vec![
                        Delivery::normal(),
                        Delivery::after_ms(3),
                        Delivery::after_ms(40),
                    ]
                }
                FaultKind::DropFirst { copies: c } if copies < *c as u32 => vec![],
                FaultKind::ReplayLate if copies == 0 => {
                    a.clean_copies += 1;
                    vec![Delivery::normal(), Delivery::after_ms(2500)]
                }
                FaultKind::Reorder if copies == 0 => {
                    a.clean_copies += 1;
                    vec![Delivery::after_ms(150)]
                }
                FaultKind::Hold { ms } => {
                    a.clean_copies += 1;
                    if a.held_seen_at.is_none() {
                        a.held_seen_at = Some(clock::now());
                    }
                    vec![Delivery::after_ms(*ms as u64)]
                }
                _ => {
                    a.clean_copies += 1;
                    vec![Delivery::normal()]
                }
            }
        })));
    }

    let limits = Limits {
        max_polls: 4_000_000,
        horizon: clock::now() + 2_000 * clock::TICKS_PER_SEC,
        shuffle: p.shuffle,
    };

    let init_results: Rc<RefCell<Vec<Result<(), ErrorCode>>>> = Rc::new(RefCell::new(vec![]));
    let second_result: Rc<RefCell<Option<Result<(), ErrorCode>>>> = Rc::new(RefCell::new(None));
    let post_result: Rc<RefCell<Option<Result<(), ErrorCode>>>> = Rc::new(RefCell::new(None));
    let crafted_out: Rc<RefCell<Vec<CraftedOutcome>>> = Rc::new(RefCell::new(vec![]));
    let attempts_log: Rc<RefCell<Vec<(u64, Option<u8>, bool)>>> = Rc::new(RefCell::new(vec![]));
    let open_before_post: Rc<Cell<Option<bool>>> = Rc::new(Cell::new(None));
    let after_snap: Rc<RefCell<[Vec<VerifSession>; 3]>> = Rc::new(RefCell::new(Default::default()));
    let after2_snap: Rc<RefCell<[Vec<VerifSession>; 3]>> = Rc::new(RefCell::new(Default::default()));
    let replay_all_out: Rc<RefCell<Option<ReplayAllOutcome>>> = Rc::new(RefCell::new(None));
    let handshakes = Rc::new(Cell::new(0u32));

    let buffers: Box<MatterBuffers> = Box::new(MatterBuffers::new());
    let im_state: Box<InteractionModelState<DummyNetworks, 1, 1024>> =
        Box::new(InteractionModelState::new(DummyNetworks));

    let addr_r = hub.addr(1);
    let run = {
        let mi = &*mi;
        let mr = &*mr;
        let m2 = &*m2;
        let crypto_i = &crypto_i;
        let crypto_r = &crypto_r;
        let crypto_2 = &crypto_2;
        let buffers = &*buffers;
        let im_state = &*im_state;
        let hub = hub.clone();
        let rs = rs.clone();
        let init_results = init_results.clone();
        let second_result = second_result.clone();
        let post_result = post_result.clone();
        let crafted_out = crafted_out.clone();
        let attempts_log = attempts_log.clone();
        let open_before_post = open_before_post.clone();
        let after_snap = after_snap.clone();
        let after2_snap = after2_snap.clone();
        let replay_all_out = replay_all_out.clone();
        let handshakes = handshakes.clone();
        let p = p.clone();
        let seed = p.seed;
        let shuffle = p.shuffle;
        let mut exec_rng = Rng::new(subseed(seed, &[7]));
        let mut script_rng = Rng::new(subseed(seed, &[8]));
        catch_unwind(AssertUnwindSafe(move || {
            // Synchronous observations / window actions on the device. They take the state
            // lock for the duration of the call only and register no waker, so calling them
            // from the script (which lives in node 0's task) does not break the one-task-per-
            // Matter rule (that rule is about futures *waiting* on a Matter's signals).
            let sample = {
                let rs = rs.clone();
                move |tag: &'static str| {
                    let open = mr.comm_window_state().is_open();
                    let mut advertised = false;
                    let _ = mr.mdns_services(|s| {
                        if matches!(s, MatterLocalService::Commissionable { .. }) {
                            advertised = true;
                        }
                        Ok(())
                    });
                    let (failures, marker) = mr.with_state(|s| s.verif_pase().verif_state());
                    rs.samples.borrow_mut().push(Sample {
                        t: clock::now(),
                        tag,
                        open,
                        advertised,
                        published: rs.published.get(),
                        failures,
                        marker,
                    });
                    (open, failures)
                }
            };
            let do_open = {
                let rs = rs.clone();
                move |timeout: u16| {
                    let r = mr.open_basic_comm_window(timeout, crypto_r, &());
                    rs.actions.borrow_mut().push((
                        clock::now(),
                        if r.is_ok() {
                            Action::Opened(timeout)
                        } else {
                            Action::OpenFailed(timeout)
                        },
                    ));
                }
            };
            let do_close = {
                let rs = rs.clone();
                move || {
                    let r = mr.close_comm_window(&());
                    rs.actions.borrow_mut().push((
                        clock::now(),
                        match r {
                            Ok(b) => Action::Closed(b),
                            Err(_) => Action::CloseFailed,
                        },
                    ));
                }
            };

            let script: BoxFut = {
                let sample = sample.clone();
                let do_open = do_open.clone();
                let do_close = do_close.clone();
                let rs = rs.clone();
                let p = p.clone();
                let handshakes = handshakes.clone();
                let hub_s = hub.clone();
                Box::pin(async move {
                    sample("start");
                    match p.setup {
                        Setup::Open(to) => {
                            do_open(to);
                            sample("opened");
                        }
                        Setup::NeverOpened => {}
                        Setup::OpenThenClose => {
                            do_open(180);
                            sample("opened");
                            exec::sleep_ms(500).await;
                            do_close();
                            sample("closed");
                        }
                        Setup::OpenThenExpire(to) => {
                            do_open(to);
                            sample("opened");
                            exec::sleep_ms(to as u64 * 1000 / 2).await;
                            sample("mid-window");
                            exec::sleep_ms(to as u64 * 1000 / 2 + EXPIRY_POLL_MS + 200).await;
                            sample("expired");
                        }
                    }
                    if p.pre_delay_ms > 0 {
                        exec::sleep_ms(p.pre_delay_ms).await;
                    }
                    sample("pre");
                    rs.first_started_at.set(Some(clock::now()));

                    let one_handshake = |pass: u32| {
                        let handshakes = handshakes.clone();
                        async move {
                            handshakes.set(handshakes.get() + 1);
                            let r = async {
                                let ex = Exchange::initiate_plaintext(mi, crypto_i, addr_r).await?;
                                PaseInitiator::perform(ex, crypto_i, pass).await
                            }
                            .await;
                            r.map_err(|e| e.code())
                        }
                    };

                    match p.family {
                        Family::Lockout => {
                            for a in 0..p.attempts {
                                let crafted = match p.lock_kind {
                                    0 => false,
                                    1 => true,
                                    _ => a % 2 == 1,
                                };
                                if crafted {
                                    handshakes.set(handshakes.get() + 1);
                                    let mut co = CraftedOutcome::default();
                                    let pk = if script_rng.bool() {
                                        PointKind::ValidG
                                    } else {
                                        PointKind::ValidM
                                    };
                                    let r = crafted_attempt(
                                        mi,
                                        crypto_i,
                                        addr_r,
                                        &mut script_rng,
                                        pk,
                                        CaKind::Random,
                                        &mut co,
                                    )
                                    .await;
                                    co.err = r.err().map(|e| e.code());
                                    crafted_out.borrow_mut().push(co);
                                } else {
                                    // a fresh wrong passcode each time
                                    let mut wp = script_rng.u32();
                                    if wp == p.dev_pass {
                                        wp ^= 1;
                                    }
                                    let r = one_handshake(wp).await;
                                    init_results.borrow_mut().push(r);
                                }
                                exec::sleep_ms(50).await;
                                let (open, failures) = sample("attempt");
                                attempts_log.borrow_mut().push((clock::now(), failures, open));
                            }
                            // after the lockout: the RIGHT passcode
                            let (open, _) = sample("pre-post");
                            open_before_post.set(Some(open));
                            let r = one_handshake(p.dev_pass).await;
                            *post_result.borrow_mut() = Some(r);
                            sample("post");
                        }
                        Family::Crafted => {
                            let (pk, ca) = p.crafted.unwrap_or((PointKind::Zero65, CaKind::Zero));
                            handshakes.set(handshakes.get() + 1);
                            let mut co = CraftedOutcome::default();
                            let r = crafted_attempt(
                                mi,
                                crypto_i,
                                addr_r,
                                &mut script_rng,
                                pk,
                                ca,
                                &mut co,
                            )
                            .await;
                            co.err = r.err().map(|e| e.code());
                            crafted_out.borrow_mut().push(co);
                        }
                        _ => {
                            let hs = async {
                                let r = one_handshake(p.init_pass).await;
                                init_results.borrow_mut().push(r);
                                rs.hs_done.set(true);
                            };
                            let ev = async {
                                let Some((ev, _k)) = p.event else {
                                    return;
                                };
                                if ev == WinEvent::Expire {
                                    return; // pure timing, nothing to do
                                }
                                for _ in 0..2000 {
                                    if rs.adv.borrow().held_seen_at.is_some() || rs.hs_done.get() {
                                        break;
                                    }
                                    exec::sleep_ms(5).await;
                                }
                                if rs.adv.borrow().held_seen_at.is_none() {
                                    return;
                                }
                                do_close();
                                sample("ev-closed");
                                if ev == WinEvent::CloseReopen {
                                    do_open(180);
                                    sample("ev-reopened");
                                }
                            };
                            embassy_futures::join::join(hs, ev).await;
                        }
                    }

                    exec::sleep_ms(SETTLE_MS).await;
                    if p.replay_all {
                        // Replay the initiator's whole recorded handshake from another source
                        // address (a fresh unsecured session at the device), fixing up only the
                        // unauthenticated piggy-backed ack counter like an on-path attacker can.
                        let mut st = ReplayAllOutcome::default();
                        let orig: Vec<Vec<u8>> = hub_s.with_tap(|t| {
                            let mut v = vec![];
                            for op in [OP_PBKDF_REQ, OP_PAKE1, OP_PAKE3] {
                                if let Some(ev) = t.iter().find(|ev| {
                                    ev.dgram.src == 0
                                        && !ev.injected
                                        && pase_msg(&ev.dgram.bytes).map(|m| m.0) == Some(op)
                                }) {
                                    v.push(ev.dgram.bytes.clone());
                                }
                            }
                            v
                        });
                        if orig.len() == 3 {
                            let from = hub_s.addr(2);
                            let mut last_ctr: Option<u32> = None;
                            for (step, (bytes, expect)) in orig
                                .iter()
                                .zip([OP_PBKDF_RESP, OP_PAKE2, OP_STATUS])
                                .enumerate()
                            {
                                let mut b = bytes.clone();
                                if let (Some(c), Some(i)) = (last_ctr, wire::peek(&b)) {
                                    // ack counter sits right before the payload
                                    if i.ack_ctr.is_some() {
                                        if let Some(po) = i.payload_off {
                                            b[po - 4..po].copy_from_slice(&c.to_le_bytes());
                                        }
                                    }
                                }
                                let mark = hub_s.tap_len();
                                hub_s.inject(1, from, b, 1000);
                                st.injected += 1;
                                let mut got = None;
                                for _ in 0..200 {
                                    exec::sleep_ms(1).await;
                                    got = hub_s.with_tap(|t| {
                                        t[mark..].iter().find_map(|ev| {
                                            if ev.dgram.src == 1 && ev.dgram.dst == Some(2) {
                                                let m = pase_msg(&ev.dgram.bytes)?;
                                                let i = wire::peek(&ev.dgram.bytes)?;
                                                Some((m.0, i.ctr, success_status_payload(&ev.dgram.bytes)))
                                            } else {
                                                None
                                            }
                                        })
                                    });
                                    if got.is_some() {
                                        break;
                                    }
                                }
                                match got {
                                    Some((op, ctr, succ)) => {
                                        st.replies.push(op);
                                        last_ctr = Some(ctr);
                                        if op == OP_STATUS {
                                            st.final_success = Some(succ);
                                        }
                                        if op != expect {
                                            break;
                                        }
                                    }
                                    None => break,
                                }
                                let _ = step;
                            }
                        }
                        *replay_all_out.borrow_mut() = Some(st);
                        exec::sleep_ms(SETTLE_MS).await;
                    }
                    sample("after");
                    *after_snap.borrow_mut() =
                        [node::snapshot(mi), node::snapshot(mr), node::snapshot(m2)];
                    // The device's session stays `reserved` until the final status report is
                    // acknowledged or given up (≈ 7 s); look again later (before the 60 s
                    // fail-safe armed by PASE expires and takes the session away).
                    exec::sleep_ms(15_000).await;
                    *after2_snap.borrow_mut() =
                        [node::snapshot(mi), node::snapshot(mr), node::snapshot(m2)];
                    if matches!(p.event, Some((WinEvent::Expire, _))) {
                        // make sure we are beyond expiry + polling period
                        exec::sleep_ms(EXPIRY_POLL_MS + 500).await;
                        sample("expired");
                    }
                    exec::sleep_ms(QUIESCE_MS).await;
                    sample("final");
                })
            };

            let node_i: BoxFut = {
                let ep = hub.endpoint(0);
                Box::pin(async move {
                    let sc = SecureChannel::new(crypto_i, &());
                    let responder = Responder::new("init", sc, mi, 0);
                    let t: BoxFut = Box::pin(async {
                        let _ = mi.run(crypto_i, ep.clone(), ep.clone(), ep.clone()).await;
                    });
                    let r: BoxFut = Box::pin(async {
                        let _ = responder.run::<2>().await;
                    });
                    exec::ShuffleSelect::new(subseed(seed, &[11]), shuffle, vec![script, t, r]).await
                })
            };
            let node_r: BoxFut = {
                let ep = hub.endpoint(1);
                let with_im = p.with_im;
                let rs_pub = rs.clone();
                Box::pin(async move {
                    let sc = SecureChannel::new(crypto_r, &());
                    let responder = Responder::new("dev", sc, mr, 0);
                    let kv = mr.kv(DummyKvBlobStore);
                    let im = InteractionModel::new(
                        mr,
                        crypto_r,
                        buffers,
                        (EMPTY_NODE, EmptyHandler),
                        &kv,
                        im_state,
                    );
                    let t: BoxFut = Box::pin(async {
                        let _ = mr.run(crypto_r, ep.clone(), ep.clone(), ep.clone()).await;
                    });
                    let r: BoxFut = Box::pin(async {
                        let _ = responder.run::<4>().await;
                    });
                    // A notification-driven mDNS back end (avahi / zeroconf / resolve style):
                    // publishes the current service list once, then again whenever rs-matter
                    // says that it changed - and only then.
                    let rs_pub = rs_pub.clone();
                    let publisher: BoxFut = Box::pin(async move {
                        loop {
                            let mut adv = false;
                            let _ = mr.mdns_services(|s| {
                                if matches!(s, MatterLocalService::Commissionable { .. }) {
                                    adv = true;
                                }
                                Ok(())
                            });
                            rs_pub.published.set(adv);
                            rs_pub.publishes.set(rs_pub.publishes.get() + 1);
                            mr.transport().wait_mdns().await;
                        }
                    });
                    let mut v = vec![t, r, publisher];
                    if with_im {
                        let j: BoxFut = Box::pin(async {
                            let _ = im.run().await;
                            core::future::pending::<()>().await;
                        });
                        v.push(j);
                    }
                    exec::ShuffleSelect::new(subseed(seed, &[12]), shuffle, v).await
                })
            };
            let node_2: BoxFut = {
                let ep = hub.endpoint(2);
                let rs = rs.clone();
                let second = p.second;
                let dev_pass = p.dev_pass;
                let mut r2 = Rng::new(subseed(seed, &[9]));
                let handshakes = handshakes.clone();
                Box::pin(async move {
                    let sc = SecureChannel::new(crypto_2, &());
                    let responder = Responder::new("second", sc, m2, 0);
                    let t: BoxFut = Box::pin(async {
                        let _ = m2.run(crypto_2, ep.clone(), ep.clone(), ep.clone()).await;
                    });
                    let r: BoxFut = Box::pin(async {
                        let _ = responder.run::<2>().await;
                    });
                    let s: BoxFut = Box::pin(async move {
                        if let Some(sec) = second {
                            // wait for the first handshake to start
                            loop {
                                if rs.first_started_at.get().is_some() {
                                    break;
                                }
                                exec::sleep_ms(20).await;
                            }
                            match sec.start {
                                SecondStart::OffsetUs(us) => exec::sleep_us(us as u64).await,
                                SecondStart::AfterHeld(_) => {
                                    for _ in 0..10_000 {
                                        if rs.adv.borrow().held_seen_at.is_some()
                                            || rs.hs_done.get()
                                        {
                                            break;
                                        }
                                        exec::sleep_us(500).await;
                                    }
                                }
                            }
                            let pass = if sec.right {
                                dev_pass
                            } else {
                                let mut w = r2.u32();
                                if w == dev_pass {
                                    w ^= 1;
                                }
                                w
                            };
                            handshakes.set(handshakes.get() + 1);
                            let res = async {
                                let ex = Exchange::initiate_plaintext(m2, crypto_2, addr_r).await?;
                                PaseInitiator::perform(ex, crypto_2, pass).await
                            }
                            .await;
                            *second_result.borrow_mut() = Some(res.map_err(|e| e.code()));
                        }
                        core::future::pending::<()>().await;
                    });
                    exec::ShuffleSelect::new(subseed(seed, &[13]), shuffle, vec![s, t, r]).await
                })
            };
            exec::run(&mut exec_rng, limits, vec![node_i, node_r, node_2])
        }))
    };

    hub.set_adversary(None);

    match run {
        Ok(o) => {
            out.status = Some(o.status);
            out.sched_hash = o.sched_hash;
        }
        Err(e) => {
            out.panic = Some(crate::util::panic_msg(&e));
        }
    }
    out.init_results = init_results.borrow().clone();
    out.second_result = second_result.borrow().clone();
    out.post_result = post_result.borrow().clone();
    out.crafted = crafted_out.borrow().clone();
    out.attempts = attempts_log.borrow().clone();
    out.open_before_post = open_before_post.get();
    out.samples = rs.samples.borrow().clone();
    out.actions = rs.actions.borrow().clone();
    out.adv = rs.adv.borrow().clone();
    out.after = after_snap.borrow().clone();
    out.after2 = after2_snap.borrow().clone();
    out.replay_all = replay_all_out.borrow().clone();
    out.fin = [node::snapshot(&mi), node::snapshot(&mr), node::snapshot(&m2)];
    out.datagrams = hub.tap_len() as u32;
    out.handshakes = handshakes.get();

    // Ground truth from the tap (what the device revealed / granted, and when).
    hub.with_tap(|t| {
        for ev in t {
            if ev.injected {
                continue;
            }
            tap.observe(ev.dgram.src, &ev.dgram.bytes);
            if ev.dgram.src != 1 {
                continue;
            }
            let Some((op, exch, _)) = pase_msg(&ev.dgram.bytes) else {
                continue;
            };
            let Some(dst) = ev.dgram.dst else { continue };
            match op {
                OP_PBKDF_RESP => {
                    out.pbkdf_resp_sent.insert((dst, exch));
                }
                OP_PAKE2 => {
                    out.pake2_sent.entry((dst, exch)).or_insert(ev.dgram.t);
                }
                OP_STATUS if success_status_payload(&ev.dgram.bytes) => {
                    out.success_sent.entry((dst, exch)).or_insert(ev.dgram.t);
                }
                _ => {}
            }
        }
    });
    out.tap_violations = tap.violations();

    if std::env::var("RSMV_TRACE").is_ok() {
        eprintln!("--- params {:?}", p);
        hub.with_tap(|t| {
            for ev in t {
                let i = wire::peek(&ev.dgram.bytes);
                eprintln!(
                    "t={:>10} src={} dst={:?} len={:>4} {:?} deliveries={:?} {}",
                    ev.dgram.t,
                    ev.dgram.src,
                    ev.dgram.dst,
                    ev.dgram.bytes.len(),
                    i.map(|i| (i.session_id, i.ctr, i.exch_flags, i.opcode, i.exch_id, i.ack_ctr)),
                    ev.deliveries,
                    crate::util::hex(&ev.dgram.bytes[..ev.dgram.bytes.len().min(28)])
                );
            }
        });
        for a in &out.actions {
            eprintln!("action t={:>10} {:?}", a.0, a.1);
        }
        for s in &out.samples {
            eprintln!("sample {:?}", s);
        }
        eprintln!(
            "init_results {:?} second {:?} post {:?} crafted {:?}",
            out.init_results, out.second_result, out.post_result, out.crafted
        );
        eprintln!("adv {:?}", out.adv);
        eprintln!("pake2_sent {:?} success_sent {:?}", out.pake2_sent, out.success_sent);
        for (n, ss) in out.after.iter().enumerate() {
            for s in ss {
                eprintln!(
                    "after node{} sess id={} mode={:?} reserved={} local={} peer={} addr={:?}",
                    n, s.id, s.mode, s.reserved, s.local_sess_id, s.peer_sess_id, s.peer_addr
                );
            }
        }
        for (n, ss) in out.fin.iter().enumerate() {
            for s in ss {
                eprintln!(
                    "final node{} sess id={} mode={:?} reserved={} local={} peer={}",
                    n, s.id, s.mode, s.reserved, s.local_sess_id, s.peer_sess_id
                );
            }
        }
        eprintln!("status {:?} panic {:?}", out.status, out.panic);
    }

    out.wall_us = wall0.elapsed().as_micros() as u64;
    out
}

// ---------------------------------------------------------------------------------------
// generator
// ---------------------------------------------------------------------------------------

fn gen_pass(rng: &mut Rng) -> u32 {
    match rng.below(8) {
        0 => 20202021,
        1 => 0,
        2 => u32::MAX,
        3 => 1,
        4 => 99_999_998,
        5 => 0x07FF_FFFF,
        _ => rng.u32(),
    }
}

fn gen_wrong(rng: &mut Rng, right: u32) -> u32 {
    let w = match rng.below(8) {
        0 => right.wrapping_add(1),
        1 => right.wrapping_sub(1),
        2 => 0,
        3 => u32::MAX,
        4 => right ^ 0x8000_0000,
        5 => right.swap_bytes(),
        _ => rng.u32(),
    };
    if w == right {
        right ^ 0x10
    } else {
        w
    }
}

fn gen_fault(rng: &mut Rng) -> WireFault {
    let msg = rng.below(6) as u8;
    let every_copy = rng.chance(2, 3);
    let kind = match rng.below(12) {
        0..=4 => FaultKind::FlipBit {
            bit: if rng.chance(2, 3) {
                rng.below(64 * 8) as u32
            } else {
                rng.u32()
            },
            every_copy,
        },
        5 => FaultKind::Truncate {
            keep: rng.u32(),
            every_copy,
        },
        6 => FaultKind::Extend {
            extra: 1 + rng.below(32) as u8,
            every_copy,
        },
        7 => FaultKind::Duplicate,
        8 => FaultKind::DropFirst {
            copies: 1 + rng.below(3) as u8,
        },
        9 => FaultKind::ReplayLate,
        10 => FaultKind::Reorder,
        _ => FaultKind::FlipBit {
            // a bit inside the payload region (headers are 8 + 6 (+4 ack) bytes)
            bit: (18 * 8 + rng.below(70 * 8)) as u32,
            every_copy: true,
        },
    };
    WireFault { msg, kind }
}

pub fn gen_params(rng: &mut Rng, _idx: u64, force_lockout: bool) -> Params {
    let dev_pass = gen_pass(rng);
    let mut p = Params {
        seed: rng.u64(),
        family: Family::Honest,
        dev_pass,
        init_pass: dev_pass,
        setup: Setup::Open(*rng.pick(&[180u16, 180, 181, 300, 600, 899, 900])),
        pre_delay_ms: *rng.pick(&[0u64, 0, 1, 10, 1000, 30_000]),
        wire: None,
        crafted: None,
        event: None,
        second: None,
        attempts: 0,
        lock_kind: 0,
        with_im: rng.chance(3, 4),
        shuffle: true,
        replay_all: false,
    };
    // weights chosen so that a quick run (≈50 cases per shard) covers every family
    let f = if force_lockout { 100 } else { rng.below(100) };
    match f {
        0..=13 => {
            p.family = Family::Honest;
            match rng.below(10) {
                0 => p.setup = Setup::NeverOpened,
                1 => p.setup = Setup::OpenThenClose,
                2 => {
                    p.setup = Setup::OpenThenExpire(*rng.pick(&[180u16, 181, 240]));
                    p.pre_delay_ms = *rng.pick(&[0u64, 100, 5000]);
                }
                3 => {
                    // invalid timeouts: whatever `open` answers is the ground truth
                    p.setup = Setup::Open(*rng.pick(&[0u16, 1, 179, 901, 65535]));
                }
                4 => {
                    // right at the edge of the window: starts 20 ms before expiry
                    p.setup = Setup::Open(180);
                    p.pre_delay_ms = 180_000 - 20;
                }
                _ => {}
            }
        }
        14..=27 => {
            p.family = Family::WrongPass;
            p.init_pass = gen_wrong(rng, dev_pass);
        }
        28..=52 => {
            p.family = Family::Mutate;
            p.wire = Some(gen_fault(rng));
            if rng.chance(1, 6) {
                // wrong passcode + the initiator's abort report dropped in every copy
                p.init_pass = gen_wrong(rng, dev_pass);
                p.wire = Some(WireFault {
                    msg: 6,
                    kind: FaultKind::DropFirst { copies: 10 },
                });
            }
            p.pre_delay_ms = *rng.pick(&[0u64, 1, 1000]);
            if rng.chance(1, 7) {
                p.init_pass = dev_pass;
                p.wire = None;
                p.replay_all = true;
            }
        }
        53..=64 => {
            p.family = Family::Crafted;
            p.crafted = Some((
                *rng.pick(POINT_KINDS),
                *rng.pick(&[CaKind::Zero, CaKind::Random, CaKind::EchoCb]),
            ));
            p.pre_delay_ms = 0;
        }
        65..=84 => {
            p.family = Family::WindowEvent;
            let ev = *rng.pick(&[
                WinEvent::Close,
                WinEvent::Close,
                WinEvent::CloseReopen,
                WinEvent::Expire,
            ]);
            let k = rng.below(6) as u8;
            p.event = Some((ev, k));
            if ev == WinEvent::Expire {
                let to = *rng.pick(&[180u16, 181, 200]);
                p.setup = Setup::Open(to);
                // the handshake starts 1 s before the expiry instant; message k is held 2.5 s
                p.pre_delay_ms = to as u64 * 1000 - 1000;
            } else {
                p.pre_delay_ms = *rng.pick(&[0u64, 1, 1000]);
            }
        }
        85..=96 => {
            p.family = Family::Concurrent;
            p.second = Some(Second {
                start: if rng.bool() {
                    SecondStart::AfterHeld(rng.below(6) as u8)
                } else {
                    SecondStart::OffsetUs(rng.below(9000) as u32)
                },
                right: rng.bool(),
            });
            if rng.chance(1, 3) {
                p.init_pass = gen_wrong(rng, dev_pass);
            }
            p.pre_delay_ms = *rng.pick(&[0u64, 1, 1000]);
        }
        _ => {
            p.family = Family::Lockout;
            p.attempts = 25;
            p.lock_kind = rng.below(3) as u8;
            p.setup = Setup::Open(*rng.pick(&[180u16, 600, 900]));
            p.pre_delay_ms = 0;
        }
    }
    p
}

// ---------------------------------------------------------------------------------------
// oracle
// ---------------------------------------------------------------------------------------

/// Was a window the harness opened still open (not closed by the harness, not expired) at `t`?
fn legit_open_at(actions: &[(u64, Action)], t: u64) -> bool {
    let mut open_until: Option<u64> = None;
    for (ta, a) in actions {
        if *ta > t {
            break;
        }
        match a {
            Action::Opened(to) => {
                // `open` on an already open window fails (Busy), so an Opened action always
                // starts a new window
                open_until = Some(*ta + *to as u64 * clock::TICKS_PER_SEC);
            }
            Action::Closed(_) => open_until = None,
            _ => {}
        }
    }
    matches!(open_until, Some(u) if t <= u)
}

fn event_class(p: &Params) -> String {
    if let Some((ev, k)) = p.event {
        return format!("{:?}-while-{}-in-flight", ev, MSG_NAMES[k as usize % 7]);
    }
    match p.setup {
        Setup::NeverOpened => "never-opened".into(),
        Setup::OpenThenClose => "after-close".into(),
        Setup::OpenThenExpire(_) => "after-expiry".into(),
        Setup::Open(_) => {
            if p.family == Family::Lockout {
                "after-lockout".into()
            } else {
                format!("{:?}", p.family)
            }
        }
    }
}

fn fault_class(w: &WireFault) -> String {
    let k = match &w.kind {
        FaultKind::FlipBit { every_copy, .. } => format!("flip/every={}", every_copy),
        FaultKind::Truncate { every_copy, .. } => format!("trunc/every={}", every_copy),
        FaultKind::Extend { every_copy, .. } => format!("ext/every={}", every_copy),
        FaultKind::Duplicate => "dup".into(),
        FaultKind::DropFirst { copies } => format!("drop/{}", (*copies).min(4)),
        FaultKind::ReplayLate => "replay".into(),
        FaultKind::Reorder => "reorder".into(),
        FaultKind::Hold { .. } => "hold".into(),
    };
    format!("{}/{}", MSG_NAMES[w.msg as usize % 7], k)
}

fn union_sessions(a: &[VerifSession], b: &[VerifSession]) -> Vec<VerifSession> {
    let mut v = pase_sessions(a);
    for s in pase_sessions(b) {
        if !v
            .iter()
            .any(|x| x.local_sess_id == s.local_sess_id && x.enc_key == s.enc_key)
        {
            v.push(s);
        }
    }
    v
}

pub fn judge(rep: &mut Report, p: &Params, o: &Outcome, replay: serde_json::Value) {
    if let Some(msg) = &o.panic {
        rep.violation(
            "no-panic",
            &format!("C02/panic/{}", crate::util::panic_class(msg)),
            format!("panic during PASE scenario: {} params {:?}", msg, p),
            replay.clone(),
        );
        return;
    }
    match o.status {
        Some(RunStatus::Done) => {}
        Some(s) => {
            rep.inconclusive(&format!("run-status-{:?}", s));
            return;
        }
        None => {
            rep.inconclusive("setup-failed");
            return;
        }
    }

    let u3 = |n: usize| {
        let a = union_sessions(&o.after[n], &o.after2[n]);
        let mut v = a;
        for s in pase_sessions(&o.fin[n]) {
            if !v
                .iter()
                .any(|x| x.local_sess_id == s.local_sess_id && x.enc_key == s.enc_key)
            {
                v.push(s);
            }
        }
        v
    };
    let dev = u3(1);
    let i0 = u3(0);
    let i2 = u3(2);
    // Device sessions in PASE mode that are still `reserved` (keys installed after a verified
    // proof, waiting for the status report to be acknowledged): they count as "the device has
    // a session for this handshake" when an initiator-side session is matched, but are not
    // judged by the rules about non-reserved sessions.
    let dev_pending: Vec<VerifSession> = o.after[1]
        .iter()
        .chain(o.after2[1].iter())
        .filter(|s| matches!(s.mode, SessionMode::Pase { .. }) && s.reserved)
        .cloned()
        .collect();
    if !dev_pending.is_empty() {
        rep.count("device_pase_session_still_reserved_at_snapshot");
    }
    let fam = format!("{:?}", p.family);

    rep.count(&format!(
        "outcome:{}:dev={}/init0={}/init2={}",
        fam,
        dev.len().min(3),
        i0.len().min(3),
        i2.len().min(3)
    ));
    rep.count_n("sessions_created_device", dev.len() as u64);
    rep.count_n("sessions_created_initiators", (i0.len() + i2.len()) as u64);
    rep.count_n("handshakes_run", o.handshakes as u64);
    for r in o.init_results.iter().chain(o.second_result.iter()).chain(o.post_result.iter()) {
        match r {
            Ok(()) => rep.count("initiator_result:Ok"),
            Err(c) => rep.count(&format!("initiator_result:{:?}", c)),
        }
    }
    for c in &o.crafted {
        rep.count(&format!(
            "crafted_reply:resp={}/pake2={}/last_op={:?}/status={:?}/err={:?}",
            c.got_resp, c.got_pake2, c.last_opcode, c.last_status, c.err
        ));
    }

    // Passcode of each initiator node (None: the party cannot know any passcode).
    let pass_of = |n: usize| -> Option<u32> {
        match (p.family, n) {
            (Family::Crafted, 0) => None,
            // lockout: node 0 uses wrong passcodes except for the very last attempt
            (Family::Lockout, 0) => Some(p.dev_pass),
            (_, 0) => Some(p.init_pass),
            (_, 2) => p.second.map(|s| if s.right { p.dev_pass } else { !p.dev_pass }),
            _ => None,
        }
    };
    let node_of = |a: &Address| o.addrs.iter().position(|x| x == a);

    // ---- R1: passcode ---------------------------------------------------------------
    for s in &dev {
        rep.count("R1-device-session-checked");
        let n = node_of(&s.peer_addr);
        let ok = n.and_then(pass_of).map(|pw| pw == p.dev_pass).unwrap_or(false);
        if !ok {
            rep.violation(
                "R1-passcode",
                &format!("C02/R1/device-session-for-peer-without-passcode/{}", fam),
                format!(
                    "device holds a PASE session (local id {}, peer {:?} = node {:?}) for a peer that does not know the passcode; params {:?}",
                    s.local_sess_id, s.peer_addr, n, p
                ),
                replay.clone(),
            );
        }
    }
    for (n, ss) in [(0usize, &i0), (2usize, &i2)] {
        if ss.is_empty() {
            continue;
        }
        let ok = pass_of(n).map(|pw| pw == p.dev_pass).unwrap_or(false);
        if !ok {
            rep.violation(
                "R1-passcode",
                &format!("C02/R1/initiator-session-with-wrong-passcode/{}", fam),
                format!(
                    "initiator node {} holds a PASE session although its passcode differs from the device's; params {:?}",
                    n, p
                ),
                replay.clone(),
            );
        }
    }
    if p.family == Family::WrongPass || (p.family == Family::Mutate && p.init_pass != p.dev_pass) {
        if dev.is_empty() && i0.is_empty() {
            rep.count("wrong_passcode_rejected");
        }
    }
    if p.family == Family::Crafted && dev.is_empty() {
        rep.count("crafted_rejected");
        if let Some((pk, _)) = p.crafted {
            rep.count(&format!("crafted:{:?}", pk));
        }
    }

    // A replayed message / handshake must not multiply sessions: per initiator node at most
    // one device session per handshake it ran with the right passcode (one per run here).
    for n in [0usize, 2usize] {
        let cnt = dev
            .iter()
            .filter(|s| node_of(&s.peer_addr) == Some(n))
            .count();
        if cnt > 1 {
            rep.violation(
                "R1-replay",
                &format!("C02/R1/more-device-sessions-than-handshakes/{}", fam),
                format!("device holds {} PASE sessions for initiator node {} which ran one right-passcode handshake; params {:?}", cnt, n, p),
                replay.clone(),
            );
        }
    }
    if let Some(ra) = &o.replay_all {
        rep.count(&format!(
            "replay_all:injected={}/replies={:?}/final_success={:?}",
            ra.injected, ra.replies, ra.final_success
        ));
        if ra.replies.contains(&OP_PAKE2) {
            rep.count("replay_all_reached_proof");
        }
        if ra.final_success == Some(true) {
            rep.violation(
                "R1-replay",
                "C02/R1/replayed-handshake-accepted",
                format!("the device answered a replayed recorded handshake with a success status; {:?}; params {:?}", ra, p),
                replay.clone(),
            );
        }
        // (a device session for node 2's address is reported by the passcode rule above)
    }

    // ---- R1: window ----------------------------------------------------------------
    // Every success status the device sent marks the instant a proof was accepted.
    let reopened = o
        .actions
        .iter()
        .filter(|(_, a)| matches!(a, Action::Opened(_)))
        .count()
        > 1;
    for ((n, exch), t) in &o.success_sent {
        rep.count("R1-window-checked");
        if legit_open_at(&o.actions, *t) {
            if reopened {
                rep.note("session-accepted-in-a-window-reopened-mid-handshake");
            }
            continue;
        }
        if dev.is_empty() {
            rep.note("success-status-sent-while-closed-but-no-session-observed");
            continue;
        }
        rep.violation(
            "R1-window",
            &format!("C02/R1/session-while-window-closed/{}", event_class(p)),
            format!(
                "device accepted the final proof of initiator node {} (exchange {}) at t={} µs and holds a PASE session, but no commissioning window was open and unexpired at that instant (window actions: {:?}; device's own view in samples: {:?}); params {:?}",
                n, exch, t, o.actions,
                o.samples.iter().map(|s| (s.t, s.tag, s.open)).collect::<Vec<_>>(), p
            ),
            replay.clone(),
        );
    }
    if !dev.is_empty() && o.success_sent.is_empty() {
        rep.note("device-session-without-success-status-on-the-wire");
    }

    // ---- R1: transcript ------------------------------------------------------------
    if let Some(w) = &p.wire {
        let a = &o.adv;
        if a.mutated_copies > 0 {
            rep.count("runs_with_mutant_delivered");
            rep.count(&format!("mutated:{}", MSG_NAMES[w.msg as usize % 7]));
            if a.covered_unknown {
                rep.note("mutated-message-covered-range-unknown");
            } else if a.clean_copies == 0 && a.covered_altered_all && w.msg <= 4 {
                rep.count("R1-transcript-checked");
                let dev0 = dev
                    .iter()
                    .filter(|s| node_of(&s.peer_addr) == Some(0))
                    .count();
                if dev0 > 0 || !i0.is_empty() {
                    rep.violation(
                        "R1-transcript",
                        &format!("C02/R1/session-despite-altered-transcript/{}", fault_class(w)),
                        format!(
                            "every copy of {} was altered in bytes covered by the transcript, yet a session exists (device {} / initiator {}); adversary {:?}; params {:?}",
                            MSG_NAMES[w.msg as usize % 7], dev0, i0.len(), a, p
                        ),
                        replay.clone(),
                    );
                } else {
                    rep.count("mutated_covered_rejected");
                }
            } else if dev.is_empty() {
                rep.count("mutated_uncovered_or_clean_copy:no-session");
            } else {
                rep.count("mutated_uncovered_or_clean_copy:session");
            }
        } else if a.target_seen > 0 {
            rep.count(&format!("schedule_fault:{}", fault_class(w)));
        }
    }

    // ---- R1: mirrored keys ----------------------------------------------------------
    for (n, ss) in [(0usize, &i0), (2usize, &i2)] {
        for si in ss.iter() {
            for sr in dev.iter() {
                if node_of(&sr.peer_addr) == Some(n)
                    && si.peer_sess_id == sr.local_sess_id
                    && sr.peer_sess_id == si.local_sess_id
                {
                    rep.count("R1-mirror-checked");
                    if si.enc_key != sr.dec_key || si.dec_key != sr.enc_key {
                        rep.violation(
                            "R1-mirror",
                            "C02/R1/key-mismatch",
                            format!("both ends hold the PASE session of one handshake with different keys; params {:?}", p),
                            replay.clone(),
                        );
                    }
                    if si.enc_key == si.dec_key || si.enc_key == [0u8; 16] {
                        rep.violation(
                            "R1-mirror",
                            "C02/R1/degenerate-keys",
                            format!("PASE session keys degenerate; params {:?}", p),
                            replay.clone(),
                        );
                    }
                }
            }
        }
        if !ss.is_empty()
            && !dev
                .iter()
                .chain(dev_pending.iter())
                .any(|sr| node_of(&sr.peer_addr) == Some(n))
        {
            // The initiator believes in a session the device does not have: the success
            // status is unauthenticated, so this needs a forged one; nobody forges here.
            rep.violation(
                "R1-mirror",
                &format!("C02/R1/initiator-session-without-device-session/{}", fam),
                format!("initiator node {} holds a PASE session, the device holds none for it; params {:?}", n, p),
                replay.clone(),
            );
        }
    }

    // ---- non-vacuity: the honest undisturbed handshake succeeds --------------------------
    let undisturbed = p.family == Family::Honest
        && p.wire.is_none()
        && p.event.is_none()
        && p.second.is_none();
    if undisturbed {
        let t_start = o
            .samples
            .iter()
            .find(|s| s.tag == "pre")
            .map(|s| s.t)
            .unwrap_or(0);
        // open for the whole handshake (6 datagrams of 1 ms latency each, no virtual time for
        // computing; 15 ms of slack)
        let open_all_along = legit_open_at(&o.actions, t_start)
            && legit_open_at(&o.actions, t_start + 15 * clock::TICKS_PER_MS);
        if open_all_along {
            rep.count("honest-checked");
            if dev.len() == 1 && i0.len() == 1 && o.init_results.first() == Some(&Ok(())) {
                rep.count("honest_sessions");
            } else {
                rep.violation(
                    "R1-honest",
                    "C02/R1/honest-handshake-failed",
                    format!(
                        "honest undisturbed handshake with an open window did not produce one session at each end: device {} initiator {} result {:?}; params {:?}",
                        dev.len(), i0.len(), o.init_results, p
                    ),
                    replay.clone(),
                );
            }
        } else if !legit_open_at(&o.actions, t_start) {
            rep.count("closed-window-checked");
            if dev.is_empty() && i0.is_empty() {
                rep.count(&format!("closed_window_rejected:{}", event_class(p)));
            }
            // (a session here is reported by the R1-window rule through the success status)
            if !dev.is_empty() && o.success_sent.is_empty() {
                rep.violation(
                    "R1-window",
                    &format!("C02/R1/session-while-window-closed/{}", event_class(p)),
                    format!("device holds a PASE session although no window was open when the handshake started; params {:?}", p),
                    replay.clone(),
                );
            }
        } else {
            rep.note("honest-run-straddling-the-expiry-instant");
        }
    }

    // ---- R2: counting / lockout ----------------------------------------------------
    // A failed proof = the device committed to a handshake by sending Pake2 (which carries its
    // confirmation cB and lets the peer test one passcode guess) and did not accept it.
    let failed_before = |t: u64| -> u64 {
        o.pake2_sent
            .iter()
            .filter(|(k, tp)| **tp + 20_000 <= t && !o.success_sent.contains_key(*k))
            .count() as u64
    };
    let total_failed = failed_before(u64::MAX / 2);
    rep.count_n("failed_proofs_ground_truth", total_failed);
    if !reopened {
        let check = |rep: &mut Report, t: u64, open: bool, failures: Option<u8>, at: &str| {
            let k = failed_before(t);
            if k == 0 {
                return;
            }
            rep.count("R2-count-checked");
            if open {
                let c = failures.unwrap_or(0) as u64;
                if c < k {
                    rep.violation(
                        "R2-count",
                        &format!("C02/R2/under-counted/{}", fam),
                        format!(
                            "at {} (t={}): {} handshakes got a Pake2 from the device and were not accepted, the open window has counted only {} failures; params {:?}",
                            at, t, k, c, p
                        ),
                        replay.clone(),
                    );
                }
                if k >= 20 {
                    rep.violation(
                        "R2-lockout",
                        &format!("C02/R2/window-open-after-20-failures/{}", fam),
                        format!("at {} (t={}): {} failed proofs and the window is still open (hook says {:?}); params {:?}", at, t, k, failures, p),
                        replay.clone(),
                    );
                }
            } else if k >= 20 {
                rep.count("R2-closed-after-20-checked");
            }
        };
        for (t, failures, open) in &o.attempts {
            check(rep, *t, *open, *failures, "attempt");
        }
        if let Some(s) = o.samples.iter().rev().find(|s| s.tag == "final") {
            // only failures whose handler had the time to finish (all of them, at quiescence)
            check(rep, s.t, s.open, s.failures, "final");
        }
    } else {
        rep.note("counting-not-judged-across-reopen");
    }
    if let Some(m) = o.samples.iter().filter_map(|s| s.failures).max() {
        rep.count_n("failures_counted_by_device_max_sum", m as u64);
        rep.count(&format!("failures_counted_max={}", m.min(21)));
    }
    if total_failed >= 20 && o.samples.iter().any(|s| s.tag == "final" && !s.open) {
        rep.count("lockout_observed");
    }
    if p.family == Family::Lockout {
        if let Some(open) = o.open_before_post {
            rep.count(&format!("lockout:window_open_before_right_attempt={}", open));
            if !open {
                rep.count("R2-post-lockout-checked");
                if !dev.is_empty() || !i0.is_empty() || o.post_result == Some(Ok(())) {
                    rep.violation(
                        "R2-lockout",
                        "C02/R2/session-after-lockout",
                        format!(
                            "after the window was revoked an attempt with the right passcode produced a session (device {} initiator {} result {:?}); params {:?}",
                            dev.len(), i0.len(), o.post_result, p
                        ),
                        replay.clone(),
                    );
                } else {
                    rep.count("right_passcode_rejected_after_lockout");
                }
            }
        }
    }

    // ---- R3: advertised <=> open ---------------------------------------------------------
    for s in &o.samples {
        rep.count("mdns_equivalence_checks");
        rep.count(&format!("window_state:{}:{}", s.tag, if s.open { "open" } else { "closed" }));
        if s.open != s.advertised {
            rep.violation(
                "R3-advertised-iff-open",
                &format!("C02/R3/advertised={}-open={}/{}", s.advertised, s.open, s.tag),
                format!("at step {} (t={}): commissionable service advertised = {}, window open = {}; params {:?}", s.tag, s.t, s.advertised, s.open, p),
                replay.clone(),
            );
        }
        match s.tag {
            "closed" | "ev-closed" => {
                rep.count("R3-closed-checked");
                if s.open {
                    rep.violation(
                        "R3-advertised-iff-open",
                        "C02/R3/open-after-close",
                        format!("window still open right after close_comm_window; params {:?}", p),
                        replay.clone(),
                    );
                }
            }
            "expired" => {
                if p.with_im {
                    rep.count("R3-expiry-checked");
                    if !s.open && !s.advertised && s.published {
                        rep.violation(
                            "R3-advertised-iff-open",
                            "C02/R3/still-published-after-expiry-plus-poll/notification-driven-publisher",
                            format!("t={}: the window has expired and rs-matter's own service list no longer holds the commissionable service, but an mDNS back end that republishes when Transport::wait_mdns fires was never told: it still publishes it (actions {:?}); params {:?}", s.t, o.actions, p),
                            replay.clone(),
                        );
                    }
                    if s.open || s.advertised {
                        rep.violation(
                            "R3-advertised-iff-open",
                            "C02/R3/open-after-expiry-plus-poll",
                            format!("t={}: window open={} advertised={} more than the polling period after its expiry instant (actions {:?}); params {:?}", s.t, s.open, s.advertised, o.actions, p),
                            replay.clone(),
                        );
                    }
                } else if s.open {
                    // nobody polls `check_comm_window_timeout` without the InteractionModel job
                    rep.note("expired-window-still-reported-open-without-IM-poller(not judged)");
                }
            }
            "opened" | "ev-reopened" => {
                let ok = o
                    .actions
                    .iter()
                    .rev()
                    .find(|(t, _)| *t <= s.t)
                    .map(|(_, a)| matches!(a, Action::Opened(_)))
                    .unwrap_or(false);
                if ok && !s.open {
                    rep.note("window-closed-right-after-successful-open");
                }
                if !ok {
                    rep.count("open_refused");
                }
            }
            _ => {}
        }
    }

    // ---- R4: nothing left behind at quiescence ------------------------------------------
    if let Some(s) = o.samples.iter().rev().find(|s| s.tag == "final") {
        rep.count("R4-checked");
        let r_dev = reserved_sessions(&o.fin[1]);
        if r_dev > 0 {
            rep.violation(
                "R4-quiescence",
                &format!("C02/R4/reserved-session-left-at-device/{}", fam),
                format!("{} reserved session(s) at the device {} ms after the last handshake activity; params {:?}", r_dev, QUIESCE_MS, p),
                replay.clone(),
            );
        }
        if s.marker {
            rep.violation(
                "R4-quiescence",
                &format!("C02/R4/establishment-marker-left/{}", fam),
                format!("PASE establishment-in-progress marker still set {} ms after the last handshake activity; params {:?}", QUIESCE_MS, p),
                replay.clone(),
            );
        }
        let r_init = reserved_sessions(&o.fin[0]) + reserved_sessions(&o.fin[2]);
        if r_init > 0 {
            rep.violation(
                "R4-quiescence",
                &format!("C02/R4/reserved-session-left-at-initiator/{}", fam),
                format!("{} reserved session(s) at an initiator at quiescence; params {:?}", r_init, p),
                replay.clone(),
            );
        }
    }

    if p.event.is_some() {
        if o.adv.held_seen_at.is_some() {
            rep.count("window_event_runs");
            rep.count(&format!("window_event:{}:dev_sessions={}", event_class(p), dev.len().min(2)));
        } else {
            rep.count("window_event_message_never_seen");
        }
    }
    if let Some(sec) = p.second {
        rep.count(&format!(
            "concurrent:first(right={})={:?}/second(right={})={:?}",
            p.init_pass == p.dev_pass,
            o.init_results.first().map(|r| r.is_ok()),
            sec.right,
            o.second_result.as_ref().map(|r| r.is_ok())
        ));
        if p.init_pass == p.dev_pass && o.init_results.first().map(|r| r.is_err()).unwrap_or(false) {
            // availability only (outside C02's statement): an honest handshake lost to a
            // concurrent one
            rep.note("honest-first-handshake-failed-because-of-a-concurrent-initiator");
        }
    }

    for v in &o.tap_violations {
        rep.violation(
            "C15-tap",
            &format!("C15/tap/{}", v.split(':').next().unwrap_or("x")),
            format!("passive nonce monitor: {} params {:?}", v, p),
            replay.clone(),
        );
    }
}

fn params_json(p: &Params) -> serde_json::Value {
    json!({
        "check": "C02",
        "params": format!("{:?}", p),
        "gen": "see gen_params; replay by (shard_seed, index, force_lockout)",
    })
}

pub fn run(ctx: &Ctx) -> Report {
    let mut rep = Report::new(
        "C02",
        "Real PASE handshakes (rs-matter initiator or hand-crafted) against a real device node over the simulated \
         network; ground truth per run (passcodes, window actions with instants, adversary's alteration and whether it \
         hits transcript-covered bytes, Pake2/success instants from the tap). Non-trivial = every run except the plain \
         honest one; distinct = distinct (family, setup, fault/event/second/crafted class, passcode relation, outcome) tuples.",
    );
    crate::util::quiet_panics();
    rep.assumptions.push("only basic windows (passcode, 2000 iterations, random 32-byte salt) are reachable through the public Matter API; enhanced windows (verifier, salt 16..32, iterations 1000..100000) need an admin CASE session + IM invoke and are not driven here".into());
    rep.assumptions.push("a failed proof is counted by the oracle when the device sent Pake2 for a handshake it did not accept; aborts before Pake2 (invalid pA) are recorded, not required to be counted".into());
    rep.assumptions.push("cryptographic strength is not tested: no search for cA forgeries".into());
    rep.floor("honest_sessions", 24);
    rep.floor("wrong_passcode_rejected", 24);
    rep.floor("runs_with_mutant_delivered", 40);
    rep.floor("R1-transcript-checked", 16);
    rep.floor("crafted_rejected", 16);
    rep.floor("window_event_runs", 30);
    rep.floor("lockout_observed", 1);
    rep.floor("mdns_equivalence_checks", 1000);
    rep.floor("R4-checked", 200);
    rep.floor("replay_all_reached_proof", 4);

    if let Some(r) = &ctx.replay {
        let seed: u64 = r["shard_seed"].as_str().and_then(|s| s.parse().ok()).unwrap_or(0);
        let idx = r["index"].as_u64().unwrap_or(0);
        let force = r["force_lockout"].as_bool().unwrap_or(false);
        let mut rng = Rng::new(subseed(seed, &[idx]));
        let p = gen_params(&mut rng, idx, force);
        let o = run_case(&p);
        rep.evaluations += 1;
        judge(&mut rep, &p, &o, r.clone());
        rep.sample(json!({"params": format!("{:?}", p), "init_results": format!("{:?}", o.init_results),
            "samples": format!("{:?}", o.samples), "actions": format!("{:?}", o.actions)}));
        return rep;
    }

    // Measured: ≈ 5 ms wall per handshake (PBKDF2 with 2000 iterations on both sides, debug
    // profile), ≈ 4 handshakes per scenario run on average (a lockout run is 26). Quick: 3 200
    // scenario runs (≈ 13 000 handshakes, ≈ 5 s per shard); thorough: 96 000 runs (≈ 400 000
    // handshakes, ≈ 2.5 min per shard). A quarter of the shards is forced to start with a
    // lockout run so that the floor does not depend on the draw.
    let n = ctx.share(3_200, 96_000);
    let shard_seed = ctx.shard_seed();
    let mut wall_total = 0u64;
    let mut hs_total = 0u64;
    for k in 0..n {
        let idx = k * ctx.nshards + ctx.shard;
        let force = k == 0 && ctx.shard % 4 == 0;
        let mut rng = Rng::new(subseed(shard_seed, &[idx]));
        let p = gen_params(&mut rng, idx, force);
        let o = run_case(&p);
        rep.evaluations += 1;
        wall_total += o.wall_us;
        hs_total += o.handshakes as u64;
        let mut pj = params_json(&p);
        pj["shard_seed"] = json!(shard_seed.to_string());
        pj["index"] = json!(idx);
        pj["force_lockout"] = json!(force);
        judge(&mut rep, &p, &o, pj);

        let trivial = p.family == Family::Honest && matches!(p.setup, Setup::Open(180..=900)) && p.pre_delay_ms < 100_000;
        if !trivial {
            let mut f = Fnv::new();
            f.add(
                format!(
                    "{:?}|{:?}|{:?}|{:?}|{:?}|{:?}|{}|{}|{}|{}",
                    p.family,
                    match p.setup {
                        Setup::Open(t) => format!("open{}", if (180..=900).contains(&t) { "valid" } else { "invalid" }),
                        s => format!("{:?}", s),
                    },
                    p.wire.as_ref().map(fault_class),
                    p.event,
                    p.second.map(|s| (matches!(s.start, SecondStart::AfterHeld(_)), match s.start { SecondStart::AfterHeld(k) => k as u32, SecondStart::OffsetUs(u) => u / 1000 }, s.right)),
                    p.crafted,
                    p.init_pass == p.dev_pass,
                    p.with_im,
                    pase_sessions(&o.after[1]).len(),
                    pase_sessions(&o.after[0]).len(),
                )
                .as_bytes(),
            );
            rep.distinct.insert(f.0);
        }
        rep.interleavings.insert(o.sched_hash);
        rep.count_n("datagrams_observed", o.datagrams as u64);
        if k < 3 {
            rep.sample(json!({"params": format!("{:?}", p), "init_results": format!("{:?}", o.init_results),
                "device_pase_sessions": pase_sessions(&o.after[1]).len(), "initiator_pase_sessions": pase_sessions(&o.after[0]).len(),
                "datagrams": o.datagrams, "handshakes": o.handshakes,
                "samples": o.samples.iter().map(|s| format!("{}@{}:{}/{}/{:?}/{}", s.tag, s.t, s.open, s.advertised, s.failures, s.marker)).collect::<Vec<_>>()}));
        }
    }
    // Cost figures are wall-clock and therefore not part of the (deterministic) report
    // unless asked for.
    if std::env::var("RSMV_WALL").is_ok() {
        rep.count_n("wall_us_total", wall_total);
        rep.count_n("wall_us_per_handshake", if hs_total > 0 { wall_total / hs_total } else { 0 });
    }
    rep
}
