//! C01 — CASE admits only holders of a valid NOC of the addressed fabric.
//!
//! Two real `Matter` nodes over the simulated network. The generator knows the ground
//! truth of every run (which fabric is addressed, which chain each side presents and its
//! single defect, which wire mutation the adversary applied and whether an unmodified
//! copy also got through); the oracle compares the session tables of both nodes with it.

use core::num::NonZeroU8;
use std::cell::RefCell;
use std::panic::{catch_unwind, AssertUnwindSafe};
use std::rc::Rc;

use serde_json::json;

use rs_matter::cert::gen::Validity;
use rs_matter::crypto::{Crypto, SecretKey, SigningSecretKey};
use rs_matter::error::{Error, ErrorCode};
use rs_matter::respond::Responder;
use rs_matter::sc::case::CaseInitiator;
use rs_matter::sc::{OpCode, SecureChannel};
use rs_matter::transport::exchange::Exchange;
use rs_matter::transport::session::verif::VerifSession;
use rs_matter::transport::session::SessionMode;
use rs_matter::Matter;

use crate::report::{Ctx, Report};
use crate::sim::exec::{self, BoxFut, Limits, RunStatus};
use crate::sim::net::{Delivery, NetHub};
use crate::sim::node::{self, FabricCa, NodeCreds};
use crate::sim::rng::{subseed, Fnv, Rng};
use crate::sim::wire;
use crate::sim::{clock, tapmon};

pub const INIT_NODE: u64 = 0x1001;
pub const RESP_NODE: u64 = 0x2002;

/// What is wrong with the credentials one side presents (exactly one thing, or nothing).
#[derive(Clone, Copy, Debug, PartialEq, Eq)]
pub enum CredDefect {
    None,
    /// NOC issued by a CA of another root (same fabric id, same IPK known to the attacker).
    ForeignRootSameFabricId,
    /// NOC chains to the right root but carries another fabric id (issued under a CA
    /// whose certificates carry a different fabric id but the same root key is impossible;
    /// modelled as: same root key pair re-certified for a different fabric id).
    WrongFabricId,
    /// NOC not yet valid / expired relative to the verifier's clock.
    NotYetValid,
    Expired,
    /// Valid chain, but the private key used to sign the TBS is not the NOC's key.
    WrongPrivateKey,
    /// One bit of the NOC signature flipped.
    NocSignatureBit,
    /// One bit of the ICAC signature flipped (chain with ICAC only).
    IcacSignatureBit,
    /// ICAC replaced by an ICAC of another root.
    ForeignIcac,
    /// The NOC was issued (signed) by another, genuine NOC of the fabric, which is presented
    /// in the ICAC position: a fabric member minting identities (chain without ICAC only).
    NocIssuedByNoc,
    /// A complete, well-formed chain of a SIBLING fabric under the same root: an ICAC issued by
    /// the addressed fabric's root CA but carrying another fabric id, and a NOC of that other
    /// fabric issued by it.
    SiblingFabricSameRoot,
    /// NOT a defect (control for the one above): both sides hold valid NOCs issued directly by
    /// a root certificate that carries no fabric id. The handshake must succeed.
    FabriclessRootHonest,
}

pub const CRED_DEFECTS: &[CredDefect] = &[
    CredDefect::ForeignRootSameFabricId,
    CredDefect::WrongFabricId,
    CredDefect::NotYetValid,
    CredDefect::Expired,
    CredDefect::WrongPrivateKey,
    CredDefect::NocSignatureBit,
    CredDefect::IcacSignatureBit,
    CredDefect::ForeignIcac,
    CredDefect::NocIssuedByNoc,
    CredDefect::SiblingFabricSameRoot,
    CredDefect::FabriclessRootHonest,
];

#[derive(Clone, Debug)]
pub struct Params {
    pub seed: u64,
    pub with_icac: bool,
    pub cats: Vec<u32>,
    /// Which side presents defective credentials.
    pub defect_side_initiator: bool,
    pub defect: CredDefect,
    /// Wire interference: (message ordinal among handshake datagrams initiator+responder, kind, arg)
    pub wire: WireFault,
    /// Extra fabrics on the responder (addressed one is always present).
    pub extra_fabrics: u8,
    /// Random loss/dup/delay percentage (0 = none).
    pub chaos: u8,
    pub shuffle: bool,
}

#[derive(Clone, Debug, PartialEq, Eq)]
pub enum WireFault {
    None,
    /// Flip bit `bit` of the `nth` handshake datagram of direction `from_initiator`; the
    /// original is NOT delivered (but retransmissions are untouched).
    FlipBit {
        nth: u8,
        from_initiator: bool,
        bit: u32,
        every_copy: bool,
    },
    /// Truncate to `len` bytes.
    Truncate {
        nth: u8,
        from_initiator: bool,
        keep: u32,
        every_copy: bool,
    },
    /// Append bytes.
    Extend {
        nth: u8,
        from_initiator: bool,
        extra: u8,
    },
    /// Deliver the datagram twice.
    Duplicate { nth: u8, from_initiator: bool },
    /// Drop the first `copies` transmissions of the nth datagram.
    DropFirst {
        nth: u8,
        from_initiator: bool,
        copies: u8,
    },
    /// Replay the nth datagram again after the handshake has finished.
    ReplayLate { nth: u8, from_initiator: bool },
    /// Swap: hold the nth datagram until the next one from the same side was delivered.
    Reorder { nth: u8, from_initiator: bool },
}

#[derive(Clone, Debug, Default)]
pub struct Outcome {
    pub init_result: Option<Result<(), ErrorCode>>,
    pub init_sessions: Vec<VerifSession>,
    pub resp_sessions: Vec<VerifSession>,
    pub status: Option<RunStatus>,
    pub mutated_delivered: u32,
    pub clean_copy_delivered: bool,
    pub datagrams: u32,
    pub sched_hash: u64,
    pub tap_violations: Vec<String>,
    pub resp_fab_idx: u8,
    pub init_fab_idx: u8,
    pub panic: Option<String>,
    pub max_copies: u32,
    /// (secured datagrams seen by the passive monitor, byte-identical retransmissions among them)
    pub tap_stats: (u64, u64),
    /// What CASE's own chain validation (`CaseP::validate_certs`, called directly with the
    /// verifying node's fabric record) says about the credentials the other side presents:
    /// Some(true) = accepted.
    pub direct_validate: Option<bool>,
}

fn secure_case(s: &[VerifSession]) -> Vec<VerifSession> {
    s.iter()
        .filter(|s| matches!(s.mode, SessionMode::Case { .. }) && !s.reserved)
        .cloned()
        .collect()
}

/// Build credentials with the requested defect for `node_id`.
#[allow(clippy::too_many_arguments)]
fn make_creds<C: Crypto>(
    crypto: &C,
    rng: &mut Rng,
    ca: &FabricCa,
    node_id: u64,
    cats: &[u32],
    defect: CredDefect,
    now_matter_secs: u32,
    // Some(rcac id): the case runs under a harness-written root certificate that carries no
    // fabric id (a root CA shared by several fabrics); NOCs are then written by the harness too
    fabricless_root: Option<u64>,
) -> Result<(Vec<u8> /*icac*/, NodeCreds), Error> {
    match defect {
        CredDefect::None | CredDefect::FabriclessRootHonest if fabricless_root.is_some() => {
            let root_key = crate::mon::c19_certgen::key_from_secret(crypto, ca.rcac_key.reference());
            let issuer = vec![crate::mon::c19_certgen::DnAttr::u(crate::mon::c19_certgen::DN_RCAC_ID, fabricless_root.unwrap())];
            let (noc, key) = cg_noc(crypto, rng, node_id, cats, ca.fabric_id, issuer, &root_key)?;
            Ok((Vec::new(), NodeCreds { node_id, cats: cats.to_vec(), noc, key }))
        }
        CredDefect::None => Ok((ca.icac.clone(), ca.mint(crypto, node_id, cats)?)),
        CredDefect::FabriclessRootHonest => Err(ErrorCode::Invalid.into()),
        CredDefect::ForeignRootSameFabricId => {
            let mut other = FabricCa::new(crypto, rng, ca.fabric_id, !ca.icac.is_empty())?;
            other.ipk = ca.ipk;
            let creds = other.mint(crypto, node_id, cats)?;
            Ok((other.icac.clone(), creds))
        }
        CredDefect::WrongFabricId => {
            // Same root *key*, but certificates issued for another fabric id: a CA hierarchy
            // re-certified under fabric id + 1. The NOC then carries the wrong fabric id.
            let other = recertify(crypto, rng, ca, ca.fabric_id + 1)?;
            let creds = other.mint(crypto, node_id, cats)?;
            Ok((other.icac.clone(), creds))
        }
        CredDefect::NotYetValid => {
            let v = Validity {
                not_before: now_matter_secs + 3600,
                not_after: 0,
            };
            Ok((
                ca.icac.clone(),
                ca.mint_with_validity(crypto, node_id, cats, v)?,
            ))
        }
        CredDefect::Expired => {
            let v = Validity {
                not_before: 1,
                not_after: now_matter_secs - 3600,
            };
            Ok((
                ca.icac.clone(),
                ca.mint_with_validity(crypto, node_id, cats, v)?,
            ))
        }
        CredDefect::WrongPrivateKey => {
            let mut creds = ca.mint(crypto, node_id, cats)?;
            let other = ca.mint(crypto, node_id, cats)?;
            creds.key = other.key;
            Ok((ca.icac.clone(), creds))
        }
        CredDefect::NocSignatureBit => {
            let mut creds = ca.mint(crypto, node_id, cats)?;
            flip_signature_bit(&mut creds.noc, rng);
            Ok((ca.icac.clone(), creds))
        }
        CredDefect::IcacSignatureBit => {
            let creds = ca.mint(crypto, node_id, cats)?;
            let mut icac = ca.icac.clone();
            flip_signature_bit(&mut icac, rng);
            Ok((icac, creds))
        }
        CredDefect::ForeignIcac => {
            let other = FabricCa::new(crypto, rng, ca.fabric_id, true)?;
            let creds = ca.mint(crypto, node_id, cats)?;
            Ok((other.icac.clone(), creds))
        }
        CredDefect::SiblingFabricSameRoot => {
            use crate::mon::c19_certgen as cg;
            let Some(rcac_id) = fabricless_root else {
                return Err(ErrorCode::Invalid.into());
            };
            let other_fabric = ca.fabric_id + 1;
            let root_key = cg::key_from_secret(crypto, ca.rcac_key.reference());
            // ICAC of the sibling fabric, issued by the shared root
            let icac_key = cg::gen_key(crypto);
            let icac_id = 0x1CAC_0000 + rng.below(1 << 16);
            let icac_subject = vec![cg::DnAttr::u(cg::DN_ICAC_ID, icac_id), cg::DnAttr::u(cg::DN_FABRIC_ID, other_fabric)];
            let icac_p = cg::CertParams {
                serial: vec![0x51, 0x01],
                sig_algo: 1,
                issuer: vec![cg::DnAttr::u(cg::DN_RCAC_ID, rcac_id)],
                not_before: 1,
                not_after: 0,
                subject: icac_subject.clone(),
                pubkey_algo: 1,
                curve: 1,
                pubkey: icac_key.pk.to_vec(),
                bc: Some((true, Some(0))),
                ku: Some(cg::KU_KEY_CERT_SIGN | cg::KU_CRL_SIGN),
                eku: None,
                skid: Some(icac_key.kid.to_vec()),
                akid: Some(root_key.kid.to_vec()),
                future: None,
                omit: vec![],
            };
            let (icac, ok1) = cg::build_cert(crypto, &icac_p, &icac_p, &root_key, None, rng).map_err(|_| Error::from(ErrorCode::Invalid))?;
            if !ok1 {
                return Err(ErrorCode::Invalid.into());
            }
            // NOC of the sibling fabric, issued by that ICAC
            let (noc, key) = cg_noc(crypto, rng, node_id, cats, other_fabric, icac_subject, &icac_key)?;
            Ok((icac, NodeCreds { node_id, cats: cats.to_vec(), noc, key }))
        }
        CredDefect::NocIssuedByNoc => {
            use crate::mon::c19_certgen as cg;
            // A genuine member (some other node id, NOC issued by the root) ...
            let member_node = node_id ^ 0x5A5A;
            let member = ca.mint(crypto, member_node, &[])?;
            let member_key = cg::key_from_secret(crypto, member.key.reference());
            // ... signs a NOC for `node_id` with its own NOC key, naming itself as issuer
            let key2 = cg::gen_key(crypto);
            let mut subject = vec![
                cg::DnAttr::u(cg::DN_NODE_ID, node_id),
                cg::DnAttr::u(cg::DN_FABRIC_ID, ca.fabric_id),
            ];
            for c in cats {
                subject.push(cg::DnAttr::u(cg::DN_NOC_CAT, *c as u64));
            }
            let params = cg::CertParams {
                serial: vec![0x42],
                sig_algo: 1,
                issuer: vec![
                    cg::DnAttr::u(cg::DN_NODE_ID, member_node),
                    cg::DnAttr::u(cg::DN_FABRIC_ID, ca.fabric_id),
                ],
                not_before: 1,
                not_after: 0,
                subject,
                pubkey_algo: 1,
                curve: 1,
                pubkey: key2.pk.to_vec(),
                bc: Some((false, None)),
                ku: Some(cg::KU_DIGITAL_SIGNATURE),
                eku: Some(vec![cg::EKU_CLIENT_AUTH, cg::EKU_SERVER_AUTH]),
                skid: Some(key2.kid.to_vec()),
                akid: Some(member_key.kid.to_vec()),
                future: None,
                omit: vec![],
            };
            let (noc, tbs_ok) = cg::build_cert(crypto, &params, &params, &member_key, None, rng)
                .map_err(|_| Error::from(ErrorCode::Invalid))?;
            if !tbs_ok {
                return Err(ErrorCode::Invalid.into());
            }
            let mut key = rs_matter::crypto::CanonPkcSecretKey::new();
            key.load_from_array(&key2.sk);
            Ok((
                member.noc.clone(),
                NodeCreds {
                    node_id,
                    cats: cats.to_vec(),
                    noc,
                    key,
                },
            ))
        }
    }
}

/// A NOC written by the harness certificate writer: subject (node id, fabric id, CATs), the
/// given issuer name, signed by `signer`.
fn cg_noc<C: Crypto>(
    crypto: &C,
    rng: &mut Rng,
    node_id: u64,
    cats: &[u32],
    fabric_id: u64,
    issuer: Vec<crate::mon::c19_certgen::DnAttr>,
    signer: &crate::mon::c19_certgen::Key,
) -> Result<(Vec<u8>, rs_matter::crypto::CanonPkcSecretKey), Error> {
    use crate::mon::c19_certgen as cg;
    let key2 = cg::gen_key(crypto);
    let mut subject = vec![cg::DnAttr::u(cg::DN_NODE_ID, node_id), cg::DnAttr::u(cg::DN_FABRIC_ID, fabric_id)];
    for c in cats {
        subject.push(cg::DnAttr::u(cg::DN_NOC_CAT, *c as u64));
    }
    let p = cg::CertParams {
        serial: vec![0x51, 0x02],
        sig_algo: 1,
        issuer,
        not_before: 1,
        not_after: 0,
        subject,
        pubkey_algo: 1,
        curve: 1,
        pubkey: key2.pk.to_vec(),
        bc: Some((false, None)),
        ku: Some(cg::KU_DIGITAL_SIGNATURE),
        eku: Some(vec![cg::EKU_CLIENT_AUTH, cg::EKU_SERVER_AUTH]),
        skid: Some(key2.kid.to_vec()),
        akid: Some(signer.kid.to_vec()),
        future: None,
        omit: vec![],
    };
    let (noc, ok) = cg::build_cert(crypto, &p, &p, signer, None, rng).map_err(|_| Error::from(ErrorCode::Invalid))?;
    if !ok {
        return Err(ErrorCode::Invalid.into());
    }
    let mut key = rs_matter::crypto::CanonPkcSecretKey::new();
    key.load_from_array(&key2.sk);
    Ok((noc, key))
}

/// A self-signed root certificate that carries no fabric id (rcac id only), written by the
/// harness certificate writer. Returns (certificate, secret key, rcac id).
fn cg_fabricless_root<C: Crypto>(crypto: &C, rng: &mut Rng) -> Result<(Vec<u8>, rs_matter::crypto::CanonPkcSecretKey, u64), Error> {
    use crate::mon::c19_certgen as cg;
    let k = cg::gen_key(crypto);
    let rcac_id = 0xCA00_0000 + rng.below(1 << 20);
    let dn = vec![cg::DnAttr::u(cg::DN_RCAC_ID, rcac_id)];
    let p = cg::CertParams {
        serial: vec![0x51, 0x00],
        sig_algo: 1,
        issuer: dn.clone(),
        not_before: 1,
        not_after: 0,
        subject: dn,
        pubkey_algo: 1,
        curve: 1,
        pubkey: k.pk.to_vec(),
        bc: Some((true, None)),
        ku: Some(cg::KU_KEY_CERT_SIGN | cg::KU_CRL_SIGN),
        eku: None,
        skid: Some(k.kid.to_vec()),
        akid: Some(k.kid.to_vec()),
        future: None,
        omit: vec![],
    };
    let (cert, ok) = cg::build_cert(crypto, &p, &p, &k, None, rng).map_err(|_| Error::from(ErrorCode::Invalid))?;
    if !ok {
        return Err(ErrorCode::Invalid.into());
    }
    let mut key = rs_matter::crypto::CanonPkcSecretKey::new();
    key.load_from_array(&k.sk);
    Ok((cert, key, rcac_id))
}

/// The signature is the last element of a Matter certificate (context tag 11, 64 bytes):
/// flip one bit among the last 64 bytes before the end-of-container.
fn flip_signature_bit(cert: &mut [u8], rng: &mut Rng) {
    let n = cert.len();
    let pos = n - 2 - rng.usize(64);
    cert[pos] ^= 1 << rng.usize(8);
}

/// A CA hierarchy with the *same root key pair* but certificates for another fabric id.
fn recertify<C: Crypto>(
    crypto: &C,
    rng: &mut Rng,
    _ca: &FabricCa,
    fabric_id: u64,
) -> Result<FabricCa, Error> {
    // The public generators always draw a fresh root key, so "same root key, other fabric
    // id" cannot be produced with them; a fresh root for the other fabric id has the same
    // effect for the verifier (it must reject: wrong root *and* wrong fabric id) and is
    // what an attacker without the root key can actually build. The exact
    // "right root, wrong fabric id" case is covered by C19 with its own certificate writer.
    FabricCa::new(crypto, rng, fabric_id, !_ca.icac.is_empty())
}

fn is_handshake(bytes: &[u8]) -> Option<u8> {
    let info = wire::peek(bytes)?;
    if info.session_id != 0 {
        return None;
    }
    let op = info.opcode?;
    if info.proto_id == Some(0)
        && (op == OpCode::CASESigma1 as u8
            || op == OpCode::CASESigma2 as u8
            || op == OpCode::CASESigma3 as u8
            || op == OpCode::CASESigma2Resume as u8
            || op == OpCode::StatusReport as u8)
    {
        Some(op)
    } else {
        None
    }
}

pub fn run_case(p: &Params) -> Outcome {
    clock::reset(1_000_000);
    let mut rng = Rng::new(p.seed);
    let crypto_i = node::crypto(rng.fork());
    let crypto_r = node::crypto(rng.fork());
    let crypto_g = node::crypto(rng.fork());

    let mi = node::new_matter();
    let mr = node::new_matter();

    // Verifier clocks: a fixed UTC time so that validity defects are meaningful.
    let now_matter_secs: u32 = 800_000_000; // ~2025 in Matter epoch seconds
    for m in [&mi, &mr] {
        m.with_rtc(|rtc| {
            rtc.set_utc_time(
                now_matter_secs as u64 * 1_000_000,
                rs_matter::dm::clusters::time_sync::GranularityEnum::SecondsGranularity,
                rs_matter::dm::clusters::time_sync::TimeSourceEnum::Admin,
                &(),
            );
        });
    }

    let fabric_id = 0x10 + rng.below(1000);
    let mut ca = match FabricCa::new(&crypto_g, &mut rng, fabric_id, p.with_icac) {
        Ok(c) => c,
        Err(_) => return Outcome::default(),
    };
    // the sibling-fabric defect needs a root CA that is shared by several fabrics
    let fabricless_root = if matches!(p.defect, CredDefect::SiblingFabricSameRoot | CredDefect::FabriclessRootHonest) {
        match cg_fabricless_root(&crypto_g, &mut rng) {
            Ok((cert, key, id)) => {
                ca.rcac = cert;
                ca.rcac_key = key;
                ca.icac = Vec::new();
                ca.icac_key = None;
                Some(id)
            }
            Err(_) => return Outcome::default(),
        }
    } else {
        None
    };

    let (i_defect, r_defect) = if p.defect_side_initiator {
        (p.defect, CredDefect::None)
    } else {
        (CredDefect::None, p.defect)
    };

    let mut out = Outcome::default();

    // Extra fabrics on the responder first (so that the addressed fabric's index varies)
    for k in 0..p.extra_fabrics {
        let icac = rng.bool();
        if let Ok(other) = FabricCa::new(&crypto_g, &mut rng, 0x9000 + k as u64, icac) {
            if let Ok(c) = other.mint(&crypto_g, RESP_NODE, &[]) {
                let _ = other.install(&mr, &crypto_r, &c, INIT_NODE);
            }
        }
    }

    let Ok((i_icac, i_creds)) = make_creds(
        &crypto_g,
        &mut rng,
        &ca,
        INIT_NODE,
        &p.cats,
        i_defect,
        now_matter_secs,
        fabricless_root,
    ) else {
        return out;
    };
    let Ok((r_icac, r_creds)) = make_creds(
        &crypto_g,
        &mut rng,
        &ca,
        RESP_NODE,
        &[],
        r_defect,
        now_matter_secs,
        fabricless_root,
    ) else {
        return out;
    };

    // Each node installs: the fabric's real root + IPK, with the (possibly defective)
    // NOC/ICAC it is going to present. `Fabrics::add` does not validate the chain (that is
    // what AddNOC does, see C19), which is what lets a node present defective material.
    let install = |m: &Matter<'_>, c: &dyn Fn() -> Result<NonZeroU8, Error>| c().ok().map(|i| (m, i).1);
    let _ = install;
    let ipk = ca.ipk_ref();
    let i_fab = mi.with_state(|s| {
        s.fabrics
            .add(
                &crypto_i,
                i_creds.key.reference(),
                &ca.rcac,
                &i_creds.noc,
                &i_icac,
                Some(ipk.reference()),
                0xFFF1,
                INIT_NODE,
            )
            .map(|f| f.fab_idx())
    });
    let r_fab = mr.with_state(|s| {
        s.fabrics
            .add(
                &crypto_r,
                r_creds.key.reference(),
                &ca.rcac,
                &r_creds.noc,
                &r_icac,
                Some(ipk.reference()),
                0xFFF1,
                INIT_NODE,
            )
            .map(|f| f.fab_idx())
    });
    let (Ok(i_fab), Ok(r_fab)) = (i_fab, r_fab) else {
        return out;
    };
    out.init_fab_idx = i_fab.get();
    out.resp_fab_idx = r_fab.get();

    // The verifying side's view of the presented chain, asked directly: this reaches chains
    // that a real node can never present in a handshake addressed to this fabric (a node that
    // holds a NOC of fabric F2 addresses F2, not F1), e.g. a sibling fabric under the same root.
    {
        use rs_matter::cert::CertRef;
        use rs_matter::sc::case::verif::CaseP;
        use rs_matter::tlv::TLVElement;
        let (vm, vfab, vcrypto, noc, icac): (&Matter<'_>, NonZeroU8, _, &Vec<u8>, &Vec<u8>) = if p.defect_side_initiator {
            (&mr, r_fab, &crypto_r, &i_creds.noc, &i_icac)
        } else {
            (&mi, i_fab, &crypto_i, &r_creds.noc, &r_icac)
        };
        let time = vm.with_rtc(|rtc| rtc.utc_time());
        let res = catch_unwind(AssertUnwindSafe(|| {
            vm.with_state(|st| {
                let fabric = st.fabrics.get(vfab)?;
                let casep = CaseP::new();
                let noc_ref = CertRef::new(TLVElement::new(noc));
                let icac_ref = (!icac.is_empty()).then(|| CertRef::new(TLVElement::new(icac)));
                let mut buf = vec![0u8; 2048];
                Some(casep.validate_certs(vcrypto, time, fabric, &noc_ref, icac_ref.as_ref(), &mut buf).is_ok())
            })
        }));
        match res {
            Ok(v) => out.direct_validate = v,
            Err(pn) => {
                out.panic = Some(format!("validate_certs: {}", crate::util::panic_msg(&pn)));
            }
        }
    }

    let hub = NetHub::new(rng.u64(), 2);
    let tap = tapmon::TapMonitor::new();

    // Adversary
    let fault = p.wire.clone();
    let chaos = p.chaos as u32;
    let counts = Rc::new(RefCell::new((0u32, 0u32, 0u32, false, 0u32))); // (n_init, n_resp, mutated, clean, captured)
    {
        let counts = counts.clone();
        let hub2 = hub.clone();
        let mut seen: Vec<(bool, Vec<u8>, u8)> = Vec::new(); // (from_init, bytes, ordinal)
        hub.set_adversary(Some(Box::new(move |d, rng| {
            let from_init = d.src == 0;
            let hs = is_handshake(&d.bytes);
            if hs.is_none() {
                // standalone acks etc: only chaos
                if chaos > 0 && rng.chance(chaos, 100) {
                    return vec![];
                }
                return vec![Delivery::normal()];
            }
            // ordinal among *distinct* handshake datagrams of this side; a retransmission
            // (byte-identical) keeps the ordinal of its original.
            let mut ordinal = None;
            let mut copies = 0u32;
            for (fi, b, o) in seen.iter() {
                if *fi == from_init && *b == d.bytes {
                    ordinal = Some(*o);
                    copies += 1;
                }
            }
            let ordinal = match ordinal {
                Some(o) => o,
                None => {
                    let mut c = counts.borrow_mut();
                    let o = if from_init {
                        c.0 += 1;
                        c.0
                    } else {
                        c.1 += 1;
                        c.1
                    } as u8
                        - 1;
                    o
                }
            };
            seen.push((from_init, d.bytes.clone(), ordinal));
            {
                let mut c = counts.borrow_mut();
                if copies + 1 > c.4 {
                    c.4 = copies + 1;
                }
            }

            let hit = |nth: u8, fi: bool| nth == ordinal && fi == from_init;
            let mut res = vec![Delivery::normal()];
            match &fault {
                WireFault::None => {}
                WireFault::FlipBit {
                    nth,
                    from_initiator,
                    bit,
                    every_copy,
                } if hit(*nth, *from_initiator) && (*every_copy || copies == 0) => {
                    let mut b = d.bytes.clone();
                    let nbits = (b.len() * 8) as u32;
                    let bit = bit % nbits;
                    b[(bit / 8) as usize] ^= 1 << (bit % 8);
                    counts.borrow_mut().2 += 1;
                    res = vec![Delivery::mutant(b)];
                }
                WireFault::Truncate {
                    nth,
                    from_initiator,
                    keep,
                    every_copy,
                } if hit(*nth, *from_initiator) && (*every_copy || copies == 0) => {
                    let keep = (*keep as usize) % d.bytes.len();
                    counts.borrow_mut().2 += 1;
                    res = vec![Delivery::mutant(d.bytes[..keep].to_vec())];
                }
                WireFault::Extend {
                    nth,
                    from_initiator,
                    extra,
                } if hit(*nth, *from_initiator) && copies == 0 => {
                    let mut b = d.bytes.clone();
                    for k in 0..(*extra).max(1) {
                        b.push(k.wrapping_mul(37));
                    }
                    counts.borrow_mut().2 += 1;
                    res = vec![Delivery::mutant(b)];
                }
                WireFault::Duplicate {
                    nth,
                    from_initiator,
                } if hit(*nth, *from_initiator) && copies == 0 => {
                    res = vec![Delivery::normal(), Delivery::after_ms(3), Delivery::after_ms(40)];
                }
                WireFault::DropFirst {
                    nth,
                    from_initiator,
                    copies: c,
                } if hit(*nth, *from_initiator) && copies < *c as u32 => {
                    res = vec![];
                }
                WireFault::ReplayLate {
                    nth,
                    from_initiator,
                } if hit(*nth, *from_initiator) && copies == 0 => {
                    res = vec![Delivery::normal(), Delivery::after_ms(2500)];
                }
                WireFault::Reorder {
                    nth,
                    from_initiator,
                } if hit(*nth, *from_initiator) && copies == 0 => {
                    res = vec![Delivery::after_ms(150)];
                }
                _ => {}
            }
            if res.iter().any(|r| r.bytes.is_none()) && !res.is_empty() {
                // a clean copy of this handshake message got through
            }
            if chaos > 0 && !res.is_empty() {
                if rng.chance(chaos, 100) {
                    res.clear();
                } else if rng.chance(chaos, 200) {
                    res.push(Delivery::after_ms(1 + rng.below(400)));
                }
            }
            let _ = &hub2;
            res
        })));
    }

    let limits = Limits {
        max_polls: 2_000_000,
        horizon: clock::now() + 120 * clock::TICKS_PER_SEC,
        shuffle: p.shuffle,
    };

    let init_result: Rc<RefCell<Option<Result<(), ErrorCode>>>> = Rc::new(RefCell::new(None));

    let addr_r = hub.addr(1);
    let run = {
        let mi = &*mi;
        let mr = &*mr;
        let crypto_i = &crypto_i;
        let crypto_r = &crypto_r;
        let init_result = init_result.clone();
        let hub = hub.clone();
        let seed = p.seed;
        let shuffle = p.shuffle;
        let mut exec_rng = Rng::new(subseed(seed, &[7]));
        catch_unwind(AssertUnwindSafe(move || {
            let script: BoxFut = Box::pin(async move {
                let r = async {
                    let exchange = Exchange::initiate_plaintext(mi, crypto_i, addr_r).await?;
                    CaseInitiator::perform(exchange, crypto_i, i_fab, RESP_NODE).await
                }
                .await;
                *init_result.borrow_mut() = Some(r.map_err(|e| e.code()));
                // let final acks / late replays play out
                exec::sleep_ms(4000).await;
            });
            // One executor task per Matter instance: everything that touches `mi` (its
            // transport, its responder and the initiating script) shares one waker, as in
            // the documented intra-task concurrency model of rs-matter.
            let node_i: BoxFut = {
                let ep = hub.endpoint(0);
                Box::pin(async move {
                    let sc = SecureChannel::new(crypto_i, &());
                    let responder = Responder::new("init", sc, mi, 0);
                    let t: BoxFut = Box::pin(async {
                        let _ = mi.run(crypto_i, ep.clone(), ep.clone(), ep.clone()).await;
                    });
                    let r: BoxFut = Box::pin(async {
                        let _ = responder.run::<2>().await;
                    });
                    exec::ShuffleSelect::new(subseed(seed, &[11]), shuffle, vec![script, t, r]).await
                })
            };
            let node_r: BoxFut = {
                let ep = hub.endpoint(1);
                Box::pin(async move {
                    let sc = SecureChannel::new(crypto_r, &());
                    let responder = Responder::new("resp", sc, mr, 0);
                    let t: BoxFut = Box::pin(async {
                        let _ = mr.run(crypto_r, ep.clone(), ep.clone(), ep.clone()).await;
                    });
                    let r: BoxFut = Box::pin(async {
                        let _ = responder.run::<4>().await;
                    });
                    exec::ShuffleSelect::new(subseed(seed, &[12]), shuffle, vec![t, r]).await
                })
            };
            exec::run(&mut exec_rng, limits, vec![node_i, node_r])
        }))
    };

    hub.set_adversary(None);

    match run {
        Ok(o) => {
            out.status = Some(o.status);
            out.sched_hash = o.sched_hash;
        }
        Err(e) => {
            out.panic = Some(crate::util::panic_msg(&e));
        }
    }
    out.init_result = init_result.borrow().clone();
    out.init_sessions = node::snapshot(&mi);
    out.resp_sessions = node::snapshot(&mr);
    out.datagrams = hub.tap_len() as u32;
    out.mutated_delivered = counts.borrow().2;
    out.max_copies = counts.borrow().4;

    if std::env::var("RSMV_TRACE").is_ok() {
        hub.with_tap(|t| {
            for ev in t {
                let i = wire::peek(&ev.dgram.bytes);
                eprintln!(
                    "t={:>9} src={} len={:>4} {:?} deliveries={:?} {}",
                    ev.dgram.t,
                    ev.dgram.src,
                    ev.dgram.bytes.len(),
                    i.map(|i| (i.session_id, i.ctr, i.exch_flags, i.opcode, i.exch_id, i.ack_ctr)),
                    ev.deliveries,
                    crate::util::hex(&ev.dgram.bytes[..ev.dgram.bytes.len().min(24)])
                );
            }
        });
    }

    // Passive nonce monitor (C15) over everything that went over the wire
    hub.with_tap(|t| {
        for ev in t {
            if !ev.injected {
                tap.observe(ev.dgram.src, &ev.dgram.bytes);
            }
        }
    });
    out.tap_violations = tap.violations();
    out.tap_stats = tap.stats();

    out
}

pub fn gen_params(rng: &mut Rng, idx: u64) -> Params {
    let with_icac = rng.bool();
    let ncats = rng.usize(4);
    let cats: Vec<u32> = (0..ncats)
        .map(|k| ((0x100 + k as u32) << 16) | (1 + rng.below(5) as u32))
        .collect();
    let _ = idx;
    let family = rng.below(4);
    let mut p = Params {
        seed: rng.u64(),
        with_icac,
        cats,
        defect_side_initiator: rng.bool(),
        defect: CredDefect::None,
        wire: WireFault::None,
        extra_fabrics: rng.below(3) as u8,
        chaos: 0,
        shuffle: true,
    };
    match family {
        0 => {
            // credential matrix
            loop {
                p.defect = *rng.pick(CRED_DEFECTS);
                let needs_icac = matches!(
                    p.defect,
                    CredDefect::IcacSignatureBit | CredDefect::ForeignIcac
                );
                let needs_direct = matches!(p.defect, CredDefect::NocIssuedByNoc | CredDefect::SiblingFabricSameRoot | CredDefect::FabriclessRootHonest);
                if (!needs_icac || p.with_icac) && (!needs_direct || !p.with_icac) {
                    break;
                }
            }
        }
        1 => {
            // on-path mutation of a handshake message
            let nth = rng.below(2) as u8;
            let from_initiator = rng.bool();
            let every_copy = rng.chance(1, 3);
            p.wire = match rng.below(7) {
                0 | 1 | 2 => WireFault::FlipBit {
                    nth,
                    from_initiator,
                    bit: if rng.bool() {
                        rng.below(64 * 8) as u32
                    } else {
                        rng.u32()
                    },
                    every_copy,
                },
                3 => WireFault::Truncate {
                    nth,
                    from_initiator,
                    keep: rng.u32(),
                    every_copy,
                },
                4 => WireFault::Extend {
                    nth,
                    from_initiator,
                    extra: 1 + rng.below(32) as u8,
                },
                5 => WireFault::ReplayLate {
                    nth,
                    from_initiator,
                },
                _ => WireFault::Reorder {
                    nth,
                    from_initiator,
                },
            };
        }
        2 => {
            // schedules: loss / duplication / delay
            let nth = rng.below(2) as u8;
            let from_initiator = rng.bool();
            p.wire = match rng.below(3) {
                0 => WireFault::Duplicate {
                    nth,
                    from_initiator,
                },
                1 => WireFault::DropFirst {
                    nth,
                    from_initiator,
                    copies: 1 + rng.below(3) as u8,
                },
                _ => WireFault::None,
            };
            p.chaos = *rng.pick(&[0u8, 10, 25, 40]);
        }
        _ => {
            // honest
        }
    }
    p
}

fn params_json(p: &Params) -> serde_json::Value {
    json!({
        "check": "C01",
        "seed": p.seed.to_string(),
        "with_icac": p.with_icac,
        "cats": p.cats,
        "defect_side_initiator": p.defect_side_initiator,
        "defect": format!("{:?}", p.defect),
        "wire": format!("{:?}", p.wire),
        "extra_fabrics": p.extra_fabrics,
        "chaos": p.chaos,
        "gen": "see gen_params; replay by (shard seed, index)",
    })
}

pub fn judge(rep: &mut Report, p: &Params, o: &Outcome, replay: serde_json::Value) {
    let sig_prefix = "C01";
    if let Some(msg) = &o.panic {
        rep.violation(
            "no-panic",
            &format!("{}/panic/{}", sig_prefix, crate::util::panic_class(msg)),
            format!("panic during handshake: {} params {:?}", msg, p),
            replay.clone(),
        );
        return;
    }
    match o.status {
        Some(RunStatus::Done) => {}
        Some(s) => {
            rep.inconclusive(&format!("run-status-{:?}", s));
            return;
        }
        None => {
            rep.inconclusive("setup-failed");
            return;
        }
    }

    let i_case = secure_case(&o.init_sessions);
    let r_case = secure_case(&o.resp_sessions);
    let honest = matches!(p.defect, CredDefect::None | CredDefect::FabriclessRootHonest);
    let interference = p.wire != WireFault::None || p.chaos > 0;

    rep.count(&format!(
        "outcome:init_sessions={}/resp_sessions={}",
        i_case.len().min(2),
        r_case.len().min(2)
    ));
    rep.count(&format!("defect:{:?}", p.defect));
    rep.count(&format!("max_identical_handshake_copies={}", o.max_copies.min(8)));
    if o.max_copies > 5 {
        // MRP allows 5 transmissions of one message (C09 judges this; recorded here).
        rep.note(&format!("handshake-datagram-sent-{}-times", o.max_copies.min(300)));
    }
    if o.mutated_delivered > 0 {
        rep.count("runs_with_mutant_delivered");
        if !i_case.is_empty() || !r_case.is_empty() {
            rep.count("mutated_runs_ending_with_session");
        } else {
            rep.count("mutated_runs_ending_without_session");
        }
    }

    // R1d: the chain validation CASE uses, asked directly about the presented credentials.
    // (A chain can be valid while the handshake must still fail: a private key that does not
    // belong to the NOC is not a property of the chain.)
    if let Some(accepted) = o.direct_validate {
        rep.count("R1d-validate-certs-checked");
        let chain_is_valid = honest || p.defect == CredDefect::WrongPrivateKey;
        if accepted && !chain_is_valid {
            rep.violation(
                "R1-defective-credentials-no-session",
                &format!("C01/R1d/{:?}/chain-validation-accepts", p.defect),
                format!(
                    "CaseP::validate_certs, given the verifying node's fabric record, accepts the certificate chain of a peer whose credentials have the defect {:?}; params {:?}",
                    p.defect, p
                ),
                replay.clone(),
            );
        } else if !accepted && chain_is_valid {
            rep.violation(
                "R4-honest-succeeds",
                &format!("C01/R4/chain-validation-rejects-valid-chain/{:?}", p.defect),
                format!("CaseP::validate_certs rejects a valid certificate chain of the addressed fabric; params {:?}", p),
                replay.clone(),
            );
        } else {
            rep.count(if accepted { "R1d-valid-chain-accepted" } else { "R1d-defective-chain-rejected" });
        }
    }

    // R1: defective credentials => the verifying side has no new session.
    if !honest {
        let (verifier_sessions, who) = if p.defect_side_initiator {
            (&r_case, "responder")
        } else {
            (&i_case, "initiator")
        };
        rep.count("R1-checked");
        if !verifier_sessions.is_empty() {
            rep.violation(
                "R1-defective-credentials-no-session",
                &format!("C01/R1/{:?}/accepted-by-{}", p.defect, who),
                format!(
                    "{} holds a CASE session although the peer presented credentials with defect {:?}; params {:?}",
                    who, p.defect, p
                ),
                replay.clone(),
            );
        } else {
            rep.count(&format!("rejected:{:?}", p.defect));
        }
        // The presenting side may or may not hold a session (the initiator with bad
        // credentials never gets Sigma-finished success) - for the initiator presenting
        // bad credentials, success is impossible: the responder answers InvalidParameter.
        if p.defect_side_initiator && !i_case.is_empty() {
            rep.violation(
                "R1-defective-credentials-no-session",
                &format!("C01/R1/{:?}/initiator-session-despite-own-defect", p.defect),
                format!("initiator with defective credentials ended with a session; params {:?}", p),
                replay.clone(),
            );
        }
    }

    // R2: at each end: no session, or exactly the expected binding.
    for (who, sessions, exp_fab, exp_peer, exp_cats, local_node) in [
        (
            "initiator",
            &i_case,
            o.init_fab_idx,
            RESP_NODE,
            Vec::<u32>::new(),
            INIT_NODE,
        ),
        (
            "responder",
            &r_case,
            o.resp_fab_idx,
            INIT_NODE,
            p.cats.clone(),
            RESP_NODE,
        ),
    ] {
        if sessions.len() > 1 {
            // Several sessions can only come from a replayed Sigma1 that completed twice,
            // which needs the initiator's participation; a passive replay cannot.
            rep.note(&format!("{}-holds-{}-case-sessions", who, sessions.len()));
        }
        for s in sessions.iter() {
            rep.count("R2-checked");
            let (fab, cats) = match &s.mode {
                SessionMode::Case { fab_idx, cat_ids } => (fab_idx.get(), *cat_ids),
                _ => unreachable!(),
            };
            let mut cats_sorted: Vec<u32> = cats.iter().copied().filter(|c| *c != 0).collect();
            cats_sorted.sort();
            let mut exp_sorted = exp_cats.clone();
            exp_sorted.sort();
            if fab != exp_fab
                || s.peer_nodeid != Some(exp_peer)
                || cats_sorted != exp_sorted
                || s.local_nodeid != local_node
            {
                rep.violation(
                    "R2-session-binding",
                    &format!("C01/R2/{}-binding-mismatch", who),
                    format!(
                        "{} session bound to fab {} peer {:?} cats {:?} local {:x}, expected fab {} peer {:x} cats {:?} local {:x}; params {:?}",
                        who, fab, s.peer_nodeid, cats_sorted, s.local_nodeid, exp_fab, exp_peer, exp_sorted, local_node, p
                    ),
                    replay.clone(),
                );
            }
        }
    }

    // R3: both ends hold a session => directional keys pairwise equal (match by session ids).
    for si in i_case.iter() {
        for sr in r_case.iter() {
            if si.peer_sess_id == sr.local_sess_id && sr.peer_sess_id == si.local_sess_id {
                rep.count("R3-checked");
                if si.enc_key != sr.dec_key || si.dec_key != sr.enc_key {
                    rep.violation(
                        "R3-directional-keys",
                        "C01/R3/key-mismatch",
                        format!("both ends hold a session for the same handshake with different keys; params {:?}", p),
                        replay.clone(),
                    );
                }
                if si.enc_key == si.dec_key || si.enc_key == [0u8; 16] {
                    rep.violation(
                        "R3-directional-keys",
                        "C01/R3/degenerate-keys",
                        format!("session keys degenerate (equal directions or zero); params {:?}", p),
                        replay.clone(),
                    );
                }
            }
        }
    }

    // R4: honest run without interference => both ends have one and the initiator succeeded.
    if honest && !interference {
        rep.count("R4-checked");
        if i_case.len() != 1 || r_case.len() != 1 || o.init_result != Some(Ok(())) {
            rep.violation(
                "R4-honest-succeeds",
                "C01/R4/honest-handshake-failed",
                format!(
                    "honest undisturbed handshake did not produce one session at each end: init {} resp {} result {:?}; params {:?}",
                    i_case.len(), r_case.len(), o.init_result, p
                ),
                replay.clone(),
            );
        } else {
            rep.count("honest_accepted");
        }
    }

    // Initiator reported success => it must hold a session.
    if o.init_result == Some(Ok(())) && i_case.is_empty() {
        rep.violation(
            "R2-session-binding",
            "C01/R2/initiator-ok-without-session",
            format!("initiator returned Ok but holds no CASE session; params {:?}", p),
            replay.clone(),
        );
    }
    // An on-path mutation that reached the peer in *every* copy of a handshake message
    // must not yield a session at the receiving end of that message, unless the mutated
    // bits are outside what the transcript covers (unauthenticated header bits such as
    // the message counter or flags of an unsecured message are not covered: not asserted).

    for v in &o.tap_violations {
        rep.violation(
            "C15-tap",
            &format!("C15/tap/{}", v.split(':').next().unwrap_or("x")),
            format!("passive nonce monitor: {} params {:?}", v, p),
            replay.clone(),
        );
    }
}

pub fn run(ctx: &Ctx) -> Report {
    let mut rep = Report::new(
        "C01",
        "Real CASE handshakes between two rs-matter nodes over the simulated network; ground truth per run \
         (credential defect, wire fault, loss/dup/delay schedule). Non-trivial = a run with a credential defect, a wire \
         fault or a lossy schedule; distinct = distinct (defect, side, chain shape, wire fault kind+position, outcome) tuples \
         plus distinct executor schedules reported separately.",
    );
    crate::util::quiet_panics();
    rep.assumptions.push("Fabrics::add installs credentials without validating them (that is AddNOC's job, checked by C19); this lets a node present defective material".into());
    rep.assumptions.push("cryptographic strength is not tested: no forged MACs/signatures are searched for".into());
    rep.floor("honest_accepted", 20);
    rep.floor("R1d-defective-chain-rejected", 150);
    rep.floor("R1-checked", 40);
    rep.floor("R3-checked", 50);
    rep.floor("runs_with_mutant_delivered", 40);

    if let Some(r) = &ctx.replay {
        let seed: u64 = r["shard_seed"].as_str().and_then(|s| s.parse().ok()).unwrap_or(0);
        let idx = r["index"].as_u64().unwrap_or(0);
        let mut rng = Rng::new(subseed(seed, &[idx]));
        let p = gen_params(&mut rng, idx);
        let o = run_case(&p);
        rep.evaluations += 1;
        judge(&mut rep, &p, &o, r.clone());
        rep.sample(json!({"params": format!("{:?}", p), "init_result": format!("{:?}", o.init_result)}));
        return rep;
    }

    let n = ctx.share(1600, 64_000);
    let shard_seed = ctx.shard_seed();
    for k in 0..n {
        let idx = k * ctx.nshards + ctx.shard;
        let mut rng = Rng::new(subseed(shard_seed, &[idx]));
        let p = gen_params(&mut rng, idx);
        let o = run_case(&p);
        rep.evaluations += 1;
        let mut pj = params_json(&p);
        pj["shard_seed"] = json!(shard_seed.to_string());
        pj["index"] = json!(idx);
        judge(&mut rep, &p, &o, pj);

        let nontrivial = p.defect != CredDefect::None || p.wire != WireFault::None || p.chaos > 0;
        if nontrivial {
            let mut f = Fnv::new();
            f.add(format!(
                "{:?}|{}|{}|{}|{:?}|{}|{}",
                p.defect,
                p.defect_side_initiator,
                p.with_icac,
                p.cats.len(),
                wire_class(&p.wire),
                secure_case(&o.init_sessions).len(),
                secure_case(&o.resp_sessions).len()
            )
            .as_bytes());
            rep.distinct.insert(f.0);
        }
        rep.interleavings.insert(o.sched_hash);
        rep.count_n("datagrams_observed", o.datagrams as u64);
        if k < 2 {
            rep.sample(json!({"params": format!("{:?}", p), "init_result": format!("{:?}", o.init_result),
                "init_case_sessions": secure_case(&o.init_sessions).len(), "resp_case_sessions": secure_case(&o.resp_sessions).len(),
                "datagrams": o.datagrams}));
        }
    }
    rep
}

fn wire_class(w: &WireFault) -> String {
    match w {
        WireFault::None => "none".into(),
        WireFault::FlipBit {
            nth,
            from_initiator,
            bit,
            every_copy,
        } => format!("flip/{}/{}/{}/{}", nth, from_initiator, (bit % 4096) / 64, every_copy),
        WireFault::Truncate {
            nth,
            from_initiator,
            every_copy,
            ..
        } => format!("trunc/{}/{}/{}", nth, from_initiator, every_copy),
        WireFault::Extend {
            nth,
            from_initiator,
            ..
        } => format!("ext/{}/{}", nth, from_initiator),
        WireFault::Duplicate {
            nth,
            from_initiator,
        } => format!("dup/{}/{}", nth, from_initiator),
        WireFault::DropFirst {
            nth,
            from_initiator,
            copies,
        } => format!("drop/{}/{}/{}", nth, from_initiator, copies),
        WireFault::ReplayLate {
            nth,
            from_initiator,
        } => format!("replay/{}/{}", nth, from_initiator),
        WireFault::Reorder {
            nth,
            from_initiator,
        } => format!("reorder/{}/{}", nth, from_initiator),
    }
}
