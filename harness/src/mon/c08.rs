//! C08 — commissioning under the fail-safe is all-or-nothing.
//!
//! Scenarios over the commissioning world (`commis.rs`): an optional completed first
//! commissioning (pre-existing state), then an *attempt* (a new fabric over PASE, a second
//! fabric through a window opened by the first administrator, or an UpdateNOC on an
//! existing fabric) whose command list is cut / permuted / duplicated / issued from wrong
//! session contexts, then a *trigger* (fail-safe expiry by timer, ArmFailSafe(0),
//! RevokeCommissioning, device restart, or CommissioningComplete), optionally with a KV
//! store failure injected at one mutating operation. Afterwards every prefix of the KV
//! operation log is used as a crash point (restart from the map as it was after k
//! mutating operations).
//!
//! Oracle (from the statement):
//!  R1 rollback: after expiry / forced expiry / revoke / restart, the fabrics (canonical
//!     serialisation incl. ACLs and groups), networks, fail-safe state and breadcrumb are what
//!     they were before arming - in RAM and after a restart from the store.
//!  R2 commit: after a CommissioningComplete answered OK, a restart comes up with exactly the
//!     staged fabrics and networks.
//!  R3 crash at any KV operation: the restarted node has either the pre-arming pair
//!     (fabrics, networks) or the committed pair - committed only from the operation at which
//!     the completion was acknowledged onwards, nothing of it before the completing command.
//!  R4 order / once / context: credential commands without an armed fail-safe, out of the
//!     prescribed order, repeated, or from another session context are refused and have no
//!     effect; the prescribed sequence from the arming context is accepted.
//!  R5 a completion that fails (KV error) is not a completion: the changes are undone at the
//!     latest when the fail-safe would have expired, and a restart does not bring them up.

use serde_json::json;

use crate::mon::commis::{self, Ctx as SCtx, DevDump, Step, StepLog, WorldParams, WorldResult};
use crate::report::{Ctx, Report};
use crate::sim::exec::RunStatus;
use crate::sim::rng::{subseed, Fnv, Rng};

#[derive(Clone, Copy, Debug, PartialEq, Eq)]
pub enum AttemptKind {
    /// First fabric, over the initial PASE window.
    FirstOverPase,
    /// Second fabric: window opened by admin A over CASE, then PASE.
    SecondOverPase,
    /// UpdateNOC on fabric A over admin A's CASE session.
    UpdateNoc,
    /// No credential command at all: the fail-safe is armed over admin A's CASE session and
    /// only settings of fabric A are changed under it (its ACL, network credentials).
    CaseSettings,
}

#[derive(Clone, Copy, Debug, PartialEq, Eq)]
pub enum Trigger {
    Expiry,
    ForceExpire,
    /// ArmFailSafe(0) from admin A's CASE session while B is being commissioned over PASE.
    ForceExpireByOtherAdmin,
    Revoke,
    Restart,
    Complete,
    /// CommissioningComplete sent over the PASE session (after AddNOC bound it to the new
    /// fabric) instead of over a CASE session: either it is refused and everything is rolled
    /// back later, or - if it is answered OK - everything must have been made permanent.
    CompleteOverPase,
    None,
}

#[derive(Clone, Debug, PartialEq, Eq)]
pub enum Tamper {
    None,
    /// Cut the attempt after `n` commands.
    Cut(u8),
    /// Repeat command `i` right after itself.
    Repeat(u8),
    /// Swap commands `i` and `i+1`.
    Swap(u8),
    /// Issue command `i` from another session context.
    WrongCtx(u8),
    /// Drop command `i`.
    Omit(u8),
}

#[derive(Clone, Debug)]
pub struct Scenario {
    pub seed: u64,
    pub precommission: bool,
    pub kind: AttemptKind,
    pub tamper: Tamper,
    pub trigger: Trigger,
    pub fail_secs: u16,
    pub kv_fail_at: Option<usize>,
    pub chaos: u8,
}

/// Marks in the step list so the oracle can find its way.
pub struct Built {
    pub steps: Vec<Step>,
    /// index of the first step of the attempt
    pub attempt_start: usize,
    /// index of the trigger step (if any)
    pub trigger_at: Option<usize>,
    /// the step indices of the attempt's commands with what the reference says about them
    pub expect: Vec<(usize, Expect, &'static str)>,
}

#[derive(Clone, Copy, Debug, PartialEq, Eq)]
pub enum Expect {
    MustAccept,
    MustReject,
    Any,
}

fn pre_steps() -> Vec<Step> {
    vec![
        Step::Arm { ctx: SCtx::Pase, secs: 60 },
        Step::Csr { ctx: SCtx::Pase, update: false },
        Step::AddRoot { ctx: SCtx::Pase, fab_b: false },
        Step::AddNoc { ctx: SCtx::Pase, fab_b: false },
        Step::AddWifi { ctx: SCtx::Pase, n: 1 },
        Step::Case { fab_b: false },
        Step::Complete { ctx: SCtx::CaseA },
        Step::WriteLabel { ctx: SCtx::CaseA, n: 7 },
    ]
}

/// The prescribed command list of an attempt (without the trigger).
fn attempt_steps(kind: AttemptKind, secs: u16) -> Vec<Step> {
    match kind {
        AttemptKind::FirstOverPase => vec![
            Step::Arm { ctx: SCtx::Pase, secs },
            Step::Csr { ctx: SCtx::Pase, update: false },
            Step::AddRoot { ctx: SCtx::Pase, fab_b: false },
            Step::AddNoc { ctx: SCtx::Pase, fab_b: false },
            Step::SetVid { ctx: SCtx::Pase, n: 1 },
            Step::AddWifi { ctx: SCtx::Pase, n: 2 },
        ],
        AttemptKind::SecondOverPase => vec![
            Step::Arm { ctx: SCtx::Pase, secs },
            Step::Csr { ctx: SCtx::Pase, update: false },
            Step::AddRoot { ctx: SCtx::Pase, fab_b: true },
            Step::AddNoc { ctx: SCtx::Pase, fab_b: true },
            Step::SetVid { ctx: SCtx::Pase, n: 2 },
            Step::AddWifi { ctx: SCtx::Pase, n: 3 },
        ],
        AttemptKind::UpdateNoc => vec![
            Step::Arm { ctx: SCtx::CaseA, secs },
            Step::Csr { ctx: SCtx::CaseA, update: true },
            Step::UpdateNoc { ctx: SCtx::CaseA, fab_b: false },
            Step::SetVid { ctx: SCtx::CaseA, n: 3 },
        ],
        AttemptKind::CaseSettings => vec![
            Step::Arm { ctx: SCtx::CaseA, secs },
            Step::WriteAcl { ctx: SCtx::CaseA, n: 2 },
            Step::GroupKeyMap { ctx: SCtx::CaseA, g: 2 },
            Step::AddGroup { ctx: SCtx::CaseA, g: 2, name: 0 },
            Step::AddWifi { ctx: SCtx::CaseA, n: 3 },
        ],
    }
}

/// Reference fail-safe state machine, written from the statement: which credential
/// commands must be accepted / refused.
#[derive(Default, Clone)]
struct FsRef {
    armed_by: Option<SCtx>,
    csr: Option<bool>, // Some(update?)
    root: bool,
    noc_done: bool,
}

impl FsRef {
    fn same_ctx(&self, ctx: SCtx) -> bool {
        self.armed_by == Some(ctx)
    }

    fn expect(&self, step: &Step) -> (Expect, &'static str) {
        // Establishing a PASE session arms the fail-safe implicitly (with the default expiry),
        // so commands over a PASE session are never "without an armed fail-safe".
        let implicit = match step {
            Step::Csr { ctx, .. }
            | Step::AddRoot { ctx, .. }
            | Step::AddNoc { ctx, .. }
            | Step::UpdateNoc { ctx, .. } => *ctx == SCtx::Pase && self.armed_by.is_none(),
            _ => false,
        };
        if implicit {
            let mut me = self.clone();
            me.armed_by = Some(SCtx::Pase);
            let (e, why) = me.expect(step);
            // only the refusals that do not depend on who armed stay binding
            return match e {
                Expect::MustReject => (Expect::MustReject, why),
                _ => (Expect::Any, "over-implicitly-armed-pase"),
            };
        }
        match step {
            Step::Arm { .. } => (Expect::Any, "arm"),
            Step::Csr { ctx, update } => {
                if self.armed_by.is_none() {
                    (Expect::MustReject, "csr-without-failsafe")
                } else if !self.same_ctx(*ctx) {
                    (Expect::MustReject, "csr-from-other-context")
                } else if *update && *ctx == SCtx::Pase {
                    (Expect::MustReject, "update-csr-over-pase")
                } else if self.noc_done {
                    (Expect::Any, "csr-after-noc")
                } else if self.csr.is_some() {
                    // a second CSRRequest: the statement says "once each"
                    (Expect::MustReject, "csr-repeated")
                } else {
                    (Expect::MustAccept, "csr-in-order")
                }
            }
            Step::AddRoot { ctx, .. } => {
                if self.armed_by.is_none() {
                    (Expect::MustReject, "root-without-failsafe")
                } else if !self.same_ctx(*ctx) {
                    (Expect::MustReject, "root-from-other-context")
                } else if self.root {
                    (Expect::MustReject, "root-repeated")
                } else if self.noc_done {
                    (Expect::Any, "root-after-noc")
                } else {
                    (Expect::MustAccept, "root-in-order")
                }
            }
            Step::AddNoc { ctx, .. } => {
                if self.armed_by.is_none() {
                    (Expect::MustReject, "addnoc-without-failsafe")
                } else if !self.same_ctx(*ctx) {
                    (Expect::MustReject, "addnoc-from-other-context")
                } else if self.noc_done {
                    (Expect::MustReject, "addnoc-repeated")
                } else if self.csr != Some(false) {
                    (Expect::MustReject, "addnoc-without-csr")
                } else if !self.root {
                    (Expect::MustReject, "addnoc-without-root")
                } else {
                    (Expect::MustAccept, "addnoc-in-order")
                }
            }
            Step::UpdateNoc { ctx, .. } => {
                if self.armed_by.is_none() {
                    (Expect::MustReject, "updatenoc-without-failsafe")
                } else if !self.same_ctx(*ctx) {
                    (Expect::MustReject, "updatenoc-from-other-context")
                } else if *ctx == SCtx::Pase {
                    (Expect::MustReject, "updatenoc-over-pase")
                } else if self.noc_done {
                    (Expect::MustReject, "updatenoc-repeated")
                } else if self.csr != Some(true) {
                    (Expect::MustReject, "updatenoc-without-update-csr")
                } else {
                    (Expect::MustAccept, "updatenoc-in-order")
                }
            }
            _ => (Expect::Any, "other"),
        }
    }

    fn apply(&mut self, step: &Step, success: bool) {
        if !success {
            return;
        }
        match step {
            Step::Arm { ctx, secs } => {
                if *secs == 0 {
                    *self = FsRef::default();
                } else if self.armed_by.is_none() {
                    self.armed_by = Some(*ctx);
                }
            }
            Step::Csr { ctx, update } => {
                if self.armed_by.is_none() && *ctx == SCtx::Pase {
                    self.armed_by = Some(SCtx::Pase);
                }
                self.csr = Some(*update)
            }
            Step::AddRoot { ctx, .. } => {
                if self.armed_by.is_none() && *ctx == SCtx::Pase {
                    self.armed_by = Some(SCtx::Pase);
                }
                self.root = true
            }
            Step::AddNoc { .. } | Step::UpdateNoc { .. } => self.noc_done = true,
            Step::Complete { .. } => *self = FsRef::default(),
            _ => {}
        }
    }
}

fn other_ctx(kind: AttemptKind, precommission: bool) -> SCtx {
    match kind {
        AttemptKind::UpdateNoc | AttemptKind::CaseSettings => SCtx::Pase,
        _ => {
            if precommission {
                SCtx::CaseA
            } else {
                SCtx::CaseB // does not exist: NoSession on the controller side
            }
        }
    }
}

fn with_ctx(step: &Step, ctx: SCtx) -> Step {
    match step.clone() {
        Step::Arm { secs, .. } => Step::Arm { ctx, secs },
        Step::Csr { update, .. } => Step::Csr { ctx, update },
        Step::AddRoot { fab_b, .. } => Step::AddRoot { ctx, fab_b },
        Step::AddNoc { fab_b, .. } => Step::AddNoc { ctx, fab_b },
        Step::UpdateNoc { fab_b, .. } => Step::UpdateNoc { ctx, fab_b },
        Step::AddWifi { n, .. } => Step::AddWifi { ctx, n },
        Step::WriteAcl { n, .. } => Step::WriteAcl { ctx, n },
        Step::GroupKeyMap { g, .. } => Step::GroupKeyMap { ctx, g },
        Step::AddGroup { g, name, .. } => Step::AddGroup { ctx, g, name },
        Step::SetVid { n, .. } => Step::SetVid { ctx, n },
        s => s,
    }
}

pub fn build(sc: &Scenario) -> Built {
    let mut steps = Vec::new();
    let needs_pre = sc.precommission || sc.kind != AttemptKind::FirstOverPase;
    if needs_pre {
        steps.extend(pre_steps());
    }
    if sc.kind == AttemptKind::SecondOverPase {
        steps.push(Step::OpenWindow { ctx: SCtx::CaseA });
    }
    if sc.kind == AttemptKind::FirstOverPase && needs_pre {
        // "first over PASE" with a pre-commissioned fabric makes no sense: degrade to second
        steps.push(Step::OpenWindow { ctx: SCtx::CaseA });
    }
    let kind = if sc.kind == AttemptKind::FirstOverPase && needs_pre {
        AttemptKind::SecondOverPase
    } else {
        sc.kind
    };
    let attempt_start = steps.len();
    let mut att = attempt_steps(kind, sc.fail_secs);
    let n = att.len() as u8;
    match sc.tamper {
        Tamper::None => {}
        Tamper::Cut(k) => att.truncate(((k % n) + 1) as usize),
        Tamper::Repeat(i) => {
            let i = (i % n) as usize;
            let s = match att[i].clone() {
                // Adding the *same* root again is idempotent by the Matter rules; "once" is
                // tested with a different root the second time.
                Step::AddRoot { ctx, fab_b } => Step::AddRoot { ctx, fab_b: !fab_b },
                s => s,
            };
            att.insert(i + 1, s);
        }
        Tamper::Swap(i) => {
            if n >= 2 {
                let i = (i % (n - 1)) as usize;
                att.swap(i, i + 1);
            }
        }
        Tamper::WrongCtx(i) => {
            // never the Arm itself (index 0): that would just make another context the armer
            let i = 1 + (i % (n - 1)) as usize;
            // Only for the commands that are bound to the arming context. A settings command
            // (ACL, groups, VID statement) issued by ANOTHER administrator on its OWN fabric
            // while a fail-safe is armed is that administrator's ordinary, permanent change and
            // not something "the commissioning in progress changed".
            if !matches!(att[i], Step::SetVid { .. } | Step::WriteAcl { .. } | Step::AddGroup { .. } | Step::GroupKeyMap { .. }) {
                att[i] = with_ctx(&att[i], other_ctx(kind, needs_pre));
            }
        }
        Tamper::Omit(i) => {
            let i = 1 + (i % (n - 1)) as usize;
            att.remove(i);
        }
    }
    steps.extend(att);

    let mut trigger_at = None;
    match sc.trigger {
        Trigger::Expiry => {
            trigger_at = Some(steps.len());
            steps.push(Step::Sleep { ms: sc.fail_secs as u32 * 1000 + 2500 });
        }
        Trigger::ForceExpire => {
            trigger_at = Some(steps.len());
            let ctx = if matches!(kind, AttemptKind::UpdateNoc | AttemptKind::CaseSettings) { SCtx::CaseA } else { SCtx::Pase };
            steps.push(Step::Arm { ctx, secs: 0 });
        }
        Trigger::ForceExpireByOtherAdmin => {
            trigger_at = Some(steps.len());
            steps.push(Step::Arm { ctx: SCtx::CaseA, secs: 0 });
        }
        Trigger::Revoke => {
            trigger_at = Some(steps.len());
            steps.push(Step::Revoke { ctx: SCtx::CaseA });
        }
        Trigger::Restart => {
            trigger_at = Some(steps.len());
            steps.push(Step::Restart);
        }
        Trigger::CompleteOverPase => {
            trigger_at = Some(steps.len());
            steps.push(Step::Complete { ctx: SCtx::Pase });
        }
        Trigger::Complete => {
            match kind {
                AttemptKind::UpdateNoc | AttemptKind::CaseSettings => {
                    // the old session keeps working until the new NOC is committed
                    trigger_at = Some(steps.len());
                    steps.push(Step::Complete { ctx: SCtx::CaseA });
                }
                AttemptKind::SecondOverPase => {
                    steps.push(Step::Case { fab_b: true });
                    trigger_at = Some(steps.len());
                    steps.push(Step::Complete { ctx: SCtx::CaseB });
                }
                AttemptKind::FirstOverPase => {
                    steps.push(Step::Case { fab_b: false });
                    trigger_at = Some(steps.len());
                    steps.push(Step::Complete { ctx: SCtx::CaseA });
                }
            }
        }
        Trigger::None => {}
    }
    // settle (and let a fail-safe that is still armed for whatever reason expire)
    steps.push(Step::Sleep { ms: sc.fail_secs as u32 * 1000 + 3000 });

    Built {
        steps,
        attempt_start,
        trigger_at,
        expect: Vec::new(),
    }
}

pub fn gen_scenario(rng: &mut Rng) -> Scenario {
    let kind = *rng.pick(&[
        AttemptKind::FirstOverPase,
        AttemptKind::FirstOverPase,
        AttemptKind::SecondOverPase,
        AttemptKind::SecondOverPase,
        AttemptKind::UpdateNoc,
        AttemptKind::CaseSettings,
    ]);
    let precommission = kind != AttemptKind::FirstOverPase;
    let tamper = match rng.below(10) {
        0..=3 => Tamper::None,
        4 | 5 => Tamper::Cut(rng.below(8) as u8),
        6 => Tamper::Repeat(rng.below(8) as u8),
        7 => Tamper::Swap(rng.below(8) as u8),
        8 => Tamper::WrongCtx(rng.below(8) as u8),
        _ => Tamper::Omit(rng.below(8) as u8),
    };
    let mut trigger = *rng.pick(&[
        Trigger::Expiry,
        Trigger::ForceExpire,
        Trigger::ForceExpireByOtherAdmin,
        Trigger::Revoke,
        Trigger::Restart,
        Trigger::Restart,
        Trigger::Complete,
        Trigger::Complete,
        Trigger::CompleteOverPase,
        Trigger::None,
    ]);
    if !precommission && matches!(trigger, Trigger::ForceExpireByOtherAdmin | Trigger::Revoke) {
        trigger = Trigger::ForceExpire;
    }
    if matches!(kind, AttemptKind::UpdateNoc | AttemptKind::CaseSettings) && trigger == Trigger::CompleteOverPase {
        // no PASE session exists in these attempts
        trigger = Trigger::Complete;
    }
    let kv_fail_at = if rng.chance(1, 4) {
        Some(1 + rng.usize(8))
    } else {
        None
    };
    Scenario {
        seed: rng.u64(),
        precommission,
        kind,
        tamper,
        trigger,
        fail_secs: *rng.pick(&[5u16, 8, 20]),
        kv_fail_at,
        chaos: if rng.chance(1, 6) { 10 } else { 0 },
    }
}

fn state_pair(d: &DevDump) -> (Vec<(u8, Vec<u8>)>, Vec<Vec<u8>>) {
    (
        d.fabrics.iter().map(|(k, v)| (*k, v.clone())).collect(),
        d.networks.clone(),
    )
}

fn pair_hash(d: &DevDump) -> u64 {
    let mut f = Fnv::new();
    for (k, v) in &d.fabrics {
        f.add(&[*k]);
        f.add(v);
    }
    f.add(&[0xff]);
    for n in &d.networks {
        f.add(n);
        f.add(&[0xfe]);
    }
    f.0
}

fn describe(d: &DevDump) -> String {
    format!(
        "fabrics {:?} networks {:?} failsafe {:?} breadcrumb {}",
        d.fabric_ids
            .iter()
            .map(|(k, v)| (*k, v.0, v.1))
            .collect::<Vec<_>>(),
        d.networks
            .iter()
            .map(|n| String::from_utf8_lossy(n).to_string())
            .collect::<Vec<_>>(),
        d.failsafe,
        d.breadcrumb
    )
}

fn log_at(log: &[StepLog], idx: usize) -> Option<&StepLog> {
    log.iter().find(|l| l.index == idx)
}

pub fn judge(rep: &mut Report, sc: &Scenario, b: &Built, r: &WorldResult, kv: &crate::sim::kv::SimKv, replay: serde_json::Value) {
    if let Some(msg) = &r.panic {
        rep.violation(
            "no-panic",
            &format!("C08/panic/{}", crate::util::panic_class(msg)),
            format!("panic: {} scenario {:?}", msg, sc),
            replay,
        );
        return;
    }
    if r.setup_failed {
        rep.inconclusive("setup-failed(certificate generator)");
        return;
    }
    match r.status {
        Some(RunStatus::Done) => {}
        s => {
            rep.inconclusive(&format!("run-status-{:?}", s));
            return;
        }
    }
    if r.log.len() < b.steps.len() {
        rep.inconclusive("scenario-did-not-run-to-the-end");
        return;
    }
    let clean_net = sc.chaos == 0;

    // ---- S0: the state right before the attempt's first command ----
    // (for the settings-only attempt: right before the ArmFailSafe - a setting written before
    // arming is an ordinary, permanent write and not part of what the fail-safe undoes)
    let s0_before = if sc.kind == AttemptKind::CaseSettings {
        r.log
            .iter()
            .find(|l| l.index >= b.attempt_start && matches!(l.step, Step::Arm { secs, .. } if secs > 0))
            .map(|l| l.index)
            .unwrap_or(b.attempt_start)
    } else {
        b.attempt_start
    };
    if r.log.iter().any(|l| l.index >= b.attempt_start && l.index < s0_before && !l.success) {
        // a setting written before arming failed (injected KV failure): RAM and store already
        // disagree before the fail-safe starts - not a scenario about the fail-safe
        rep.inconclusive("settings-write-before-arming-failed");
        return;
    }
    let s0 = if s0_before == 0 {
        DevDump::default()
    } else {
        match log_at(&r.log, s0_before - 1) {
            Some(l) => l.dev.clone(),
            None => {
                rep.inconclusive("no-s0");
                return;
            }
        }
    };
    if b.attempt_start > 0 {
        // The pre-commissioning must have worked, or the scenario is not what it claims to be.
        let pre_ok = r.log.iter().take(b.attempt_start).all(|l| l.success);
        if !pre_ok {
            if clean_net && sc.kv_fail_at.is_none() {
                rep.violation(
                    "R4-prescribed-order-accepted",
                    "C08/R4/honest-precommissioning-failed",
                    format!(
                        "the honest first commissioning failed: {:?}",
                        r.log.iter().take(b.attempt_start).map(|l| (format!("{:?}", l.step), l.out.clone())).collect::<Vec<_>>()
                    ),
                    replay.clone(),
                );
            } else {
                rep.inconclusive("precommissioning-failed-under-faults");
            }
            return;
        }
    }

    // ---- R4: order / once / context ----
    let mut fs = FsRef::default();
    let attempt_end = b.trigger_at.unwrap_or(b.steps.len() - 1);
    let mut any_unexpected = false;
    for l in r.log.iter().filter(|l| l.index >= b.attempt_start && l.index < attempt_end) {
        let (exp, why) = fs.expect(&l.step);
        let is_cred = matches!(
            l.step,
            Step::Csr { .. } | Step::AddRoot { .. } | Step::AddNoc { .. } | Step::UpdateNoc { .. }
        );
        if is_cred {
            rep.count(&format!("R4:{}:{}", why, if l.success { "accepted" } else { "refused" }));
        }
        // transport-level failures under chaos / KV faults are not refusals by the rule
        let transportish = l.out.contains("TxTimeout") || l.out.contains("RxTimeout") || l.out.contains("NoSession");
        match exp {
            Expect::MustAccept if !l.success && clean_net && sc.kv_fail_at.is_none() && !transportish => {
                any_unexpected = true;
                rep.violation(
                    "R4-prescribed-order-accepted",
                    &format!("C08/R4/refused/{}", why),
                    format!("step {} {:?} was refused ({}) although it is the prescribed next command from the arming context; scenario {:?}", l.index, l.step, l.out, sc),
                    replay.clone(),
                );
            }
            Expect::MustReject if l.success => {
                any_unexpected = true;
                rep.violation(
                    "R4-order-once-context",
                    &format!("C08/R4/accepted/{}", why),
                    format!("step {} {:?} was accepted ({}) although the statement requires it to be refused ({}); steps so far {:?}; scenario {:?}",
                        l.index, l.step, l.out, why,
                        r.log.iter().filter(|x| x.index >= b.attempt_start && x.index <= l.index).map(|x| (format!("{:?}", x.step), x.out.clone())).collect::<Vec<_>>(), sc),
                    replay.clone(),
                );
            }
            _ => {}
        }
        // a refused command must have no effect on fabrics / networks
        if !l.success && is_cred {
            if let Some(prev) = log_at(&r.log, l.index.wrapping_sub(1)) {
                if l.index > 0 && state_pair(&prev.dev) != state_pair(&l.dev) && prev.incarnation == l.incarnation {
                    rep.violation(
                        "R4-order-once-context",
                        &format!("C08/R4/refused-command-had-effect/{}", why),
                        format!("step {} {:?} was refused ({}) but changed the device: before [{}] after [{}]", l.index, l.step, l.out, describe(&prev.dev), describe(&l.dev)),
                        replay.clone(),
                    );
                }
            }
        }
        fs.apply(&l.step, l.success);
    }
    let _ = any_unexpected;

    // ---- what happened at the trigger ----
    let last = r.log.last().unwrap();
    let fin = &last.dev;
    let trig = b.trigger_at.and_then(|i| log_at(&r.log, i));
    let completed = matches!(sc.trigger, Trigger::Complete | Trigger::CompleteOverPase) && trig.map(|l| l.success).unwrap_or(false);
    let armed_once = r
        .log
        .iter()
        .any(|l| l.index >= b.attempt_start && matches!(l.step, Step::Arm { secs, .. } if secs > 0) && l.success);

    // A step that takes longer than the fail-safe lasts (a controller-side time-out of ~10 s on a
    // session that does not exist, with an 8 s fail-safe) lets the fail-safe expire in the middle
    // of the attempt: what follows is ordinary, permanent configuration and not a subject of the
    // rollback rules. Such a history is not what the scenario claims to be: not judged.
    {
        let arm_at = r
            .log
            .iter()
            .find(|l| l.index >= b.attempt_start && matches!(l.step, Step::Arm { secs, .. } if secs > 0) && l.success)
            .map(|l| l.index);
        let end = b.trigger_at.unwrap_or(b.steps.len());
        if let Some(a) = arm_at {
            if r.log.iter().any(|l| l.index > a && l.index < end && l.dev.failsafe.is_none() && !matches!(l.step, Step::Arm { secs: 0, .. })) {
                rep.inconclusive("fail-safe-expired-in-the-middle-of-the-attempt");
                return;
            }
        }
    }

    rep.count(&format!("trigger:{:?}:{}", sc.trigger, if completed { "completed" } else { "not-completed" }));
    rep.count(&format!("kind:{:?}", sc.kind));
    rep.count(&format!("tamper:{}", format!("{:?}", sc.tamper).split('(').next().unwrap_or("")));

    let restart = match &r.final_restart {
        Some(d) => d,
        None => {
            rep.violation(
                "R1-rollback",
                "C08/restart-from-final-store-failed",
                format!("a device restarted from the final KV store did not come up; scenario {:?}", sc),
                replay.clone(),
            );
            return;
        }
    };

    if completed {
        // ---- R2 commit ----
        rep.count("R2-checked");
        let staged = &trig.unwrap().dev;
        if state_pair(restart) != state_pair(staged) {
            rep.violation(
                "R2-commit-survives-restart",
                "C08/R2/committed-state-not-restored-after-restart",
                format!("CommissioningComplete was answered OK with [{}] but a restart from the store comes up with [{}]; scenario {:?}", describe(staged), describe(restart), sc),
                replay.clone(),
            );
        }
        if state_pair(fin) != state_pair(staged) {
            rep.note("state-changed-after-commit-without-command");
        }
    } else if armed_once {
        // ---- R1 / R5 rollback: everything the attempt changed is undone ----
        let kv_failed = sc.kv_fail_at.map(|k| k <= r.kv_log_len).unwrap_or(false);
        let rule = if matches!(sc.trigger, Trigger::Complete | Trigger::CompleteOverPase) { "R5-failed-completion" } else { "R1-rollback" };
        // Where did the injected KV failure land? (first / second ... write of the completing
        // command, or elsewhere)
        let kv_where = if kv_failed {
            let ops = kv.log();
            let failed = ops.iter().find(|o| o.failed);
            match (failed, b.trigger_at) {
                (Some(f), Some(t)) if f.step as usize == t && matches!(sc.trigger, Trigger::Complete | Trigger::CompleteOverPase) => {
                    // which record of the commit could not be written (the position of the write
                    // inside the step is not stable: a resumption-cache flush may interleave)
                    let rec = if f.key < rs_matter::persist::BASIC_INFO_KEY {
                        "fabric-record"
                    } else if f.key == rs_matter::persist::NETWORKS_KEY {
                        "networks-record"
                    } else {
                        "other-record"
                    };
                    format!("/kv-failure@commit-{}", rec)
                }
                (Some(_), _) => "/kv-failure@elsewhere".to_string(),
                _ => "/kv-failure@not-reached".to_string(),
            }
        } else {
            String::new()
        };
        let class = format!("{:?}/{:?}{}", sc.kind, sc.trigger, kv_where);
        rep.count(&format!("{}-checked", rule));
        if state_pair(fin) != state_pair(&s0) {
            rep.violation(
                rule,
                &format!("C08/{}/ram-not-restored/{}", rule, class),
                format!("after the trigger and the settle time the device holds [{}] but before arming it held [{}]; steps {:?}; scenario {:?}",
                    describe(fin), describe(&s0),
                    r.log.iter().filter(|x| x.index >= b.attempt_start).map(|x| (format!("{:?}", x.step), x.out.clone())).collect::<Vec<_>>(), sc),
                replay.clone(),
            );
        }
        if fin.failsafe.is_some() {
            rep.violation(
                rule,
                &format!("C08/{}/failsafe-still-armed/{}", rule, class),
                format!("fail-safe still armed {:?} after its expiry time; scenario {:?}", fin.failsafe, sc),
                replay.clone(),
            );
        }
        if fin.breadcrumb != 0 {
            rep.violation(
                rule,
                &format!("C08/{}/breadcrumb-not-reset/{}", rule, class),
                format!("breadcrumb {} after rollback; scenario {:?}", fin.breadcrumb, sc),
                replay.clone(),
            );
        }
        if state_pair(restart) != state_pair(&s0) {
            rep.violation(
                rule,
                &format!("C08/{}/store-not-restored/{}", rule, class),
                format!("a restart from the final store comes up with [{}] but before arming the device held [{}]; scenario {:?}", describe(restart), describe(&s0), sc),
                replay.clone(),
            );
        }
    } else {
        rep.count("attempt-never-armed");
    }

    // ---- R3: crash at every KV operation ----
    // Only for scenarios without an injected KV failure and with a reliable network (the
    // acknowledgement bookkeeping below needs to know when the completion was acknowledged).
    if sc.kv_fail_at.is_none() && clean_net && armed_once {
        let attempt_kv0 = log_at(&r.log, s0_before.saturating_sub(1)).map(|l| l.kv_ops).unwrap_or(0);
        let (commit_from, commit_acked) = if completed {
            let t = trig.unwrap();
            let before = log_at(&r.log, t.index - 1).map(|l| l.kv_ops).unwrap_or(0);
            (before, t.kv_ops)
        } else {
            (usize::MAX, usize::MAX)
        };
        let staged = trig.map(|t| state_pair(&t.dev));
        let total = kv.mut_count();
        for k in attempt_kv0..=total {
            let snap = kv.snapshot(k);
            let Some(d) = commis::restart_dump(&snap, sc.seed ^ k as u64) else {
                rep.violation(
                    "R3-crash-points",
                    "C08/R3/restart-failed-at-crash-point",
                    format!("restart from the store as of KV operation {} failed; scenario {:?}", k, sc),
                    replay.clone(),
                );
                continue;
            };
            rep.count("R3-crash-points-checked");
            let p = state_pair(&d);
            let is_s0 = p == state_pair(&s0);
            let is_staged = staged.as_ref().map(|s| *s == p).unwrap_or(false);
            let ok = if k < commit_from || !completed {
                // nothing of an uncommitted commissioning (later, non-attempt changes such as
                // the resumption cache do not show in the pair)
                is_s0 || (completed && false)
            } else if k >= commit_acked {
                is_staged || state_pair(fin) == p
            } else {
                is_s0 || is_staged
            };
            if !ok {
                let phase = if k < commit_from || !completed {
                    "before-completion"
                } else if k >= commit_acked {
                    "after-acknowledged-completion"
                } else {
                    "during-completion"
                };
                rep.violation(
                    "R3-crash-points",
                    &format!("C08/R3/{}/{:?}", phase, sc.kind),
                    format!(
                        "crash after KV operation {} ({}): restart comes up with [{}]; before arming [{}]; staged {:?}; KV log {:?}; scenario {:?}",
                        k, phase, describe(&d), describe(&s0),
                        trig.map(|t| describe(&t.dev)),
                        kv.log().iter().map(|o| (o.mut_index, format!("{:?}", o.kind), o.key, o.step)).collect::<Vec<_>>(),
                        sc
                    ),
                    replay.clone(),
                );
            }
        }
    }

    for v in &r.tap_violations {
        rep.violation(
            "C15-tap",
            &format!("C15/tap/{}", v.split(':').next().unwrap_or("x")),
            format!("passive nonce monitor: {} scenario {:?}", v, sc),
            replay.clone(),
        );
    }
}

fn scenario_json(sc: &Scenario) -> serde_json::Value {
    json!({"check":"C08","scenario": format!("{:?}", sc)})
}

pub fn run_one(rep: &mut Report, sc: &Scenario, replay: serde_json::Value) -> (WorldResult, Built) {
    let b = build(sc);
    let p = WorldParams {
        seed: sc.seed,
        steps: b.steps.clone(),
        shuffle: true,
        kv_fail_at: sc.kv_fail_at,
        chaos: sc.chaos,
    };
    let (r, kv) = commis::run_world_kv(&p);
    rep.evaluations += 1;
    rep.interleavings.insert(r.sched);
    rep.count_n("datagrams_observed", r.datagrams);
    rep.count_n("kv_mutating_ops", r.kv_log_len as u64);
    judge(rep, sc, &b, &r, &kv, replay);
    (r, b)
}

pub fn run(ctx: &Ctx) -> Report {
    let mut rep = Report::new(
        "C08",
        "Commissioning attempts (new fabric over PASE, second fabric through an opened window, UpdateNOC) with the command list cut / \
         permuted / repeated / issued from another context, ended by expiry, ArmFailSafe(0), RevokeCommissioning, restart or \
         CommissioningComplete, optionally with a KV failure at one store; every prefix of the KV log is a crash point. \
         distinct = (attempt kind, tamper, trigger, KV-failure position, outcome of every command) tuples; all are non-trivial \
         (each scenario contains at least a rollback or a commit).",
    );
    crate::util::quiet_panics();
    crate::util::init_log_from_env();
    rep.assumptions.push("KvBlobStore contract: each store/remove atomic and durable on return; a crash point is the map after k mutating operations".into());
    rep.assumptions.push("ArmFailSafe(0) / RevokeCommissioning by another administrator rolling back a foreign commissioning is observed, not judged (the statement restricts only the credential commands to the arming context)".into());
    rep.floor("R1-rollback-checked", 40);
    rep.floor("R2-checked", 20);
    rep.floor("R3-crash-points-checked", 200);
    rep.floor("R4:addnoc-in-order:accepted", 40);

    if let Some(r) = &ctx.replay {
        let seed: u64 = r["shard_seed"].as_str().and_then(|s| s.parse().ok()).unwrap_or(0);
        let idx = r["index"].as_u64().unwrap_or(0);
        let mut rng = Rng::new(subseed(seed, &[idx]));
        let sc = gen_scenario(&mut rng);
        let (res, b) = run_one(&mut rep, &sc, r.clone());
        rep.max_samples = 60;
        rep.sample(json!({"scenario": format!("{:?}", sc), "steps": b.steps.iter().map(|s| format!("{:?}", s)).collect::<Vec<_>>() }));
        for l in &res.log {
            rep.sample(json!({"i": l.index, "step": format!("{:?}", l.step), "out": l.out, "kv": l.kv_ops, "dev": describe(&l.dev)}));
        }
        return rep;
    }

    let n = ctx.share(480, 24_000);
    let shard_seed = ctx.shard_seed();
    for k in 0..n {
        let idx = k * ctx.nshards + ctx.shard;
        let mut rng = Rng::new(subseed(shard_seed, &[idx]));
        let sc = gen_scenario(&mut rng);
        let mut rj = scenario_json(&sc);
        rj["shard_seed"] = json!(shard_seed.to_string());
        rj["index"] = json!(idx);
        let (res, b) = run_one(&mut rep, &sc, rj);
        let mut f = Fnv::new();
        f.add(format!("{:?}|{:?}|{:?}|{:?}", sc.kind, sc.tamper, sc.trigger, sc.kv_fail_at).as_bytes());
        for l in res.log.iter().filter(|l| l.index >= b.attempt_start) {
            f.add(l.out.as_bytes());
        }
        rep.distinct.insert(f.0);
        if k < 2 {
            rep.sample(json!({"scenario": format!("{:?}", sc),
                "steps": res.log.iter().map(|l| format!("{:?} -> {}", l.step, l.out)).collect::<Vec<_>>(),
                "kv_ops": res.kv_log_len}));
        }
    }
    rep
}
