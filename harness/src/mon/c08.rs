//! C08 — commissioning under the fail-safe is all-or-nothing. (work in progress: smoke test)

use serde_json::json;

use crate::mon::commis::{self, WorldParams};
use crate::report::{Ctx, Report};

pub fn run(ctx: &Ctx) -> Report {
    let mut rep = Report::new("C08", "wip");
    crate::util::quiet_panics();
    let p = WorldParams {
        seed: ctx.shard_seed(),
        steps: commis::happy_path(),
        shuffle: true,
        kv_fail_at: None,
        chaos: 0,
    };
    let r = commis::run_world(&p);
    rep.evaluations += 1;
    rep.max_samples = 50;
    for l in &r.log {
        rep.sample(json!({"i": l.index, "step": format!("{:?}", l.step), "out": l.out, "t": l.t, "kv": l.kv_ops,
            "fabrics": l.dev.fabrics.keys().collect::<Vec<_>>(), "failsafe": format!("{:?}", l.dev.failsafe), "nets": l.dev.networks.len(),
            "sessions": l.dev.sessions.len(), "resumption": l.dev.resumption.len()}));
    }
    rep.max_samples = 50;
    rep.sample(json!({"status": format!("{:?}", r.status), "panic": r.panic, "boots": format!("{:?}", r.boots), "kv_ops": r.kv_log_len,
        "final_restart_fabrics": r.final_restart.as_ref().map(|d| d.fabrics.keys().cloned().collect::<Vec<_>>()), "setup_failed": r.setup_failed, "datagrams": r.datagrams}));
    rep
}
