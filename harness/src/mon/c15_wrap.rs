//! C15, family (d): locally chosen exchange identifiers stay unique among live exchanges over
//! more allocations than the 16-bit identifier space holds.
//!
//! One node holds one (or two) locally initiated exchanges open and meanwhile initiates and
//! closes `n` further exchanges, `n` reaching beyond 65535 (the identifier counter wraps once).
//! After every allocation near the wrap the session-table snapshot is read: two live exchanges
//! that this node initiated must never carry the same exchange id.

use std::panic::{catch_unwind, AssertUnwindSafe};

use rs_matter::transport::exchange::Exchange;
use rs_matter::transport::session::SessionMode;

use crate::sim::exec::{self, BoxFut, Limits};
use crate::sim::net::NetHub;
use crate::sim::node;
use crate::sim::rng::{subseed, Rng};
use crate::sim::clock;

pub struct WrapOutcome {
    pub allocations: u64,
    pub snapshots: u64,
    pub violations: Vec<String>,
    pub error: Option<String>,
}

pub fn run_wrap_case(seed: u64, hold: usize) -> WrapOutcome {
    clock::reset(1_000_000);
    let mut rng = Rng::new(seed);
    let crypto = node::crypto(rng.fork());
    let crypto_t = node::crypto(rng.fork());
    let ma = node::new_matter();
    let mb = node::new_matter();
    let hub = NetHub::new(rng.u64(), 2);
    let mut out = WrapOutcome { allocations: 0, snapshots: 0, violations: vec![], error: None };
    let (k1, k2) = ([7u8; 16], [9u8; 16]);
    let sid = match node::mirrored_sessions(
        &ma,
        &mb,
        &crypto,
        hub.addr(0),
        hub.addr(1),
        0x1001,
        0x2002,
        11,
        22,
        SessionMode::Pase { fab_idx: 0 },
        SessionMode::Pase { fab_idx: 0 },
        &k1,
        &k2,
    ) {
        Ok((a, _)) => a,
        Err(e) => {
            out.error = Some(format!("setup {:?}", e.code()));
            return out;
        }
    };
    // start somewhere random so that the wrap is not always at the same allocation
    let total: u64 = 65_536 + 40 + rng.below(200);
    let res = std::rc::Rc::new(std::cell::RefCell::new((0u64, 0u64, Vec::<String>::new())));
    let res2 = res.clone();
    let r = catch_unwind(AssertUnwindSafe(|| {
        let ma = &*ma;
        let crypto = &crypto;
        let crypto_t = &crypto_t;
        let ep = hub.endpoint(0);
        let node_a: BoxFut = Box::pin(async move {
            let script: BoxFut = Box::pin(async move {
                let mut held = Vec::new();
                for _ in 0..hold {
                    match Exchange::initiate_for_session(ma, crypto, sid) {
                        Ok(ex) => held.push(ex),
                        Err(_) => return,
                    }
                }
                let held_ids: Vec<u16> = node::snapshot(ma)
                    .iter()
                    .flat_map(|s| s.exchanges.iter())
                    .filter(|e| e.initiator && !e.dropped)
                    .map(|e| e.exch_id)
                    .collect();
                let mut first: Option<u16> = None;
                for i in 0..total {
                    let ex = match Exchange::initiate_for_session(ma, crypto, sid) {
                        Ok(ex) => ex,
                        Err(_) => {
                            // no free exchange slot yet: let the closer run
                            exec::sleep_ms(5).await;
                            continue;
                        }
                    };
                    res2.borrow_mut().0 += 1;
                    // the identifiers are handed out in sequence: look at the table where a
                    // collision with a held exchange can happen, and now and then elsewhere
                    let snap_now = i < 8 || i % 4096 == 0 || i + 400 > total || {
                        let near = |id: u16| held_ids.iter().any(|h| id.wrapping_sub(*h) < 8 || h.wrapping_sub(id) < 8);
                        first.map(|f| near(f.wrapping_add(i as u16))).unwrap_or(true)
                    };
                    if snap_now {
                        res2.borrow_mut().1 += 1;
                        let live: Vec<u16> = node::snapshot(ma)
                            .iter()
                            .flat_map(|s| s.exchanges.iter())
                            .filter(|e| e.initiator && !e.dropped)
                            .map(|e| e.exch_id)
                            .collect();
                        if first.is_none() {
                            first = live.iter().copied().find(|id| !held_ids.contains(id));
                        }
                        let mut sorted = live.clone();
                        sorted.sort_unstable();
                        if sorted.windows(2).any(|w| w[0] == w[1]) {
                            res2.borrow_mut().2.push(format!(
                                "exchange-id-not-unique: after {} allocations two live locally initiated exchanges carry the same exchange id (live ids {:?}, held since the start {:?})",
                                i + 1 + hold as u64,
                                live,
                                held_ids
                            ));
                            drop(ex);
                            break;
                        }
                    }
                    drop(ex);
                    // let the transport close the dropped exchange and free its slot
                    exec::sleep_ms(1).await;
                }
                drop(held);
                exec::sleep_ms(50).await;
            });
            let transport: BoxFut = Box::pin(async move {
                let _ = ma.run(crypto_t, ep.clone(), ep.clone(), ep.clone()).await;
            });
            exec::ShuffleSelect::new(subseed(seed, &[3]), false, vec![script, transport]).await
        });
        let mut erng = Rng::new(subseed(seed, &[4]));
        let limits = Limits { max_polls: 40_000_000, ..Limits::default() };
        exec::run(&mut erng, limits, vec![node_a])
    }));
    let (a, s, v) = res.borrow().clone();
    out.allocations = a;
    out.snapshots = s;
    out.violations = v;
    if let Err(p) = r {
        out.error = Some(format!("panic {}", crate::util::panic_msg(&p)));
    }
    out
}
