//! C16 helper: structures declared with the derive macros (every attribute the macro supports),
//! public rs-matter wire types, their generators, the derived round trip, and the table of
//! `FromTLV` decoders that the malformed-input part throws bytes at.

use core::fmt::Debug;
use core::mem::MaybeUninit;
use core::num::{NonZeroU64, NonZeroU8};

use serde_json::json;

use rs_matter::acl::{AclEntry, AuthMode, Target};
use rs_matter::dm::Privilege;
use rs_matter::error::Error;
use rs_matter::im::{
    AttrData, AttrPath, AttrResp, AttrStatus, ClusterPath, CmdData, CmdPath, CmdResp, CmdStatus,
    DataVersionFilter, EventFilter, EventPath, EventPriority, EventResp, EventStatus, IMStatusCode,
    InvReq, InvokeResp, ReadReq, ReportDataResp, Status, StatusResp, SubscribeReq, SubscribeResp,
    TimedReq, WriteReq, WriteResp,
};
use rs_matter::tlv::{
    FromTLV, Nullable, OctetStr, OctetsOwned, Skippable, TLVArray, TLVElement, TLVTag, ToTLV,
    Utf8Str, TLV,
};
use rs_matter::utils::init::InitMaybeUninit;
use rs_matter::utils::storage::{Vec as SVec, WriteBuf};

use crate::report::Report;
use crate::sim::rng::Rng;

use super::c16::Stats;
use super::c16_probe::{fmt_checked, guarded, hex, iter_bound, set_stage, Acc, Out};

// ------------------------------------------------------------------ declared types

#[derive(FromTLV, ToTLV, Debug, PartialEq, Clone)]
pub struct Prim {
    a: u8,
    b: u16,
    c: u32,
    d: u64,
    e: i8,
    f: i16,
    g: i32,
    h: i64,
    i: bool,
}

#[derive(FromTLV, ToTLV, Debug, PartialEq, Clone)]
pub struct Opt {
    a: Option<u8>,
    #[tagval(7)]
    b: Option<u32>,
    c: Nullable<u16>,
    d: Option<Nullable<i32>>,
    #[tagval(0xFE)]
    fab: Option<u8>,
    #[tagval(rs_matter::im::IM_REVISION_TAG)]
    rev: Option<u8>,
}

#[derive(FromTLV, ToTLV, Debug, PartialEq, Clone, Default)]
#[tlvargs(datatype = "list", start = 2)]
pub struct ListS {
    x: Option<u16>,
    y: u32,
}

#[derive(FromTLV, ToTLV, Debug, Clone)]
#[tlvargs(lifetime = "'a")]
pub struct Borrowed<'a> {
    s: Utf8Str<'a>,
    o: OctetStr<'a>,
    e: TLVElement<'a>,
    arr: TLVArray<'a, u16>,
    oo: Option<OctetStr<'a>>,
}

/// The derive macro only accepts path types for fields.
pub type Arr3 = [u8; 3];

#[derive(FromTLV, ToTLV, Debug, PartialEq, Clone)]
pub struct Owned {
    s: heapless::String<16>,
    o: OctetsOwned<8>,
    v: SVec<u16, 4>,
    arr: Arr3,
    nested: ListS,
    lst: SVec<ListS, 3>,
}

#[derive(FromTLV, ToTLV, Debug, PartialEq, Clone, Copy)]
#[tlvargs(datatype = "u8")]
#[repr(u8)]
pub enum UnitE {
    A,
    B,
    #[enumval(9)]
    C,
}

#[derive(FromTLV, ToTLV, Debug, PartialEq, Clone, Copy)]
#[tlvargs(datatype = "u16")]
#[repr(u16)]
pub enum UnitE16 {
    X,
    #[enumval(300)]
    Y,
    #[enumval(65534)]
    Z,
}

#[derive(FromTLV, ToTLV, Debug, PartialEq, Clone)]
pub enum Choice {
    A(u32),
    B(ListS),
    #[enumval(200)]
    C(UnitE),
}

#[derive(FromTLV, ToTLV, Debug, PartialEq, Clone)]
#[tlvargs(datatype = "naked")]
pub enum Naked {
    A(u8),
    B(u16),
}

#[derive(FromTLV, ToTLV, Debug, PartialEq, Clone)]
pub struct Newtype(u32);

#[derive(FromTLV, ToTLV, Debug, PartialEq, Clone)]
#[tlvargs(assume_ordered)]
pub struct Ordered {
    a: u8,
    b: u16,
    c: Option<u8>,
    #[tagval(0xFE)]
    z: Option<u8>,
}

#[derive(FromTLV, ToTLV, Debug, Clone)]
pub struct Floats {
    f: f32,
    d: f64,
}

#[derive(FromTLV, ToTLV, Debug, PartialEq, Clone)]
pub struct SessParams {
    idle: Option<u32>,
    active: Option<u32>,
    threshold: Option<u16>,
}

/// Shaped like the Sigma1 / PBKDFParamRequest messages.
#[derive(FromTLV, ToTLV, Debug, PartialEq, Clone)]
#[tlvargs(start = 1, lifetime = "'a")]
pub struct Sigma1ish<'a> {
    initiator_random: OctetStr<'a>,
    initiator_sessid: u16,
    dest_id: OctetStr<'a>,
    pubkey: OctetStr<'a>,
    params: Option<SessParams>,
    resumption_id: Option<OctetStr<'a>>,
    initiator_resume_mic: Option<OctetStr<'a>>,
}

#[derive(FromTLV, ToTLV, Debug, PartialEq, Clone)]
pub struct Skip {
    a: u16,
    t: Skippable<SVec<u16, 4>>,
}

/// A mandatory array field and nothing else.
#[derive(FromTLV, ToTLV, Debug, PartialEq, Clone)]
pub struct VecOnly {
    v: SVec<u16, 4>,
}

#[derive(FromTLV, ToTLV, Debug, PartialEq, Clone)]
pub struct Nz {
    n: NonZeroU8,
    m: Option<NonZeroU64>,
    e: UnitE,
    e16: Nullable<UnitE16>,
    ch: Choice,
    nk: Option<Nullable<u64>>,
}

// ------------------------------------------------------------------ encode helpers

pub fn enc_to_tlv<T: ToTLV>(v: &T, tag: &TLVTag) -> Result<Vec<u8>, Error> {
    let mut buf = vec![0u8; 4096];
    let mut wb = WriteBuf::new(&mut buf);
    v.to_tlv(tag, &mut wb)?;
    Ok(wb.as_slice().to_vec())
}

pub fn enc_tlv_iter<T: ToTLV>(v: &T, tag: TLVTag) -> Result<Vec<u8>, Error> {
    let mut out = Vec::new();
    for b in v.tlv_iter(tag).flat_map(TLV::result_into_bytes_iter) {
        out.push(b?);
        if out.len() > 1 << 16 {
            break;
        }
    }
    Ok(out)
}

// ------------------------------------------------------------------ generators

fn opt<T>(rng: &mut Rng, f: impl FnOnce(&mut Rng) -> T) -> Option<T> {
    if rng.chance(2, 5) {
        None
    } else {
        Some(f(rng))
    }
}

fn g_u8(rng: &mut Rng) -> u8 {
    *rng.pick(&[0u8, 1, 127, 128, 254, 255, 42, 7])
}
fn g_u16(rng: &mut Rng) -> u16 {
    if rng.bool() {
        *rng.pick(&[0u16, 1, 255, 256, 0x7fff, 0xfffe, 0xffff])
    } else {
        rng.u32() as u16
    }
}
fn g_u32(rng: &mut Rng) -> u32 {
    if rng.bool() {
        *rng.pick(&[0u32, 1, 255, 256, 0xffff, 0x10000, u32::MAX - 1, u32::MAX])
    } else {
        rng.u32()
    }
}
fn g_u64(rng: &mut Rng) -> u64 {
    if rng.bool() {
        *rng.pick(&[0u64, 1, 0xffff_ffff, 0x1_0000_0000, u64::MAX - 1, u64::MAX])
    } else {
        rng.u64()
    }
}
fn g_i32(rng: &mut Rng) -> i32 {
    if rng.bool() {
        *rng.pick(&[i32::MIN, i32::MIN + 1, -32769, -129, -1, 0, 1, 128, 32768, i32::MAX])
    } else {
        rng.u32() as i32
    }
}

fn g_prim(rng: &mut Rng) -> Prim {
    Prim {
        a: g_u8(rng),
        b: g_u16(rng),
        c: g_u32(rng),
        d: g_u64(rng),
        e: *rng.pick(&[i8::MIN, -1, 0, 1, i8::MAX]),
        f: *rng.pick(&[i16::MIN, -129, -1, 0, 128, i16::MAX]),
        g: g_i32(rng),
        h: *rng.pick(&[i64::MIN, i32::MIN as i64 - 1, -1, 0, i32::MAX as i64 + 1, i64::MAX]),
        i: rng.bool(),
    }
}

fn g_nullable_u16(rng: &mut Rng) -> Nullable<u16> {
    if rng.chance(1, 3) {
        Nullable::none()
    } else {
        // u16::MAX is the reserved null encoding: outside the value domain
        Nullable::some(g_u16(rng).min(u16::MAX - 1))
    }
}

fn g_opt(rng: &mut Rng) -> Opt {
    Opt {
        a: opt(rng, g_u8),
        b: opt(rng, g_u32),
        c: g_nullable_u16(rng),
        d: opt(rng, |r| {
            if r.chance(1, 3) {
                Nullable::none()
            } else {
                Nullable::some(g_i32(r).max(i32::MIN + 1))
            }
        }),
        fab: opt(rng, g_u8),
        rev: opt(rng, g_u8),
    }
}

fn g_lists(rng: &mut Rng) -> ListS {
    ListS { x: opt(rng, g_u16), y: g_u32(rng) }
}

fn g_str(rng: &mut Rng, max: usize) -> String {
    const CH: &[char] = &['a', 'Z', '0', ' ', 'é', '€', '😀', '"'];
    let want = rng.usize(max + 1);
    let mut s = String::new();
    loop {
        let c = *rng.pick(CH);
        if s.len() + c.len_utf8() > want {
            break;
        }
        s.push(c);
    }
    s
}

fn g_owned(rng: &mut Rng) -> Owned {
    let mut s = heapless::String::<16>::new();
    let _ = s.push_str(&g_str(rng, 16));
    let mut o = OctetsOwned::<8>::new();
    let n = rng.usize(9);
    let _ = o.vec.extend_from_slice(&rng.bytes(n));
    let mut v = SVec::<u16, 4>::new();
    for _ in 0..rng.usize(5) {
        let _ = v.push(g_u16(rng));
    }
    let mut lst = SVec::<ListS, 3>::new();
    for _ in 0..rng.usize(4) {
        let _ = lst.push(g_lists(rng));
    }
    Owned { s, o, v, arr: [g_u8(rng), g_u8(rng), g_u8(rng)], nested: g_lists(rng), lst }
}

fn g_unit(rng: &mut Rng) -> UnitE {
    *rng.pick(&[UnitE::A, UnitE::B, UnitE::C])
}

fn g_choice(rng: &mut Rng) -> Choice {
    match rng.below(3) {
        0 => Choice::A(g_u32(rng)),
        1 => Choice::B(g_lists(rng)),
        _ => Choice::C(g_unit(rng)),
    }
}

fn g_sess(rng: &mut Rng) -> SessParams {
    SessParams { idle: opt(rng, g_u32), active: opt(rng, g_u32), threshold: opt(rng, g_u16) }
}

fn g_status(rng: &mut Rng) -> Status {
    Status {
        status: *rng.pick(&[
            IMStatusCode::Success,
            IMStatusCode::Failure,
            IMStatusCode::UnsupportedAccess,
            IMStatusCode::Busy,
            IMStatusCode::InvalidTransportType,
            IMStatusCode::UnsupportedCluster,
        ]),
        cluster_status: opt(rng, g_u16),
    }
}

fn g_attr_path(rng: &mut Rng) -> AttrPath {
    AttrPath {
        tag_compression: opt(rng, |r| r.bool()),
        node: opt(rng, g_u64),
        endpoint: opt(rng, g_u16),
        cluster: opt(rng, g_u32),
        attr: opt(rng, g_u32),
        list_index: opt(rng, g_nullable_u16),
    }
}

fn g_cmd_path(rng: &mut Rng) -> CmdPath {
    CmdPath { endpoint: opt(rng, g_u16), cluster: opt(rng, g_u32), cmd: opt(rng, g_u32) }
}

fn g_event_path(rng: &mut Rng) -> EventPath {
    EventPath {
        node: opt(rng, g_u64),
        endpoint: opt(rng, g_u16),
        cluster: opt(rng, g_u32),
        event: opt(rng, g_u32),
        is_urgent: opt(rng, |r| r.bool()),
    }
}

fn g_cluster_path(rng: &mut Rng) -> ClusterPath {
    ClusterPath { node: opt(rng, g_u64), endpoint: g_u16(rng), cluster: g_u32(rng) }
}

fn g_target(rng: &mut Rng) -> Target {
    Target { cluster: opt(rng, g_u32), endpoint: opt(rng, g_u16), device_type: opt(rng, g_u32) }
}

fn g_acl(rng: &mut Rng) -> AclEntry {
    let mut e = AclEntry::new(
        opt(rng, |r| NonZeroU8::new(1 + r.below(254) as u8).unwrap()),
        *rng.pick(&[Privilege::VIEW, Privilege::OPERATE, Privilege::MANAGE, Privilege::ADMIN]),
        *rng.pick(&[AuthMode::Case, AuthMode::Group, AuthMode::Pase]),
    );
    for _ in 0..rng.usize(4) {
        let _ = e.add_subject(g_u64(rng));
    }
    for _ in 0..rng.usize(4) {
        let _ = e.add_target(g_target(rng));
    }
    e
}

/// Some encoded TLV element (arbitrary tag) to be carried as `TLVElement<'a>` payload.
fn g_payload(rng: &mut Rng) -> Vec<u8> {
    match rng.below(6) {
        0 => vec![0x14],
        1 => vec![0x04, g_u8(rng)],
        2 => vec![0x15, 0x24, 0x00, 0x05, 0x30, 0x01, 0x02, 0xaa, 0xbb, 0x18],
        3 => vec![0x16, 0x04, 0x01, 0x04, 0x02, 0x18],
        4 => vec![0x0c, 0x03, b'a', b'b', b'c'],
        _ => {
            let mut v = vec![0x15, 0x36, 0x01];
            for _ in 0..rng.usize(4) {
                v.extend_from_slice(&[0x05, 0x34, 0x12]);
            }
            v.extend_from_slice(&[0x18, 0x29, 0x02, 0x18]);
            v
        }
    }
}

// ------------------------------------------------------------------ equality helpers

fn peq<T: PartialEq>(a: &T, b: &T) -> bool {
    a == b
}

/// Two `TLVElement`s denote the same value: same value type and same value bytes (the tag is
/// rewritten by the enclosing structure, and the decoded slice may extend past the element).
fn elem_eq(a: &TLVElement<'_>, b: &TLVElement<'_>) -> bool {
    match (a.control(), b.control(), a.raw_value(), b.raw_value()) {
        (Ok(ca), Ok(cb), Ok(va), Ok(vb)) => ca.value_type == cb.value_type && va == vb,
        _ => a.is_empty() && b.is_empty(),
    }
}

fn arr_eq<'a, 'b, T, U>(a: &TLVArray<'a, T>, b: &TLVArray<'b, U>, eq: impl Fn(&T, &U) -> bool) -> bool
where
    T: FromTLV<'a>,
    U: FromTLV<'b>,
{
    let mut ia = a.iter();
    let mut ib = b.iter();
    loop {
        match (ia.next(), ib.next()) {
            (None, None) => return true,
            (Some(Ok(x)), Some(Ok(y))) => {
                if !eq(&x, &y) {
                    return false;
                }
            }
            _ => return false,
        }
    }
}

fn eq_borrowed(a: &Borrowed<'_>, b: &Borrowed<'_>) -> bool {
    a.s == b.s && a.o == b.o && elem_eq(&a.e, &b.e) && arr_eq(&a.arr, &b.arr, |x, y| x == y) && a.oo == b.oo
}

fn eq_floats(a: &Floats, b: &Floats) -> bool {
    a.f.to_bits() == b.f.to_bits() && a.d.to_bits() == b.d.to_bits()
}

fn eq_attr_data(a: &AttrData<'_>, b: &AttrData<'_>) -> bool {
    a.data_ver == b.data_ver && a.path == b.path && elem_eq(&a.data, &b.data)
}

fn eq_attr_resp(a: &AttrResp<'_>, b: &AttrResp<'_>) -> bool {
    match (a, b) {
        (AttrResp::Status(x), AttrResp::Status(y)) => x == y,
        (AttrResp::Data(x), AttrResp::Data(y)) => eq_attr_data(x, y),
        _ => false,
    }
}

fn eq_cmd_data(a: &CmdData<'_>, b: &CmdData<'_>) -> bool {
    a.path == b.path && a.command_ref == b.command_ref && elem_eq(&a.data, &b.data)
}

fn eq_cmd_resp(a: &CmdResp<'_>, b: &CmdResp<'_>) -> bool {
    match (a, b) {
        (CmdResp::Status(x), CmdResp::Status(y)) => x == y,
        (CmdResp::Cmd(x), CmdResp::Cmd(y)) => eq_cmd_data(x, y),
        _ => false,
    }
}

fn opt_arr_eq<'a, 'b, T, U>(
    a: &Option<TLVArray<'a, T>>,
    b: &Option<TLVArray<'b, U>>,
    eq: impl Fn(&T, &U) -> bool,
) -> bool
where
    T: FromTLV<'a>,
    U: FromTLV<'b>,
{
    match (a, b) {
        (None, None) => true,
        (Some(x), Some(y)) => arr_eq(x, y, eq),
        _ => false,
    }
}

fn eq_invoke_resp(a: &InvokeResp<'_>, b: &InvokeResp<'_>) -> bool {
    a.suppress_response == b.suppress_response
        && a.more_chunks == b.more_chunks
        && a.interaction_model_revision == b.interaction_model_revision
        && opt_arr_eq(&a.invoke_responses, &b.invoke_responses, eq_cmd_resp)
}

fn eq_report(a: &ReportDataResp<'_>, b: &ReportDataResp<'_>) -> bool {
    a.subscription_id == b.subscription_id
        && a.more_chunks == b.more_chunks
        && a.suppress_response == b.suppress_response
        && a.interaction_model_revision == b.interaction_model_revision
        && opt_arr_eq(&a.attr_reports, &b.attr_reports, eq_attr_resp)
        && opt_arr_eq(&a.event_reports, &b.event_reports, |x, y| x == y)
}

fn eq_write_resp(a: &WriteResp<'_>, b: &WriteResp<'_>) -> bool {
    a.interaction_model_revision == b.interaction_model_revision
        && arr_eq(&a.write_responses, &b.write_responses, |x, y| x == y)
}

fn eq_sub_resp(a: &SubscribeResp, b: &SubscribeResp) -> bool {
    a.subs_id == b.subs_id
        && a._dummy == b._dummy
        && a.max_int == b.max_int
        && a.interaction_model_revision == b.interaction_model_revision
}

// ------------------------------------------------------------------ round trip

/// Shape class of a declared / wire type (signatures are class based, the type name goes into
/// the detail and the replay).
fn kind_of(name: &str) -> &'static str {
    match name {
        "ListS" | "AttrPath" | "ClusterPath" | "CmdPath" | "EventPath" => "list-datatype-struct",
        "Owned" | "Choice" | "Nz" | "DataVersionFilter" | "AttrStatus" | "CmdStatus" | "EventStatus" | "EventResp"
        | "WriteResp" => "contains-list-datatype-struct",
        "AttrData" | "AttrResp" | "CmdData" | "CmdResp" | "Borrowed" | "InvokeResp" | "ReportDataResp" => {
            "carries-TLVElement(+list-datatype-struct)"
        }
        "UnitE" | "UnitE16" | "EventPriority" => "unit-enum",
        "Naked" => "naked-enum",
        "Newtype" => "newtype",
        _ => "plain-struct",
    }
}

struct RtFail {
    check: &'static str,
    detail: String,
}

fn rtf(check: &'static str, detail: String) -> RtFail {
    RtFail { check, detail }
}

fn report_rt(rep: &mut Report, st: &mut Stats, name: &'static str, seed: u64, res: Result<Result<(), RtFail>, super::c16_probe::PanicInfo>) {
    rep.evaluations += 1;
    st.count("derived:cases");
    let replay = json!({"check":"C16","kind":"derived","type":name,"seed":seed});
    match res {
        Ok(Ok(())) => st.count("derived:roundtrip-ok"),
        Ok(Err(f)) => rep.violation(
            &format!("derived/{}", f.check),
            &format!("C16/derived/{}/{}", f.check, kind_of(name)),
            format!("{name}: {}. The statement requires every structure encoded through the derived encoders to decode back to an equal value and to re-encode to the same bytes.", f.detail),
            replay,
        ),
        Err(p) => rep.violation(
            "derived/panic",
            &format!("C16/derived/panic/{}/{}/{}", p.kind(), p.file(), kind_of(name)),
            format!("{name}: round trip of a valid value panicked: '{}' at {}", p.msg, p.loc),
            replay,
        ),
    }
}

macro_rules! rt_case {
    ($rep:expr, $st:expr, $only:expr, $seed:expr, $name:literal, $ty:ident, $val:expr, $eq:expr) => {
        if $only.map(|o: &str| o == $name).unwrap_or(true) {
            let res = guarded(|| -> Result<(), RtFail> {
                let v = $val;
                let enc = enc_to_tlv(&v, &TLVTag::Anonymous)
                    .map_err(|e| rtf("encode-error", format!("to_tlv of {:?} failed with {:?}", v, e.code())))?;
                let el = TLVElement::new(&enc);
                let dec = $ty::from_tlv(&el).map_err(|e| {
                    rtf("decode-error", format!("{:?} encoded as {} does not decode: {:?}", v, hex(&enc), e.code()))
                })?;
                if !($eq)(&v, &dec) {
                    return Err(rtf(
                        "value-mismatch",
                        format!("{:?} encoded as {} decodes as {:?}", v, hex(&enc), dec),
                    ));
                }
                // in-place initialiser path
                {
                    let mut slot = MaybeUninit::<$ty>::uninit();
                    let dec2 = slot.try_init_with($ty::init_from_tlv(el.clone())).map_err(|e: Error| {
                        rtf("init-decode-error", format!("{:?} encoded as {}: init_from_tlv fails: {:?}", v, hex(&enc), e.code()))
                    })?;
                    if !($eq)(&v, &*dec2) {
                        return Err(rtf(
                            "init-value-mismatch",
                            format!("{:?} encoded as {} decodes (init_from_tlv) as {:?}", v, hex(&enc), dec2),
                        ));
                    }
                }
                // re-encode the decoded value
                let enc2 = enc_to_tlv(&dec, &TLVTag::Anonymous)
                    .map_err(|e| rtf("reencode-error", format!("decoded {:?} does not re-encode: {:?}", dec, e.code())))?;
                if enc2 != enc {
                    return Err(rtf(
                        "reencode-mismatch",
                        format!("{:?}: encoded {} but the decoded value re-encodes as {}", v, hex(&enc), hex(&enc2)),
                    ));
                }
                // the iterator encoder
                let enc3 = enc_tlv_iter(&v, TLVTag::Anonymous)
                    .map_err(|e| rtf("tlv_iter-encode-error", format!("tlv_iter of {:?} failed with {:?}", v, e.code())))?;
                let dec3 = $ty::from_tlv(&TLVElement::new(&enc3)).map_err(|e| {
                    rtf(
                        "tlv_iter-decode-error",
                        format!("{:?} encoded through tlv_iter() as {} (to_tlv gives {}) does not decode: {:?}", v, hex(&enc3), hex(&enc), e.code()),
                    )
                })?;
                if !($eq)(&v, &dec3) {
                    return Err(rtf(
                        "tlv_iter-value-mismatch",
                        format!("{:?} encoded through tlv_iter() as {} decodes as {:?}", v, hex(&enc3), dec3),
                    ));
                }
                // with a context tag, nested inside a structure (a "naked" enum writes its own
                // variant tag instead of the given one, so it cannot be looked up by tag 3)
                if $name == "Naked" {
                    return Ok(());
                }
                let tagged = enc_to_tlv(&v, &TLVTag::Context(3))
                    .map_err(|e| rtf("encode-error", format!("to_tlv(ctx 3) failed with {:?}", e.code())))?;
                let mut wrapped = vec![0x15u8];
                wrapped.extend_from_slice(&tagged);
                wrapped.extend_from_slice(&[0x24, 0x09, 0x01, 0x18]);
                let outer = TLVElement::new(&wrapped);
                let inner = outer
                    .structure()
                    .and_then(|s| s.ctx(3))
                    .map_err(|e| rtf("nested-find-error", format!("{}: ctx(3) not found: {:?}", hex(&wrapped), e.code())))?;
                let dec4 = $ty::from_tlv(&inner).map_err(|e| {
                    rtf("nested-decode-error", format!("{:?} inside {} does not decode: {:?}", v, hex(&wrapped), e.code()))
                })?;
                if !($eq)(&v, &dec4) {
                    return Err(rtf("nested-value-mismatch", format!("{:?} inside {} decodes as {:?}", v, hex(&wrapped), dec4)));
                }
                Ok(())
            });
            report_rt($rep, $st, $name, $seed, res);
        }
    };
}

fn mk_array<T: ToTLV>(items: &[T]) -> Vec<u8> {
    enc_to_tlv(&items, &TLVTag::Anonymous).unwrap_or_else(|_| vec![0x16, 0x18])
}

pub fn rt_derived_case(rep: &mut Report, st: &mut Stats, seed: u64, only: Option<&str>) {
    let mut rng = Rng::new(seed);
    let rng = &mut rng;
    // which subset this case exercises (keeps a case cheap; replay selects by name)
    let pick = rng.below(4);
    let sel = |group: u64| only.is_some() || pick == group;

    // backing storage for the borrowed types
    let s = g_str(rng, 40);
    let o = {
        let n = *rng.pick(&[0usize, 1, 32, 65, 255, 256, 300]);
        rng.bytes(n)
    };
    let pay = g_payload(rng);
    let arr16: Vec<u16> = (0..rng.usize(5)).map(|_| g_u16(rng)).collect();
    let arr16_enc = mk_array(&arr16);
    let small = {
        let n = rng.usize(40);
        rng.bytes(n)
    };

    if sel(0) {
        rt_case!(rep, st, only, seed, "Prim", Prim, g_prim(rng), peq);
        rt_case!(rep, st, only, seed, "Opt", Opt, g_opt(rng), peq);
        rt_case!(rep, st, only, seed, "ListS", ListS, g_lists(rng), peq);
        rt_case!(
            rep,
            st,
            only,
            seed,
            "Borrowed",
            Borrowed,
            Borrowed {
                s: &s,
                o: OctetStr::new(&o),
                e: TLVElement::new(&pay),
                arr: TLVArray::new(TLVElement::new(&arr16_enc)).unwrap(),
                oo: if small.len() % 2 == 0 { Some(OctetStr::new(&small)) } else { None },
            },
            eq_borrowed
        );
        rt_case!(rep, st, only, seed, "Owned", Owned, g_owned(rng), peq);
        rt_case!(rep, st, only, seed, "UnitE", UnitE, g_unit(rng), peq);
        rt_case!(rep, st, only, seed, "UnitE16", UnitE16, *rng.pick(&[UnitE16::X, UnitE16::Y, UnitE16::Z]), peq);
    }
    if sel(1) {
        rt_case!(rep, st, only, seed, "Choice", Choice, g_choice(rng), peq);
        rt_case!(rep, st, only, seed, "Naked", Naked, if rng.bool() { Naked::A(g_u8(rng)) } else { Naked::B(g_u16(rng)) }, peq);
        rt_case!(rep, st, only, seed, "Newtype", Newtype, Newtype(g_u32(rng)), peq);
        rt_case!(
            rep,
            st,
            only,
            seed,
            "Ordered",
            Ordered,
            Ordered { a: g_u8(rng), b: g_u16(rng), c: opt(rng, g_u8), z: opt(rng, g_u8) },
            peq
        );
        rt_case!(
            rep,
            st,
            only,
            seed,
            "Floats",
            Floats,
            Floats {
                f: f32::from_bits(*rng.pick(&[0u32, 0x8000_0000, 0x7fc0_0000, 0x7f80_0001, 0xff80_0000, 0x3f80_0000, 1])),
                d: f64::from_bits(*rng.pick(&[0u64, 1 << 63, 0x7ff8_0000_0000_0000, 0x7ff0_0000_0000_0001, 0x3ff0_0000_0000_0000, u64::MAX])),
            },
            eq_floats
        );
        rt_case!(
            rep,
            st,
            only,
            seed,
            "Sigma1ish",
            Sigma1ish,
            Sigma1ish {
                initiator_random: OctetStr::new(&o),
                initiator_sessid: g_u16(rng),
                dest_id: OctetStr::new(&small),
                pubkey: OctetStr::new(&o[..o.len().min(65)]),
                params: opt(rng, g_sess),
                resumption_id: if rng.bool() { Some(OctetStr::new(&small[..small.len().min(16)])) } else { None },
                initiator_resume_mic: if rng.bool() { Some(OctetStr::new(&o[..o.len().min(16)])) } else { None },
            },
            peq
        );
        rt_case!(
            rep,
            st,
            only,
            seed,
            "Skip",
            Skip,
            Skip {
                a: g_u16(rng),
                t: {
                    let mut v = SVec::<u16, 4>::new();
                    for _ in 0..rng.usize(5) {
                        let _ = v.push(g_u16(rng));
                    }
                    Skippable::new(v)
                }
            },
            peq
        );
        rt_case!(
            rep,
            st,
            only,
            seed,
            "VecOnly",
            VecOnly,
            VecOnly {
                v: {
                    let mut v = SVec::<u16, 4>::new();
                    for _ in 0..rng.usize(5) {
                        let _ = v.push(g_u16(rng));
                    }
                    v
                }
            },
            peq
        );
        rt_case!(
            rep,
            st,
            only,
            seed,
            "Nz",
            Nz,
            Nz {
                n: NonZeroU8::new(1 + rng.below(255) as u8).unwrap(),
                m: opt(rng, |r| NonZeroU64::new(g_u64(r).max(1)).unwrap()),
                e: g_unit(rng),
                e16: if rng.chance(1, 3) { Nullable::none() } else { Nullable::some(*rng.pick(&[UnitE16::X, UnitE16::Y, UnitE16::Z])) },
                ch: g_choice(rng),
                nk: opt(rng, |r| if r.chance(1, 3) { Nullable::none() } else { Nullable::some(g_u64(r).min(u64::MAX - 1)) }),
            },
            peq
        );
    }
    if sel(2) {
        rt_case!(rep, st, only, seed, "AttrPath", AttrPath, g_attr_path(rng), peq);
        rt_case!(rep, st, only, seed, "ClusterPath", ClusterPath, g_cluster_path(rng), peq);
        rt_case!(
            rep,
            st,
            only,
            seed,
            "DataVersionFilter",
            DataVersionFilter,
            DataVersionFilter { path: g_cluster_path(rng), data_ver: g_u32(rng) },
            peq
        );
        rt_case!(rep, st, only, seed, "AttrStatus", AttrStatus, AttrStatus { path: g_attr_path(rng), status: g_status(rng) }, peq);
        rt_case!(
            rep,
            st,
            only,
            seed,
            "AttrData",
            AttrData,
            AttrData::new(opt(rng, g_u32), g_attr_path(rng), TLVElement::new(&pay)),
            eq_attr_data
        );
        rt_case!(
            rep,
            st,
            only,
            seed,
            "AttrResp",
            AttrResp,
            if rng.bool() {
                AttrResp::Status(AttrStatus { path: g_attr_path(rng), status: g_status(rng) })
            } else {
                AttrResp::Data(AttrData::new(opt(rng, g_u32), g_attr_path(rng), TLVElement::new(&pay)))
            },
            eq_attr_resp
        );
        rt_case!(rep, st, only, seed, "CmdPath", CmdPath, g_cmd_path(rng), peq);
        rt_case!(
            rep,
            st,
            only,
            seed,
            "CmdStatus",
            CmdStatus,
            CmdStatus { path: g_cmd_path(rng), status: g_status(rng), command_ref: opt(rng, g_u16) },
            peq
        );
        rt_case!(
            rep,
            st,
            only,
            seed,
            "CmdData",
            CmdData,
            CmdData::new(g_cmd_path(rng), TLVElement::new(&pay), opt(rng, g_u16)),
            eq_cmd_data
        );
        rt_case!(
            rep,
            st,
            only,
            seed,
            "CmdResp",
            CmdResp,
            if rng.bool() {
                CmdResp::Cmd(CmdData::new(g_cmd_path(rng), TLVElement::new(&pay), opt(rng, g_u16)))
            } else {
                CmdResp::Status(CmdStatus { path: g_cmd_path(rng), status: g_status(rng), command_ref: opt(rng, g_u16) })
            },
            eq_cmd_resp
        );
    }
    if sel(3) {
        rt_case!(rep, st, only, seed, "EventFilter", EventFilter, EventFilter { node: opt(rng, g_u64), event_min: opt(rng, g_u64) }, peq);
        rt_case!(rep, st, only, seed, "EventPath", EventPath, g_event_path(rng), peq);
        rt_case!(rep, st, only, seed, "EventStatus", EventStatus, EventStatus { path: g_event_path(rng), status: g_status(rng) }, peq);
        rt_case!(
            rep,
            st,
            only,
            seed,
            "EventResp",
            EventResp,
            EventResp::Status(EventStatus { path: g_event_path(rng), status: g_status(rng) }),
            peq
        );
        rt_case!(
            rep,
            st,
            only,
            seed,
            "EventPriority",
            EventPriority,
            *rng.pick(&[EventPriority::Debug, EventPriority::Info, EventPriority::Critical]),
            peq
        );
        rt_case!(rep, st, only, seed, "Status", Status, g_status(rng), peq);
        rt_case!(
            rep,
            st,
            only,
            seed,
            "StatusResp",
            StatusResp,
            StatusResp { status: g_status(rng).status, interaction_model_revision: opt(rng, g_u8) },
            peq
        );
        rt_case!(rep, st, only, seed, "TimedReq", TimedReq, TimedReq { timeout: g_u16(rng), interaction_model_revision: opt(rng, g_u8) }, peq);
        rt_case!(
            rep,
            st,
            only,
            seed,
            "SubscribeResp",
            SubscribeResp,
            SubscribeResp { subs_id: g_u32(rng), _dummy: None, max_int: g_u16(rng), interaction_model_revision: opt(rng, g_u8) },
            eq_sub_resp
        );
        rt_case!(rep, st, only, seed, "Target", Target, g_target(rng), peq);
        rt_case!(rep, st, only, seed, "AclEntry", AclEntry, g_acl(rng), peq);

        let statuses: Vec<AttrStatus> =
            (0..rng.usize(4)).map(|_| AttrStatus { path: g_attr_path(rng), status: g_status(rng) }).collect();
        let statuses_enc = mk_array(&statuses);
        rt_case!(
            rep,
            st,
            only,
            seed,
            "WriteResp",
            WriteResp,
            WriteResp {
                write_responses: TLVArray::new(TLVElement::new(&statuses_enc)).unwrap(),
                interaction_model_revision: opt(rng, g_u8),
            },
            eq_write_resp
        );
        let cmds: Vec<CmdResp> = (0..rng.usize(4))
            .map(|_| {
                if rng.bool() {
                    CmdResp::Cmd(CmdData::new(g_cmd_path(rng), TLVElement::new(&pay), opt(rng, g_u16)))
                } else {
                    CmdResp::Status(CmdStatus { path: g_cmd_path(rng), status: g_status(rng), command_ref: opt(rng, g_u16) })
                }
            })
            .collect();
        let cmds_enc = mk_array(&cmds);
        rt_case!(
            rep,
            st,
            only,
            seed,
            "InvokeResp",
            InvokeResp,
            InvokeResp {
                suppress_response: opt(rng, |r| r.bool()),
                invoke_responses: if rng.chance(3, 4) { Some(TLVArray::new(TLVElement::new(&cmds_enc)).unwrap()) } else { None },
                more_chunks: opt(rng, |r| r.bool()),
                interaction_model_revision: opt(rng, g_u8),
            },
            eq_invoke_resp
        );
        let reports: Vec<AttrResp> = (0..rng.usize(4))
            .map(|_| {
                if rng.bool() {
                    AttrResp::Status(AttrStatus { path: g_attr_path(rng), status: g_status(rng) })
                } else {
                    AttrResp::Data(AttrData::new(opt(rng, g_u32), g_attr_path(rng), TLVElement::new(&pay)))
                }
            })
            .collect();
        let reports_enc = mk_array(&reports);
        let evs: Vec<EventResp> =
            (0..rng.usize(3)).map(|_| EventResp::Status(EventStatus { path: g_event_path(rng), status: g_status(rng) })).collect();
        let evs_enc = mk_array(&evs);
        rt_case!(
            rep,
            st,
            only,
            seed,
            "ReportDataResp",
            ReportDataResp,
            ReportDataResp {
                subscription_id: opt(rng, g_u32),
                attr_reports: if rng.chance(3, 4) { Some(TLVArray::new(TLVElement::new(&reports_enc)).unwrap()) } else { None },
                event_reports: if rng.chance(1, 2) { Some(TLVArray::new(TLVElement::new(&evs_enc)).unwrap()) } else { None },
                more_chunks: opt(rng, |r| r.bool()),
                suppress_response: opt(rng, |r| r.bool()),
                interaction_model_revision: opt(rng, g_u8),
            },
            eq_report
        );
    }
}

/// A valid encoding of one of the wire / declared types (seed corpus for the malformed part).
pub fn random_derived_encoding(rng: &mut Rng) -> Vec<u8> {
    let a = TLVTag::Anonymous;
    let pay = g_payload(rng);
    let r = match rng.below(16) {
        0 => enc_to_tlv(&g_prim(rng), &a),
        1 => enc_to_tlv(&g_opt(rng), &a),
        2 => enc_to_tlv(&g_lists(rng), &a),
        3 => enc_to_tlv(&g_owned(rng), &a),
        4 => enc_to_tlv(&g_choice(rng), &a),
        5 => enc_to_tlv(&g_attr_path(rng), &a),
        6 => enc_to_tlv(&AttrStatus { path: g_attr_path(rng), status: g_status(rng) }, &a),
        7 => enc_to_tlv(&AttrData::new(opt(rng, g_u32), g_attr_path(rng), TLVElement::new(&pay)), &a),
        8 => enc_to_tlv(&CmdData::new(g_cmd_path(rng), TLVElement::new(&pay), opt(rng, g_u16)), &a),
        9 => enc_to_tlv(&g_acl(rng), &a),
        10 => {
            // ReadRequestMessage-shaped
            let paths: Vec<AttrPath> = (0..1 + rng.usize(3)).map(|_| g_attr_path(rng)).collect();
            let filters: Vec<DataVersionFilter> =
                (0..rng.usize(2)).map(|_| DataVersionFilter { path: g_cluster_path(rng), data_ver: g_u32(rng) }).collect();
            let mut v = vec![0x15u8];
            v.extend(enc_to_tlv(&paths.as_slice(), &TLVTag::Context(0)).unwrap_or_default());
            v.extend_from_slice(&[0x28 | rng.below(2) as u8, 0x03]);
            v.extend(enc_to_tlv(&filters.as_slice(), &TLVTag::Context(4)).unwrap_or_default());
            v.extend_from_slice(&[0x24, 0xff, 13, 0x18]);
            Ok(v)
        }
        11 => {
            // WriteRequestMessage-shaped
            let datas: Vec<AttrData> =
                (0..1 + rng.usize(2)).map(|_| AttrData::new(opt(rng, g_u32), g_attr_path(rng), TLVElement::new(&pay))).collect();
            let mut v = vec![0x15u8, 0x28, 0x00, 0x28, 0x01];
            v.extend(enc_to_tlv(&datas.as_slice(), &TLVTag::Context(2)).unwrap_or_default());
            v.extend_from_slice(&[0x24, 0xff, 13, 0x18]);
            Ok(v)
        }
        12 => {
            // InvokeRequestMessage-shaped
            let datas: Vec<CmdData> =
                (0..1 + rng.usize(2)).map(|_| CmdData::new(g_cmd_path(rng), TLVElement::new(&pay), opt(rng, g_u16))).collect();
            let mut v = vec![0x15u8, 0x28, 0x00, 0x28, 0x01];
            v.extend(enc_to_tlv(&datas.as_slice(), &TLVTag::Context(2)).unwrap_or_default());
            v.extend_from_slice(&[0x18]);
            Ok(v)
        }
        13 => {
            // SubscribeRequestMessage-shaped
            let paths: Vec<AttrPath> = (0..1 + rng.usize(2)).map(|_| g_attr_path(rng)).collect();
            let evp: Vec<EventPath> = (0..rng.usize(2)).map(|_| g_event_path(rng)).collect();
            let mut v = vec![0x15u8, 0x29, 0x00, 0x25, 0x01, 0x05, 0x00, 0x25, 0x02, 0x2c, 0x01];
            v.extend(enc_to_tlv(&paths.as_slice(), &TLVTag::Context(3)).unwrap_or_default());
            v.extend(enc_to_tlv(&evp.as_slice(), &TLVTag::Context(4)).unwrap_or_default());
            v.extend_from_slice(&[0x28, 0x07, 0x18]);
            Ok(v)
        }
        14 => enc_to_tlv(&CmdStatus { path: g_cmd_path(rng), status: g_status(rng), command_ref: opt(rng, g_u16) }, &a),
        _ => enc_to_tlv(&g_event_path(rng), &a),
    };
    r.unwrap_or_else(|_| vec![0x15, 0x18])
}

// ------------------------------------------------------------------ FromTLV decoders under fuzz

fn bounded_tlv_iter<T: ToTLV>(v: &T, inp: &[u8]) -> Option<Out> {
    let bound = 4 * iter_bound(inp) + 256;
    let mut n = 0usize;
    for item in v.tlv_iter(TLVTag::Anonymous) {
        n += 1;
        if n > bound {
            return Some(Out::Bad(
                "non-termination",
                format!("tlv_iter of a decoded value yielded more than {bound} items for a {}-byte input", inp.len()),
            ));
        }
        if item.is_err() {
            break;
        }
    }
    None
}

fn after_decode<T: ToTLV + Debug>(v: &T, inp: &[u8]) -> Out {
    set_stage("debug-of-decoded-value");
    if let Err(bad) = fmt_checked(inp, "Debug of a decoded value", format_args!("{:?}", v)) {
        return bad;
    }
    set_stage("to_tlv-of-decoded-value");
    let mut buf = vec![0u8; 2 * inp.len() + 256];
    let mut wb = WriteBuf::new(&mut buf);
    let _ = v.to_tlv(&TLVTag::Anonymous, &mut wb);
    set_stage("tlv_iter-of-decoded-value");
    if let Some(bad) = bounded_tlv_iter(v, inp) {
        return bad;
    }
    Out::Ok
}

macro_rules! ft {
    ($name:literal, $ty:ident) => {
        Acc {
            name: $name,
            group: "fromtlv",
            f: {
                fn f(inp: &[u8]) -> Out {
                    let el = TLVElement::new(inp);
                    set_stage("from_tlv");
                    let a = match $ty::from_tlv(&el) {
                        Ok(v) => after_decode(&v, inp),
                        Err(_) => Out::Err,
                    };
                    if let Out::Bad(..) = a {
                        return a;
                    }
                    set_stage("init_from_tlv");
                    let mut slot = MaybeUninit::<$ty>::uninit();
                    let b = match slot.try_init_with($ty::init_from_tlv(el)) {
                        Ok(v) => {
                            set_stage("debug-of-decoded-value(init)");
                            match fmt_checked(inp, "Debug of a decoded value", format_args!("{:?}", v)) {
                                Err(bad) => bad,
                                Ok(_) => Out::Ok,
                            }
                        }
                        Err::<_, Error>(_) => Out::Err,
                    };
                    match (a, b) {
                        (_, Out::Bad(x, y)) => Out::Bad(x, y),
                        (Out::Ok, _) | (_, Out::Ok) => Out::Ok,
                        _ => Out::Err,
                    }
                }
                f
            },
        }
    };
}

fn walk_opt_arr<'a, T: FromTLV<'a> + Debug>(
    inp: &[u8],
    what: &'static str,
    r: Result<Option<TLVArray<'a, T>>, Error>,
    any_ok: &mut bool,
) -> Option<Out> {
    match r {
        Ok(Some(arr)) => {
            *any_ok = true;
            walk_arr(inp, what, &arr)
        }
        Ok(None) => {
            *any_ok = true;
            None
        }
        Err(_) => None,
    }
}

fn walk_arr<'a, T: FromTLV<'a> + Debug>(inp: &[u8], what: &'static str, arr: &TLVArray<'a, T>) -> Option<Out> {
    set_stage(what);
    let bound = iter_bound(inp);
    let mut n = 0usize;
    for item in arr.iter() {
        n += 1;
        if n > bound {
            return Some(Out::Bad("non-termination", format!("{what}: array iteration yielded more than {bound} items")));
        }
        match item {
            Ok(v) => {
                if let Err(bad) = fmt_checked(inp, "Debug of an array item", format_args!("{:?}", v)) {
                    return Some(bad);
                }
            }
            Err(_) => break,
        }
    }
    None
}

fn o(any_ok: bool) -> Out {
    if any_ok {
        Out::Ok
    } else {
        Out::Err
    }
}

fn ft_read_req(inp: &[u8]) -> Out {
    let el = TLVElement::new(inp);
    set_stage("from_tlv");
    let Ok(req) = ReadReq::from_tlv(&el) else { return Out::Err };
    let mut ok = false;
    if let Some(b) = walk_opt_arr(inp, "ReadReq::attr_requests().iter()", req.attr_requests(), &mut ok) {
        return b;
    }
    if let Some(b) = walk_opt_arr(inp, "ReadReq::event_requests().iter()", req.event_requests(), &mut ok) {
        return b;
    }
    if let Some(b) = walk_opt_arr(inp, "ReadReq::event_filters().iter()", req.event_filters(), &mut ok) {
        return b;
    }
    if let Some(b) = walk_opt_arr(inp, "ReadReq::dataver_filters().iter()", req.dataver_filters(), &mut ok) {
        return b;
    }
    set_stage("ReadReq::fabric_filtered");
    ok |= req.fabric_filtered().is_ok();
    set_stage("Debug for ReadReq");
    if let Err(bad) = fmt_checked(inp, "Debug for ReadReq", format_args!("{:?}", req)) {
        return bad;
    }
    o(ok)
}

fn ft_write_req(inp: &[u8]) -> Out {
    let el = TLVElement::new(inp);
    set_stage("from_tlv");
    let Ok(req) = WriteReq::from_tlv(&el) else { return Out::Err };
    let mut ok = false;
    set_stage("WriteReq flags");
    ok |= req.supress_response().is_ok();
    ok |= req.timed_request().is_ok();
    ok |= req.more_chunks().is_ok();
    set_stage("WriteReq::write_requests");
    if let Ok(arr) = req.write_requests() {
        ok = true;
        if let Some(b) = walk_arr(inp, "WriteReq::write_requests().iter()", &arr) {
            return b;
        }
    }
    set_stage("Debug for WriteReq");
    if let Err(bad) = fmt_checked(inp, "Debug for WriteReq", format_args!("{:?}", req)) {
        return bad;
    }
    o(ok)
}

fn ft_inv_req(inp: &[u8]) -> Out {
    let el = TLVElement::new(inp);
    set_stage("from_tlv");
    let Ok(req) = InvReq::from_tlv(&el) else { return Out::Err };
    let mut ok = false;
    set_stage("InvReq flags");
    ok |= req.suppress_response().is_ok();
    ok |= req.timed_request().is_ok();
    if let Some(b) = walk_opt_arr(inp, "InvReq::inv_requests().iter()", req.inv_requests(), &mut ok) {
        return b;
    }
    set_stage("Debug for InvReq");
    if let Err(bad) = fmt_checked(inp, "Debug for InvReq", format_args!("{:?}", req)) {
        return bad;
    }
    o(ok)
}

fn ft_sub_req(inp: &[u8]) -> Out {
    let el = TLVElement::new(inp);
    set_stage("from_tlv");
    let Ok(req) = SubscribeReq::from_tlv(&el) else { return Out::Err };
    let mut ok = false;
    set_stage("SubscribeReq scalars");
    ok |= req.keep_subs().is_ok();
    ok |= req.min_int_floor().is_ok();
    ok |= req.max_int_ceil().is_ok();
    ok |= req.fabric_filtered().is_ok();
    if let Some(b) = walk_opt_arr(inp, "SubscribeReq::attr_requests().iter()", req.attr_requests(), &mut ok) {
        return b;
    }
    if let Some(b) = walk_opt_arr(inp, "SubscribeReq::event_requests().iter()", req.event_requests(), &mut ok) {
        return b;
    }
    if let Some(b) = walk_opt_arr(inp, "SubscribeReq::event_filters().iter()", req.event_filters(), &mut ok) {
        return b;
    }
    if let Some(b) = walk_opt_arr(inp, "SubscribeReq::dataver_filters().iter()", req.dataver_filters(), &mut ok) {
        return b;
    }
    set_stage("Debug for SubscribeReq");
    if let Err(bad) = fmt_checked(inp, "Debug for SubscribeReq", format_args!("{:?}", req)) {
        return bad;
    }
    o(ok)
}

macro_rules! ft_iter_fields {
    ($name:literal, $ty:ident, |$v:ident, $inp:ident| $body:expr) => {
        Acc {
            name: $name,
            group: "fromtlv-lazy-array",
            f: {
                fn f($inp: &[u8]) -> Out {
                    let el = TLVElement::new($inp);
                    set_stage("from_tlv");
                    match $ty::from_tlv(&el) {
                        Ok($v) => {
                            if let Some(b) = $body {
                                return b;
                            }
                            Out::Ok
                        }
                        Err(_) => Out::Err,
                    }
                }
                f
            },
        }
    };
}

pub static FT_ACCS: &[Acc] = &[
    ft!("Prim", Prim),
    ft!("Opt", Opt),
    ft!("ListS", ListS),
    ft!("Owned", Owned),
    ft!("UnitE", UnitE),
    ft!("UnitE16", UnitE16),
    ft!("Choice", Choice),
    ft!("Naked", Naked),
    ft!("Newtype", Newtype),
    ft!("Ordered", Ordered),
    ft!("Floats", Floats),
    ft!("Sigma1ish", Sigma1ish),
    ft!("Skip", Skip),
    ft!("Nz", Nz),
    ft!("VecOnly", VecOnly),
    ft!("AttrPath", AttrPath),
    ft!("ClusterPath", ClusterPath),
    ft!("DataVersionFilter", DataVersionFilter),
    ft!("AttrStatus", AttrStatus),
    ft!("AttrData", AttrData),
    ft!("AttrResp", AttrResp),
    ft!("CmdPath", CmdPath),
    ft!("CmdStatus", CmdStatus),
    ft!("CmdData", CmdData),
    ft!("CmdResp", CmdResp),
    ft!("EventFilter", EventFilter),
    ft!("EventPath", EventPath),
    ft!("EventStatus", EventStatus),
    ft!("EventResp", EventResp),
    ft!("EventPriority", EventPriority),
    ft!("Status", Status),
    ft!("StatusResp", StatusResp),
    ft!("TimedReq", TimedReq),
    ft!("SubscribeResp", SubscribeResp),
    ft!("Target", Target),
    ft!("AclEntry", AclEntry),
    ft!("IMStatusCode", IMStatusCode),
    ft!("Privilege", Privilege),
    ft!("AuthMode", AuthMode),
    // Types with lazily decoded `TLVArray` fields: decode, then look at the fields the way a
    // consumer does (iterate / Debug / re-encode).
    ft_iter_fields!("Borrowed", Borrowed, |v, inp| {
        let a = walk_arr(inp, "Borrowed.arr.iter()", &v.arr);
        match a {
            Some(b) => Some(b),
            None => match after_decode(&v, inp) {
                Out::Bad(x, y) => Some(Out::Bad(x, y)),
                _ => None,
            },
        }
    }),
    ft_iter_fields!("WriteResp", WriteResp, |v, inp| {
        let a = walk_arr(inp, "WriteResp.write_responses.iter()", &v.write_responses);
        match a {
            Some(b) => Some(b),
            None => match after_decode(&v, inp) {
                Out::Bad(x, y) => Some(Out::Bad(x, y)),
                _ => None,
            },
        }
    }),
    ft_iter_fields!("InvokeResp", InvokeResp, |v, inp| {
        let mut ok = false;
        let a = walk_opt_arr(inp, "InvokeResp.invoke_responses.iter()", Ok(v.invoke_responses.clone()), &mut ok);
        match a {
            Some(b) => Some(b),
            None => match after_decode(&v, inp) {
                Out::Bad(x, y) => Some(Out::Bad(x, y)),
                _ => None,
            },
        }
    }),
    ft_iter_fields!("ReportDataResp", ReportDataResp, |v, inp| {
        let mut ok = false;
        let a = walk_opt_arr(inp, "ReportDataResp.attr_reports.iter()", Ok(v.attr_reports.clone()), &mut ok)
            .or_else(|| walk_opt_arr(inp, "ReportDataResp.event_reports.iter()", Ok(v.event_reports.clone()), &mut ok));
        match a {
            Some(b) => Some(b),
            None => match after_decode(&v, inp) {
                Out::Bad(x, y) => Some(Out::Bad(x, y)),
                _ => None,
            },
        }
    }),
    Acc { name: "ReadReq", group: "fromtlv-lazy-array", f: ft_read_req },
    Acc { name: "WriteReq", group: "fromtlv-lazy-array", f: ft_write_req },
    Acc { name: "InvReq", group: "fromtlv-lazy-array", f: ft_inv_req },
    Acc { name: "SubscribeReq", group: "fromtlv-lazy-array", f: ft_sub_req },
];
