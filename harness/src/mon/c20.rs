//! C20 — unfinished or hostile handshakes cannot leak or exhaust node resources for good.
//!
//! Statement (bounded restatement: "for good" = still there after every time-out the code
//! defines has fired): after any sequence of completed, abandoned, malformed or refused
//! session-establishment attempts and dropped exchanges, once traffic stops every session slot
//! and exchange slot that does not belong to an established session in use is free again
//! (reclaimable on demand counts as free), single-occupancy rendezvous slots are released when
//! their waiter is cancelled or times out, and sessions that carry a live exchange are never
//! evicted. When the tables are full the node answers busy or evicts an idle session, and as
//! soon as at least one session is idle a new legitimate handshake succeeds.
//!
//! Families (see the `c20_*` modules):
//!  * `hostile`    – 1..40 attempts (PASE / CASE) from 1..3 real initiator nodes and spoofed
//!                   addresses against one responder whose handlers are cancelled at arbitrary
//!                   await points; quiescence oracle + probe handshakes;
//!  * `table-full` – the table pre-filled with established sessions of which some carry a live
//!                   harness-owned exchange; eviction oracle, busy answers, probe handshakes;
//!  * `exch-flood` – more session-opening messages on one unsecured session than it has
//!                   exchange slots;
//!  * `rendezvous` – callers of the mDNS resolve / browse rendezvous cancelled or timed out at
//!                   every await;
//!  * `rounds`     – 20 commissioning rounds (completed or abandoned) against a full device.

use serde_json::json;

use rs_matter::transport::session::{SessionMode, MAX_EXCHANGES, MAX_SESSIONS};

use crate::report::{Ctx, Report};
use crate::sim::exec::RunStatus;
use crate::sim::rng::{subseed, Fnv, Rng};

use super::c20_rdv;
use super::c20_rounds;
use super::c20_world::{
    self as world, Attempt, CancelPlan, Family, Outcome, Params, PinKind, Proto, Shape, GARBAGE_KINDS,
};

#[derive(Clone, Debug)]
pub enum Case {
    World(Params),
    Rendezvous(c20_rdv::Params),
    Rounds(c20_rounds::Params),
}

fn gen_attempt(rng: &mut Rng, n_init: u8, allow_flood: bool) -> Attempt {
    let proto = if rng.bool() { Proto::Pase } else { Proto::Case };
    let kmax = if proto == Proto::Pase { 3 } else { 2 };
    let shape = match rng.below(100) {
        0..=17 => Shape::Complete,
        18..=22 => Shape::WrongPass,
        23..=52 => Shape::Stop {
            k: 1 + rng.below(kmax) as u8,
            acks: rng.chance(1, 3),
        },
        53..=72 => Shape::Garbage {
            k: 1 + rng.below(kmax) as u8,
            kind: *rng.pick(GARBAGE_KINDS),
            every_copy: rng.bool(),
        },
        73..=80 => Shape::InitCancel {
            n: rng.below(40) as u16,
        },
        81..=90 => Shape::Spoof {
            burst: match rng.below(4) {
                0 => 1,
                1 => 2,
                2 => 1 + rng.below(MAX_SESSIONS as u64 + 2) as u8,
                _ => 1 + rng.below(5) as u8,
            },
            same_src: allow_flood && rng.chance(1, 5),
            huge_mrp: false,
        },
        91..=96 => Shape::Junk {
            kind: rng.below(8) as u8,
        },
        _ => Shape::ExchJunk,
    };
    let proto = if shape == Shape::WrongPass { Proto::Pase } else { proto };
    Attempt {
        node: rng.below(n_init as u64) as u8,
        proto,
        shape,
        gap_ms: *rng.pick(&[0u32, 0, 0, 1, 5, 40, 400, 3000]),
        par: rng.chance(1, 4),
    }
}

pub fn gen_world(rng: &mut Rng, family: Family) -> Params {
    let seed = rng.u64();
    match family {
        Family::Hostile => {
            let n_init = 1 + rng.below(3) as u8;
            let n = match rng.below(10) {
                0 => 1,
                1 => 2,
                2 | 3 => 3 + rng.below(4),
                4 | 5 | 6 => 7 + rng.below(10),
                7 | 8 => 17 + rng.below(12),
                _ => 29 + rng.below(12),
            } as usize;
            let cancel = match rng.below(10) {
                0..=3 => CancelPlan::Never,
                4..=6 => CancelPlan::Fixed(rng.below(48) as u32),
                _ => CancelPlan::Random {
                    pct: *rng.pick(&[25u8, 50, 80]),
                    max: 64,
                },
            };
            // With handler cancellation in play a dropped exchange may legitimately close its
            // session: exchange floods are then only generated, not judged.
            let mut attempts: Vec<Attempt> = (0..n).map(|_| gen_attempt(rng, n_init, true)).collect();
            let mut cancel = cancel;
            if rng.chance(1, 25) {
                // a PBKDFParamRequest advertising MRP intervals far beyond the hour the
                // specification allows (judged under its own signature)
                attempts.truncate(rng.usize(3));
                cancel = CancelPlan::Never;
                attempts.push(Attempt {
                    node: 0,
                    proto: Proto::Pase,
                    shape: Shape::Spoof {
                        burst: 1 + rng.below(3) as u8,
                        same_src: false,
                        huge_mrp: true,
                    },
                    gap_ms: 5,
                    par: false,
                });
            }
            Params {
                seed,
                family,
                n_init,
                handlers: *rng.pick(&[1u8, 2, 3, 4, (MAX_SESSIONS / 2 + 1) as u8]),
                busy_responder: rng.bool(),
                cancel,
                attempts,
                prefill: if rng.chance(1, 3) {
                    rng.below(MAX_SESSIONS as u64) as u8
                } else {
                    0
                },
                pinned: 0,
                pin_kind: PinKind::RInit,
                release: 0,
                expire_pinned: 0,
                chaos: *rng.pick(&[0u8, 0, 0, 5, 15]),
                shuffle: true,
            }
        }
        Family::TableFull => {
            let max = MAX_SESSIONS as u8;
            let prefill = match rng.below(4) {
                0 => max - 1,
                _ => max,
            };
            let pinned = match rng.below(8) {
                0 | 1 | 2 => prefill,
                3 | 4 => prefill.saturating_sub(1),
                5 => prefill.saturating_sub(2),
                6 => prefill.saturating_sub(3),
                _ => rng.below(prefill as u64 + 1) as u8,
            };
            let n = rng.below(5) as usize;
            let attempts = (0..n).map(|_| gen_attempt(rng, 1, false)).collect();
            Params {
                seed,
                family,
                n_init: 1,
                handlers: max + 2,
                busy_responder: rng.bool(),
                cancel: CancelPlan::Never,
                attempts,
                prefill,
                pinned,
                pin_kind: *rng.pick(&[PinKind::RInit, PinKind::Hold, PinKind::Mixed]),
                release: 1 + rng.below(3) as u8,
                expire_pinned: if rng.chance(1, 3) { 1 + rng.below(3) as u8 } else { 0 },
                chaos: 0,
                shuffle: true,
            }
        }
        Family::ExchFlood if rng.chance(1, 3) => {
            // one established session whose exchange slots are all taken by live exchanges that
            // handlers of the responder keep; the peer then opens one more
            Params {
                seed,
                family,
                n_init: 1,
                handlers: (MAX_EXCHANGES + 4) as u8,
                busy_responder: rng.bool(),
                cancel: CancelPlan::Never,
                attempts: vec![],
                prefill: 1 + rng.below(2) as u8,
                pinned: (MAX_EXCHANGES + 1) as u8,
                // an rs-matter peer cannot itself open more exchanges than it has slots: half of
                // the live exchanges are the responder's own (as reports in flight would be)
                pin_kind: PinKind::Mixed,
                release: 0,
                expire_pinned: 0,
                chaos: 0,
                shuffle: true,
            }
        }
        Family::ExchFlood => {
            let proto = if rng.chance(2, 3) { Proto::Case } else { Proto::Pase };
            let attempts = vec![
                Attempt {
                    node: 0,
                    proto: Proto::Case,
                    shape: Shape::Complete,
                    gap_ms: 0,
                    par: false,
                },
                Attempt {
                    node: 0,
                    proto,
                    shape: Shape::Spoof {
                        burst: (MAX_EXCHANGES + 1 + rng.usize(3)) as u8,
                        same_src: true,
                        huge_mrp: false,
                    },
                    gap_ms: 50,
                    par: false,
                },
            ];
            Params {
                seed,
                family,
                n_init: 1,
                handlers: (MAX_EXCHANGES + 4) as u8,
                busy_responder: false,
                cancel: CancelPlan::Never,
                attempts,
                prefill: 0,
                pinned: 0,
                pin_kind: PinKind::RInit,
                release: 0,
                expire_pinned: 0,
                chaos: 0,
                shuffle: true,
            }
        }
    }
}

/// Case `idx` of a shard: the family is a function of the index so that every shard runs
/// every family.
pub fn gen_case(shard_seed: u64, idx: u64, thorough: bool) -> Case {
    let mut rng = Rng::new(subseed(shard_seed, &[idx]));
    // A complete commissioning needs more session slots (at the device and at the controller)
    // than the smallest configuration has: there the rounds family keeps a token share only.
    let rounds_from = if MAX_SESSIONS >= 8 { 18 } else { 20 };
    match subseed(shard_seed, &[idx, 0xFA]) % 20 {
        0..=9 => Case::World(gen_world(&mut rng, Family::Hostile)),
        10..=13 => Case::World(gen_world(&mut rng, Family::TableFull)),
        14 => Case::World(gen_world(&mut rng, Family::ExchFlood)),
        15..=17 => Case::Rendezvous(c20_rdv::gen_params(&mut rng)),
        k if k >= rounds_from => Case::Rounds(c20_rounds::gen_params(&mut rng, thorough)),
        18 => Case::World(gen_world(&mut rng, Family::TableFull)),
        _ => {
            if subseed(shard_seed, &[idx, 0xFB]) % 8 == 0 {
                Case::Rounds(c20_rounds::gen_params(&mut rng, thorough))
            } else {
                Case::World(gen_world(&mut rng, Family::Hostile))
            }
        }
    }
}

fn shape_hash(c: &Case) -> u64 {
    let mut f = Fnv::new();
    match c {
        Case::World(p) => {
            f.add(format!("{:?}|{:?}|h{}|b{}|pf{}|pin{}|{:?}|", p.family, cancel_class(&p.cancel), p.handlers, p.busy_responder, p.prefill.min(1), pin_class(p), p.pin_kind).as_bytes());
            for a in &p.attempts {
                // per initiator: kind, stop point, garbage kind
                let s = match &a.shape {
                    Shape::Complete => "c".to_string(),
                    Shape::WrongPass => "w".to_string(),
                    Shape::Stop { k, acks } => format!("s{}{}", k, acks),
                    Shape::Garbage { k, kind, .. } => format!("g{}{:?}", k, kind),
                    Shape::InitCancel { n } => format!("i{}", n / 8),
                    Shape::Spoof { burst, same_src, huge_mrp } => format!("p{}{}{}", (*burst).min(6), same_src, huge_mrp),
                    Shape::Junk { kind } => format!("j{}", kind),
                    Shape::ExchJunk => "x".to_string(),
                };
                f.add(format!("{}:{:?}:{}:{};", a.node, a.proto, s, a.par).as_bytes());
            }
        }
        Case::Rendezvous(p) => f.add(c20_rdv::shape(p).as_bytes()),
        Case::Rounds(p) => f.add(c20_rounds::shape(p).as_bytes()),
    }
    f.0
}

fn cancel_class(c: &CancelPlan) -> String {
    match c {
        CancelPlan::Never => "never".into(),
        CancelPlan::Fixed(n) => format!("fixed{}", n),
        CancelPlan::Random { pct, .. } => format!("random{}", pct),
    }
}

fn pin_class(p: &Params) -> &'static str {
    if p.pinned == 0 {
        "none"
    } else if p.pinned as usize >= MAX_SESSIONS {
        "all"
    } else if p.pinned >= p.prefill {
        "all-prefilled"
    } else {
        "some"
    }
}

fn mode_class(m: &SessionMode) -> &'static str {
    match m {
        SessionMode::PlainText => "unsecured",
        SessionMode::Pase { .. } => "pase",
        SessionMode::Case { .. } => "case",
        #[allow(unreachable_patterns)]
        _ => "group",
    }
}

pub fn judge_world(rep: &mut Report, p: &Params, o: &Outcome, replay: serde_json::Value) {
    let fam = match p.family {
        Family::Hostile => "hostile",
        Family::TableFull => "table-full",
        Family::ExchFlood => "exch-flood",
    };
    rep.count(&format!("family:{}", fam));
    if let Some(msg) = &o.panic {
        rep.violation(
            "no-panic",
            &format!("C20/panic/{}", crate::util::panic_class(msg)),
            format!("panic while the node handled hostile / abandoned handshakes ({}): {}; phase {}; params {:?}", fam, msg, o.phase, p),
            replay.clone(),
        );
        return;
    }
    if o.setup_failed {
        rep.inconclusive("setup-failed");
        return;
    }
    match o.status {
        Some(RunStatus::Done) => {}
        Some(s) => {
            // A scenario exceeding the executor limits is not by itself a violation. The
            // coordinator only waits on virtual timers (never on rs-matter), so a step budget
            // exhausted means tasks kept waking each other without virtual time advancing
            // (rs-matter side), a stall means no timer was pending at all (harness side: every
            // harness wait is a timer), a horizon means virtual time ran away.
            let side = match s {
                RunStatus::StepBudget => "rs-matter-busy-loop-suspected",
                RunStatus::Stalled => "harness",
                _ => "virtual-time-horizon",
            };
            rep.inconclusive(&format!("run-status-{:?}/{}/phase-{}/{}", s, fam, o.phase, side));
            return;
        }
        None => {
            rep.inconclusive("no-status");
            return;
        }
    }

    for (k, v) in &o.counters {
        rep.count_n(k, *v);
    }
    rep.count_n("datagrams_observed", o.datagrams);
    for a in &o.attempts {
        rep.count(&format!("attempt:{}", a.class));
        rep.count(&format!("attempt_result:{}", a.result));
    }
    let mut cancels = 0;
    for h in &o.handlers {
        rep.count(&format!("handler_outcome:{}", h.outcome));
        if h.cancelled {
            cancels += 1;
        }
    }
    rep.count_n("handler_cancellations", cancels);
    rep.count_n("handler_invocations", o.handlers.len() as u64);
    if o.max_occupancy >= o.capacity {
        rep.count("runs_reaching_full_table");
    }
    match o.settle_ms {
        Some(ms) => rep.count(&format!("settled_within_s<={}", ((ms + 9_999) / 10_000) * 10)),
        None => rep.count("not_settled_within_bound"),
    }

    // (sequences with peer-advertised maximal MRP intervals are judged like all others: the
    // world waits out the - clamped - retransmission ladder before it looks at the tables)

    // ---- Q: state at quiescence -----------------------------------------------------------
    for q in &o.quiesce {
        rep.count("quiescence_checks");
        let role = q.role;
        for s in &q.sessions {
            if s.reserved {
                rep.violation(
                    "quiescence/reserved-session-left",
                    &format!("C20/quiescence/reserved-session-left/{}{}", role, ""),
                    format!(
                        "{} s after all traffic stopped the {} still holds a reserved session slot (internal id {}); the statement requires every slot not belonging to an established session to be free again; params {:?}",
                        world::QUIESCE_MAX_MS / 1000, role, s.id, p
                    ),
                    replay.clone(),
                );
            }
            for e in &s.exchanges {
                let st = if e.dropped {
                    "closing"
                } else if e.accept_pending {
                    "accept-pending"
                } else {
                    "owned"
                };
                rep.violation(
                    "quiescence/exchange-slot-in-use",
                    &format!(
                        "C20/quiescence/exchange-slot-in-use/{}/{}-session/{}-{}{}",
                        role,
                        mode_class(&s.mode),
                        if e.initiator { "initiator" } else { "responder" },
                        st,
                        ""
                    ),
                    format!(
                        "{} s after all traffic stopped the {} still has exchange slot {} (exchange id {}, {}, retransmission pending {}, ack pending {}) in use on its {} session {}; params {:?}",
                        world::QUIESCE_MAX_MS / 1000, role, e.index, e.exch_id, st, e.retrans_pending, e.ack_pending, mode_class(&s.mode), s.id, p
                    ),
                    replay.clone(),
                );
            }
        }
        if q.rx_occupied || q.tx_occupied {
            rep.violation(
                "quiescence/packet-slot-occupied",
                &format!("C20/quiescence/packet-slot-occupied/{}/{}", role, if q.rx_occupied { "rx" } else { "tx" }),
                format!("at quiescence the single RX/TX packet slot of the {} is still occupied (rx {}, tx {}); params {:?}", role, q.rx_occupied, q.tx_occupied, p),
                replay.clone(),
            );
        }
        if !q.resolve_idle || !q.browse_idle {
            rep.violation(
                "quiescence/rendezvous-not-idle",
                &format!("C20/quiescence/rendezvous-not-idle/{}", role),
                format!("at quiescence an mDNS rendezvous of the {} is not idle (resolve idle {}, browse idle {}); params {:?}", role, q.resolve_idle, q.browse_idle, p),
                replay.clone(),
            );
        }
    }
    if o.pase_marker_at_quiesce {
        // The marker is cleared lazily (on the next PBKDFParamRequest once its 60 s are over),
        // so its mere presence is not a leak; what counts is that it refuses nobody: the PASE
        // probe below decides.
        rep.note("pase-in-progress-marker-still-set-at-quiescence(lazily-expired)");
    }

    // ---- P: probe handshakes ----------------------------------------------------------------
    for pr in &o.probes {
        let avail = pr.free + pr.idle;
        rep.count(&format!("probe:{}:{:?}:{}", pr.phase, pr.proto, if pr.ok { "ok" } else { "failed" }));
        rep.count_n("busy_answers_to_probe", pr.busy_answers);
        if pr.ok {
            rep.count("probe_handshakes_ok");
            continue;
        }
        let err = pr.err.map(|e| format!("{:?}", e)).unwrap_or_default();
        if pr.phase == "quiescent" {
            // everything is idle: must succeed
            let marker = if pr.proto == Proto::Pase && o.pase_marker_at_quiesce { "/pase-marker-set" } else { "" };
            rep.violation(
                "probe/legitimate-handshake-fails-at-quiescence",
                &format!("C20/probe-fails/quiescent/{:?}/{}{}{}", pr.proto, err, marker, ""),
                format!(
                    "after quiescence a legitimate {:?} handshake failed ({} after {} tries, {} busy answers) although no slot is in use (free {}, idle {}, busy {}); params {:?}",
                    pr.proto, err, pr.tries, pr.busy_answers, pr.free, pr.idle, pr.busy_slots, p
                ),
                replay.clone(),
            );
            continue;
        }
        // after faults stopped, lingering half-open handshakes may still hold slots
        if !pr.handler_free {
            rep.note("probe-not-judged:all-application-handlers-still-occupied");
            continue;
        }
        if pr.idle == 0 {
            if avail == 0 {
                rep.count("probe_refused_table_full_of_busy_sessions");
                if pr.busy_answers > 0 {
                    rep.count("busy_answer_when_all_sessions_busy");
                } else {
                    rep.note("table-full-of-busy-sessions:no-busy-answer-seen(silent)");
                }
            } else {
                rep.note("probe-failed-with-free-slot-but-no-idle-session(not-judged)");
            }
            continue;
        }
        let class = if avail == 1 {
            "one-idle-session-no-free-slot"
        } else if pr.idle == 1 {
            "one-idle-session-plus-free-slots"
        } else {
            "two-or-more-idle-sessions"
        };
        rep.violation(
            "probe/legitimate-handshake-fails-with-idle-session",
            &format!("C20/probe-fails/{}/{:?}/{}/{}{}", pr.phase, pr.proto, class, err, ""),
            format!(
                "with {} idle session(s) and {} free slot(s) out of {} ({} busy) and faults stopped, a legitimate {:?} handshake failed: {} after {} tries, {} busy answers; the statement requires it to succeed as soon as one session is idle; params {:?}",
                pr.idle, pr.free, o.capacity, pr.busy_slots, pr.proto, err, pr.tries, pr.busy_answers, p
            ),
            replay.clone(),
        );
    }

    // ---- E: sessions with a live (harness-owned) exchange are never evicted ---------------------
    for pin in &o.pins {
        if !pin.established {
            rep.note("pin-not-established(not-judged)");
            continue;
        }
        rep.count("pinned_sessions_checked");
        match pin.alive_at_release {
            Some(true) => rep.count("pinned_sessions_survived"),
            Some(false) => rep.violation(
                "eviction/session-with-live-exchange-removed",
                &if p.family == Family::ExchFlood {
                    "C20/eviction/session-with-live-exchange-removed/exchange-table-full/established-session".to_string()
                } else {
                    format!(
                        "C20/eviction/session-with-live-exchange-removed/{}-exchange/{}",
                        if pin.responder_role { "responder" } else { "initiator" },
                        pin_class(p)
                    )
                },
                format!(
                    "session {} of the responder carried a live {} exchange owned by the harness from t={} to t={} and was removed from the table meanwhile; the only source of removals in this scenario is {}; params {:?}",
                    pin.sid, if pin.responder_role { "responder-role" } else { "initiator-role" }, pin.t_pin, pin.t_release,
                    if p.family == Family::ExchFlood { "the peer opening one exchange more than the session has slots for" } else { "table pressure from new handshakes" }, p
                ),
                replay.clone(),
            ),
            None => rep.note("pin-never-released(not-judged)"),
        }
    }

    // ---- F: exchange flood on one unsecured session ------------------------------------------------
    if p.family == Family::ExchFlood && o.flood_sent == 0 {
        rep.count("exchange_flood_runs");
        rep.count("exchange_flood_runs_on_established_session");
    }
    if p.family == Family::ExchFlood && o.flood_sent > 0 {
        rep.count("exchange_flood_runs");
        // Handlers that were in the middle of a handshake (owning their exchange) and learnt
        // that their session was gone. Nobody but the responder itself can have removed it:
        // the peer address is spoofed (no CloseSession), no handler is cancelled, and the
        // spoofed peer never acknowledges, so no handler drops an exchange with a
        // retransmission pending before the MRP ladder (4.2 s) is over.
        let victims: Vec<_> = o
            .handlers
            .iter()
            .filter(|h| h.t0 >= o.flood_t && h.outcome == "NoSession" && !h.session_alive_at_end && h.t1 < o.flood_t + 3_000_000)
            .collect();
        rep.count_n("flood_handlers_started", o.handlers.iter().filter(|h| h.t0 >= o.flood_t).count() as u64);
        if !victims.is_empty() {
            rep.violation(
                "eviction/session-with-live-exchange-removed",
                &format!(
                    "C20/eviction/session-with-live-exchange-removed/exchange-table-full/{}",
                    if victims[0].opcode == world::OP_SIGMA1 { "Sigma1" } else { "PBKDFParamRequest" }
                ),
                format!(
                    "{} session-opening messages with different exchange ids arrived on one unsecured session ({} exchange slots); {} handler(s) that owned a live exchange of that session lost it within {} ms: the responder closed the session instead of answering busy; params {:?}",
                    o.flood_sent, o.exch_capacity, victims.len(), (victims[0].t1 - o.flood_t) / 1000, p
                ),
                replay.clone(),
            );
        } else {
            rep.count("exchange_flood_no_live_session_lost");
        }
    }

    // The statement's "answers busy or evicts an idle session" is observed (counters), not judged
    // beyond the eviction rule above.
}

fn replay_json(shard_seed: u64, idx: u64, thorough: bool, c: &Case) -> serde_json::Value {
    json!({
        "check": "C20",
        "shard_seed": shard_seed.to_string(),
        "index": idx,
        "thorough": thorough,
        "tables": format!("{}x{}", MAX_SESSIONS, MAX_EXCHANGES),
        "case": format!("{:?}", c).chars().take(1800).collect::<String>(),
    })
}

fn run_one(rep: &mut Report, c: &Case, replay: serde_json::Value, sample: bool) {
    rep.evaluations += 1;
    rep.distinct.insert(shape_hash(c));
    match c {
        Case::World(p) => {
            let o = world::run_case(p);
            rep.interleavings.insert(o.sched_hash);
            judge_world(rep, p, &o, replay);
            if sample {
                rep.sample(json!({
                    "family": format!("{:?}", p.family),
                    "attempts": o.attempts.iter().map(|a| format!("{} -> {}", a.class, a.result)).collect::<Vec<_>>(),
                    "probes": o.probes.iter().map(|pr| format!("{} {:?} free={} idle={} busy={} ok={} err={:?} busy_answers={}", pr.phase, pr.proto, pr.free, pr.idle, pr.busy_slots, pr.ok, pr.err, pr.busy_answers)).collect::<Vec<_>>(),
                    "handlers": o.handlers.len(),
                    "max_occupancy": o.max_occupancy,
                    "settle_ms": o.settle_ms,
                    "virtual_end_s": o.end_time / 1_000_000,
                }));
            }
        }
        Case::Rendezvous(p) => c20_rdv::run_and_judge(rep, p, replay, sample),
        Case::Rounds(p) => c20_rounds::run_and_judge(rep, p, replay, sample),
    }
}

pub fn run(ctx: &Ctx) -> Report {
    let mut rep = Report::new(
        "C20",
        "Sequences of session-establishment attempts against a real rs-matter node; distinct = hash of the sequence \
         shape (family, handler-cancellation class, pool size, pre-fill / pin class, and per attempt: initiator, protocol, \
         kind, stop point, garbage kind, concurrency); every sequence is non-trivial (at least one attempt, rendezvous \
         operation or commissioning round).",
    );
    crate::util::quiet_panics();
    crate::util::init_log_from_env();
    rep.assumptions.push(format!("session table {} slots, {} exchange slots per session (this build)", MAX_SESSIONS, MAX_EXCHANGES));
    rep.assumptions.push("'free again' is read as: not in the table, or reclaimable on demand (neither reserved nor carrying an exchange)".into());
    rep.assumptions.push("'for good' is decided at most 150 s of virtual time after the last datagram of the fault phase (accept 1 s, MRP ladder 4.2 s, receive time-out 38.5 s, PASE establishment 60 s with default parameters)".into());
    rep.assumptions.push("which answer a full table gives (busy / silence) is counted, not judged; the number of application handlers is configuration, a probe is judged only if a handler was free".into());
    rep.assumptions.push("sessions removed because the peer closed them, because a dropped exchange had an unacknowledged message, or by fabric removal are not evictions".into());

    rep.floor("quiescence_checks", 600);
    rep.floor("abandoned_handshakes", 150);
    for k in ["PBKDFParamRequest", "Pake1", "Pake3", "Sigma1", "Sigma3"] {
        rep.floor(&format!("abandoned_after:{}", k), 8);
    }
    rep.floor("garbage_attempts", 80);
    rep.floor("completed:Pase", 20);
    rep.floor("completed:Case", 20);
    rep.floor("busy_answers_seen", 40);
    rep.floor("evictions_seen", 20);
    rep.floor("probe_handshakes_ok", 300);
    rep.floor("table_full_episodes", 60);
    rep.floor("handler_cancellations", 100);
    rep.floor("pinned_sessions_checked", 100);
    rep.floor("exchange_flood_runs", 10);
    rep.floor("rdv_cancellations", 60);
    rep.floor("rdv_timeouts", 20);
    rep.floor("rdv_slot_checks", 200);
    if MAX_SESSIONS >= 8 {
        rep.floor("rounds_completed", 100);
        rep.floor("rounds_abandoned", 60);
    }

    if let Some(r) = &ctx.replay {
        let seed: u64 = r["shard_seed"].as_str().and_then(|s| s.parse().ok()).unwrap_or(0);
        let idx = r["index"].as_u64().unwrap_or(0);
        let thorough = r["thorough"].as_bool().unwrap_or(false);
        let c = gen_case(seed, idx, thorough);
        if r["tables"].as_str().map(|t| t != format!("{}x{}", MAX_SESSIONS, MAX_EXCHANGES)).unwrap_or(false) {
            rep.note("replay-recorded-with-other-table-sizes(case-differs)");
        }
        run_one(&mut rep, &c, r.clone(), true);
        return rep;
    }

    let n = ctx.share(600, 30_000);
    let shard_seed = ctx.shard_seed();
    for k in 0..n {
        let idx = k * ctx.nshards + ctx.shard;
        let c = gen_case(shard_seed, idx, ctx.thorough);
        let rj = replay_json(shard_seed, idx, ctx.thorough, &c);
        let (v0, i0) = (rep.get("violations_raw"), rep.inconclusive.values().sum::<u64>());
        let n0 = rep.notes.clone();
        let w0 = std::time::Instant::now();
        run_one(&mut rep, &c, rj, k < 3);
        if std::env::var("RSMV_C20_LIST").is_ok() {
            eprintln!(
                "case idx={} kind={} violations+{} inconclusive+{} wall_ms={} notes+{:?}",
                idx,
                match &c {
                    Case::World(p) => format!("{:?}/attempts={}", p.family, p.attempts.len()),
                    Case::Rendezvous(_) => "Rendezvous".into(),
                    Case::Rounds(p) => format!("Rounds/{}", p.rounds.len()),
                },
                rep.get("violations_raw") - v0,
                rep.inconclusive.values().sum::<u64>() - i0,
                w0.elapsed().as_millis(),
                rep.notes.iter().filter(|(k, v)| n0.get(*k).copied().unwrap_or(0) != **v).map(|(k, _)| k.as_str()).collect::<Vec<_>>()
            );
        }
    }
    rep
}
