//! C04 — a message counter is accepted at most once per secure peer; newer ones always.
//!
//! Level 1: the real `RxCtrState` / `GroupCtrStore` (re-exported under the `verif`
//! feature) are driven with counter histories and every boolean result is compared
//! with a reference written from the property statement (not from the code).
//! Level 2 (through the transport, authentic datagrams) lives in `c04_transport`.

use std::collections::{BTreeMap, BTreeSet};

use serde_json::json;

use rs_matter::transport::verif::{GroupCtrStore, RxCtrState};

use crate::report::{Ctx, Report};
use crate::sim::rng::{Fnv, Rng};

pub const WINDOW: u64 = 16;

#[derive(Clone, Copy, Debug, PartialEq, Eq)]
pub enum Expect {
    Accept,
    Reject,
    /// The statement does not fix the outcome.
    Any,
}

#[derive(Clone, Copy, Debug, PartialEq, Eq)]
pub enum Kind {
    SecureUnicast,
    Unsecured,
}

/// Reference for one unicast peer, written from the statement.
#[derive(Clone, Debug, Default)]
pub struct UnicastRef {
    pub accepted: BTreeSet<u32>,
    pub max: Option<u32>,
    /// Values accepted since the last counter restart (unsecured only).
    pub restarted: bool,
}

impl UnicastRef {
    /// Returns (expectation, rule id that decides).
    pub fn expect(&self, kind: Kind, c: u32) -> (Expect, &'static str) {
        let Some(max) = self.max else {
            // Nothing accepted so far: `c` is greater than every value accepted so far.
            return (Expect::Accept, "first-value");
        };
        if c > max {
            return (Expect::Accept, "newer-than-all-accepted");
        }
        if c == max {
            return (Expect::Reject, "duplicate-of-max");
        }
        let behind = (max - c) as u64;
        match kind {
            Kind::SecureUnicast => {
                if self.accepted.contains(&c) {
                    (Expect::Reject, "duplicate")
                } else if behind > WINDOW {
                    (Expect::Reject, "older-than-window")
                } else {
                    (Expect::Accept, "in-window-unseen")
                }
            }
            Kind::Unsecured => {
                if behind > WINDOW {
                    (Expect::Accept, "unsecured-restart")
                } else if self.accepted.contains(&c) {
                    (Expect::Reject, "duplicate")
                } else if self.restarted {
                    // After a restart of the peer's counter the values just below the
                    // restart point may or may not belong to the previous epoch.
                    (Expect::Any, "in-window-unseen-after-restart")
                } else {
                    (Expect::Accept, "in-window-unseen")
                }
            }
        }
    }

    pub fn apply(&mut self, kind: Kind, c: u32, accepted: bool) {
        if !accepted {
            return;
        }
        match self.max {
            Some(max) if c < max && (max - c) as u64 > WINDOW && kind == Kind::Unsecured => {
                // restart
                self.accepted.clear();
                self.restarted = true;
                self.max = Some(c);
            }
            Some(max) if c > max => self.max = Some(c),
            None => self.max = Some(c),
            _ => {}
        }
        self.accepted.insert(c);
    }
}

fn biased_next(rng: &mut Rng, max: Option<u32>, seen: &[u32]) -> u32 {
    let m = max.unwrap_or(0) as u64;
    let pick = rng.below(100);
    let v: u64 = match pick {
        0..=14 => {
            // duplicate of something seen
            if seen.is_empty() {
                rng.u32() as u64
            } else {
                *rng.pick(seen) as u64
            }
        }
        15..=39 => m.wrapping_add(1 + rng.below(3)), // small step forward
        40..=54 => m.wrapping_sub(rng.below(20)),     // around / inside the window
        55..=62 => m.wrapping_sub(14 + rng.below(5)), // exactly around the window edge
        63..=72 => m.wrapping_add(*rng.pick(&[15u64, 16, 17, 18, 31, 32, 33])),
        73..=78 => m.wrapping_add(*rng.pick(&[1u64 << 16, (1 << 31) - 1, 1 << 31, 1 << 28])),
        79..=84 => *rng.pick(&[0u64, 1, 2, 15, 16, 17]),
        85..=89 => (1u64 << 31).wrapping_add(rng.below(5)).wrapping_sub(2),
        90..=94 => (u32::MAX as u64).wrapping_sub(rng.below(20)),
        _ => rng.u32() as u64,
    };
    v as u32
}

fn first_value(rng: &mut Rng) -> u32 {
    match rng.below(10) {
        0 => 0,
        1 => 1,
        2 => rng.below(40) as u32,
        3 => (1u32 << 31) - 8 + rng.below(16) as u32,
        4 => u32::MAX - rng.below(40) as u32,
        5 => (1u32 << 28) - rng.below(40) as u32,
        _ => rng.u32(),
    }
}

fn class_of(prev_max: Option<u32>, c: u32, first: bool) -> String {
    match prev_max {
        None => {
            if c == 0 {
                "first=0".into()
            } else {
                "first".into()
            }
        }
        Some(m) => {
            if c > m {
                let d = c - m;
                if d < 16 {
                    "ahead<16".into()
                } else {
                    "ahead>=16".into()
                }
            } else {
                let b = m - c;
                if b as u64 <= WINDOW {
                    format!("behind-in-window{}", if first { "/after-first" } else { "" })
                } else {
                    "behind-window".into()
                }
            }
        }
    }
}

/// Classify an "in-window unseen rejected" witness by how the window got there.
fn unseen_reject_class(history: &[u32], c: u32) -> &'static str {
    // Was there a forward jump >= 16 after which `c` lies inside the window?
    let mut max: Option<u32> = None;
    let mut jumped = false;
    let mut first = None;
    for &h in history {
        match max {
            None => {
                max = Some(h);
                first = Some(h);
            }
            Some(m) if h > m => {
                if (h - m) as u64 >= WINDOW && c < h && c > m {
                    jumped = true;
                }
                max = Some(h);
            }
            _ => {}
        }
    }
    if jumped {
        "after-forward-jump>=16"
    } else if first.map(|f| c < f).unwrap_or(false) {
        "older-than-first-received"
    } else {
        "other"
    }
}

pub fn check_unicast_history(
    rep: &mut Report,
    kind: Kind,
    history: &[u32],
    origin: &str,
    seed: u64,
) -> bool {
    // The initial state of a unicast session (`Session::new`); that sessions really start
    // from it is checked end-to-end by the transport-level part (L2).
    let mut real = RxCtrState::new_unsynced();
    let mut rf = UnicastRef::default();
    let enc = kind == Kind::SecureUnicast;
    let mut ok = true;
    for (i, &c) in history.iter().enumerate() {
        let (exp, rule) = rf.expect(kind, c);
        let got = real.post_recv(c, enc, false);
        rep.count(&format!("rule:{}/{}", if enc { "secure" } else { "unsecured" }, rule));
        let bad = match exp {
            Expect::Accept => !got,
            Expect::Reject => got,
            Expect::Any => false,
        };
        if bad {
            ok = false;
            let sub = if rule == "in-window-unseen" {
                format!("/{}", unseen_reject_class(&history[..i], c))
            } else if rule == "first-value" {
                format!("/{}", if c == 0 { "ctr=0" } else { "ctr!=0" })
            } else {
                String::new()
            };
            let sig = format!(
                "C04/{}/{}{}/{}",
                if enc { "secure-unicast" } else { "unsecured" },
                rule,
                sub,
                if got { "accepted" } else { "rejected" }
            );
            rep.violation(
                rule,
                &sig,
                format!(
                    "history {:?}: counter {} at step {} was {} but the statement requires {:?} ({}); class {}",
                    &history[..=i],
                    c,
                    i,
                    if got { "accepted" } else { "rejected" },
                    exp,
                    rule,
                    class_of(rf.max, c, i == 1)
                ),
                json!({"check":"C04","level":1,"kind": if enc {"secure"} else {"unsecured"}, "history": &history[..=i], "origin": origin, "seed": seed}),
            );
            // Keep the reference in step with the statement, and stop this history: the
            // real state has diverged from the reference.
            break;
        }
        rf.apply(kind, c, got);
    }
    ok
}

/// Reference for the group sender table.
struct GroupRef {
    /// per sender: accepted value -> cumulative forward distance at acceptance
    senders: BTreeMap<(u8, u64), GroupSender>,
    /// use sequence, for the LRU eviction rule
    tick: u64,
}

#[derive(Default, Clone)]
struct GroupSender {
    accepted: BTreeMap<u32, u64>,
    max: Option<u32>,
    fwd_total: u64,
    last_use: u64,
}

pub const MAX_GROUP_SENDERS: usize = 16;

impl GroupRef {
    fn new() -> Self {
        Self {
            senders: BTreeMap::new(),
            tick: 0,
        }
    }

    /// Under LRU with capacity 16, `s` has been evicted iff at least 16 distinct other
    /// senders were used since its last use.
    fn evicted(&self, key: (u8, u64)) -> bool {
        let Some(s) = self.senders.get(&key) else {
            return true;
        };
        self.senders
            .iter()
            .filter(|(k, o)| **k != key && o.last_use > s.last_use)
            .count()
            >= MAX_GROUP_SENDERS
    }

    fn expect(&self, key: (u8, u64), c: u32) -> (Expect, &'static str) {
        if self.evicted(key) {
            return (Expect::Accept, "new-or-evicted-sender");
        }
        let s = &self.senders[&key];
        let max = s.max.unwrap();
        if c == max {
            return (Expect::Reject, "duplicate-of-max");
        }
        let fwd = c.wrapping_sub(max);
        if fwd >= 1 && fwd <= (i32::MAX as u32) {
            return (Expect::Accept, "ahead");
        }
        let behind = max.wrapping_sub(c) as u64;
        if behind > WINDOW {
            return (Expect::Reject, "older-than-window");
        }
        if let Some(at) = s.accepted.get(&c) {
            if s.fwd_total - at < (1u64 << 31) - 64 {
                return (Expect::Reject, "duplicate");
            }
            return (Expect::Any, "lapped");
        }
        (Expect::Any, "in-window-unseen(group:not-asserted)")
    }

    fn apply(&mut self, key: (u8, u64), c: u32, accepted: bool) {
        self.tick += 1;
        let tick = self.tick;
        if self.evicted(key) {
            // (Re)created on this message.
            let mut s = GroupSender::default();
            s.last_use = tick;
            if accepted {
                s.max = Some(c);
                s.accepted.insert(c, 0);
                self.senders.insert(key, s);
            } else {
                self.senders.remove(&key);
            }
            return;
        }
        let s = self.senders.get_mut(&key).unwrap();
        s.last_use = tick;
        if accepted {
            let max = s.max.unwrap();
            let fwd = c.wrapping_sub(max);
            if fwd >= 1 && fwd <= (i32::MAX as u32) {
                s.fwd_total += fwd as u64;
                s.max = Some(c);
            }
            let t = s.fwd_total;
            s.accepted.insert(c, t);
        }
    }
}

pub fn check_group_history(
    rep: &mut Report,
    history: &[(u8, u64, u32)],
    origin: &str,
    seed: u64,
) -> bool {
    let mut real = GroupCtrStore::new();
    let mut rf = GroupRef::new();
    for (i, &(fab, node, c)) in history.iter().enumerate() {
        let (exp, rule) = rf.expect((fab, node), c);
        let got = real.post_recv(fab, node, c);
        rep.count(&format!("rule:group/{}", rule));
        let bad = match exp {
            Expect::Accept => !got,
            Expect::Reject => got,
            Expect::Any => false,
        };
        if bad {
            let sig = format!(
                "C04/group/{}/{}",
                rule,
                if got { "accepted" } else { "rejected" }
            );
            rep.violation(
                rule,
                &sig,
                format!(
                    "group history (fab,node,ctr) {:?}: step {} was {} but the statement requires {:?} ({})",
                    &history[..=i],
                    i,
                    if got { "accepted" } else { "rejected" },
                    exp,
                    rule
                ),
                json!({"check":"C04","level":1,"kind":"group","history": history[..=i].iter().map(|(f,n,c)| json!([f,n,c])).collect::<Vec<_>>(), "origin": origin, "seed": seed}),
            );
            return false;
        }
        rf.apply((fab, node), c, got);
    }
    true
}

fn hist_hash(kind: u8, h: &[u32]) -> u64 {
    let mut f = Fnv::new();
    f.add(&[kind]);
    for v in h {
        f.add(&v.to_le_bytes());
    }
    f.0
}

/// Shape of a history relative to the running max (what makes it non-trivial/distinct):
/// sequence of (relation to max: ahead<16, ahead>=16, equal, behind-in-window, behind).
fn shape_hash(kind: u8, h: &[u32]) -> (u64, bool) {
    let mut f = Fnv::new();
    f.add(&[kind]);
    let mut max: Option<u32> = None;
    let mut nontrivial = false;
    for &c in h {
        let code: i64 = match max {
            None => {
                max = Some(c);
                if c == 0 {
                    1000
                } else {
                    1001
                }
            }
            Some(m) => {
                if c > m {
                    let d = (c - m) as i64;
                    max = Some(c);
                    if d > 40 {
                        nontrivial = true;
                        2000 + (63 - (d as u64).leading_zeros() as i64)
                    } else {
                        if d > 1 {
                            nontrivial = true;
                        }
                        d
                    }
                } else {
                    nontrivial = true;
                    let b = (m - c) as i64;
                    if b > 40 {
                        -2000 - (63 - (b as u64).leading_zeros() as i64)
                    } else {
                        -b
                    }
                }
            }
        };
        f.add(&code.to_le_bytes());
    }
    (f.0, nontrivial)
}

pub fn run(ctx: &Ctx) -> Report {
    let mut rep = Report::new(
        "C04",
        "L1: counter histories fed to the real RxCtrState/GroupCtrStore, compared step by step with a reference written from the statement. \
         A history is non-trivial if it contains a duplicate, a re-ordered (behind-max) value or a forward gap > 1; distinct = distinct shapes \
         (sequence of offsets relative to the running max, large offsets bucketed by log2).",
    );
    rep.assumptions.push("L1: RxCtrState::new_unsynced() is the initial state of a unicast session (L2 checks real sessions through the transport)".into());
    rep.assumptions.push("group sender table evicts least-recently-used (documented in dedup.rs); 'never twice' for groups is asserted while the sender's counter has moved forward < 2^31 since the first acceptance".into());

    if let Some(r) = &ctx.replay {
        replay(&mut rep, r);
        return rep;
    }

    for (k, min) in [
        ("rule:secure/in-window-unseen", 1000),
        ("rule:secure/duplicate", 100),
        ("rule:secure/older-than-window", 100),
        ("rule:secure/newer-than-all-accepted", 1000),
        ("rule:unsecured/unsecured-restart", 100),
        ("rule:group/ahead", 100),
        ("rule:group/duplicate", 50),
        ("rule:group/older-than-window", 50),
        ("group_walks_with_possible_eviction", 10),
    ] {
        rep.floor(k, min);
    }

    let mut rng = Rng::new(ctx.shard_seed());

    // (a) exhaustive enumeration around a window edge: all sequences of length <= L
    // over an alphabet of A values around base..base+A (window edge inside).
    // Sharded by the first element.
    let (alpha, len): (u32, usize) = if ctx.thorough { (40, 5) } else { (34, 4) };
    let alpha = if ctx.scale < 1.0 { 12 } else { alpha };
    let len = if ctx.scale < 1.0 { 3 } else { len };
    for (kind_i, kind) in [Kind::SecureUnicast, Kind::Unsecured].into_iter().enumerate() {
        for base in [0u32, 1000, u32::MAX - alpha - 2] {
            let mut hist = vec![0u32; len];
            let mut idx = vec![0u32; len];
            // mixed-radix counter over alphabet; shard on idx[0]
            'enumerate: loop {
                if (idx[0] as u64) % ctx.nshards == ctx.shard {
                    for k in 0..len {
                        hist[k] = base.wrapping_add(idx[k]);
                    }
                    rep.evaluations += 1;
                    rep.count("exhaustive_sequences");
                    let (sh, nt) = shape_hash(kind_i as u8, &hist);
                    if nt {
                        rep.distinct.insert(sh);
                    }
                    check_unicast_history(&mut rep, kind, &hist, "exhaustive", 0);
                }
                // increment
                let mut p = len - 1;
                loop {
                    idx[p] += 1;
                    if idx[p] < alpha {
                        break;
                    }
                    idx[p] = 0;
                    if p == 0 {
                        break 'enumerate;
                    }
                    p -= 1;
                }
            }
        }
    }

    // (b) biased random walks
    let walks = ctx.share(40_000, 4_000_000);
    for w in 0..walks {
        let kind = if rng.chance(2, 3) {
            Kind::SecureUnicast
        } else {
            Kind::Unsecured
        };
        let long = rng.chance(1, 10);
        let n = 2 + rng.usize(if long { 200 } else { 30 });
        let mut hist: Vec<u32> = Vec::with_capacity(n);
        let mut max: Option<u32> = None;
        hist.push(first_value(&mut rng));
        max = max.max(Some(hist[0]));
        for _ in 1..n {
            let v = biased_next(&mut rng, max, &hist);
            if max.map(|m| v > m).unwrap_or(true) {
                max = Some(v);
            }
            hist.push(v);
        }
        rep.evaluations += 1;
        rep.count("random_walks");
        let (sh, nt) = shape_hash(kind as u8 + 10, &hist);
        if nt {
            rep.distinct.insert(sh);
        }
        if w < 2 {
            rep.sample(json!({"kind": format!("{:?}", kind), "history": hist}));
        }
        check_unicast_history(&mut rep, kind, &hist, "walk", ctx.shard_seed());
    }

    // (c) group sender table: up to 16 tracked senders + evictions, roll-over arithmetic
    let gwalks = ctx.share(20_000, 2_000_000);
    for w in 0..gwalks {
        let many = rng.chance(1, 3);
        let nsenders = 1 + rng.usize(if many { 24 } else { 6 });
        let long = rng.chance(1, 10);
        let n = 2 + rng.usize(if long { 300 } else { 40 });
        let mut maxes: Vec<Option<u32>> = vec![None; nsenders];
        let mut seen: Vec<Vec<u32>> = vec![vec![]; nsenders];
        let mut hist = Vec::with_capacity(n);
        for _ in 0..n {
            let s = rng.usize(nsenders);
            let v = match maxes[s] {
                None => first_value(&mut rng),
                Some(_) => biased_next(&mut rng, maxes[s], &seen[s]),
            };
            // running "max" in the modular sense
            match maxes[s] {
                None => maxes[s] = Some(v),
                Some(m) => {
                    let fwd = v.wrapping_sub(m);
                    if fwd >= 1 && fwd <= i32::MAX as u32 {
                        maxes[s] = Some(v);
                    }
                }
            }
            seen[s].push(v);
            let fab = 1 + (s % 3) as u8;
            hist.push((fab, 0x1000 + s as u64, v));
        }
        rep.evaluations += 1;
        rep.count("group_walks");
        let mut f = Fnv::new();
        f.add(&[77]);
        for (a, b, c) in &hist {
            f.add(&[*a]);
            f.add_u64(*b);
            f.add(&c.to_le_bytes());
        }
        rep.distinct.insert(f.0);
        if nsenders > MAX_GROUP_SENDERS {
            rep.count("group_walks_with_possible_eviction");
        }
        if w < 1 {
            rep.sample(json!({"kind": "group", "history": hist.iter().take(12).map(|(f,n,c)| json!([f,n,c])).collect::<Vec<_>>() }));
        }
        check_group_history(&mut rep, &hist, "gwalk", ctx.shard_seed());
    }

    let _ = hist_hash;
    rep
}

fn replay(rep: &mut Report, r: &serde_json::Value) {
    let kind = r["kind"].as_str().unwrap_or("secure");
    rep.evaluations += 1;
    if kind == "group" {
        let hist: Vec<(u8, u64, u32)> = r["history"]
            .as_array()
            .map(|a| {
                a.iter()
                    .map(|e| {
                        (
                            e[0].as_u64().unwrap() as u8,
                            e[1].as_u64().unwrap(),
                            e[2].as_u64().unwrap() as u32,
                        )
                    })
                    .collect()
            })
            .unwrap_or_default();
        check_group_history(rep, &hist, "replay", 0);
    } else {
        let hist: Vec<u32> = r["history"]
            .as_array()
            .map(|a| a.iter().map(|e| e.as_u64().unwrap() as u32).collect())
            .unwrap_or_default();
        let k = if kind == "secure" {
            Kind::SecureUnicast
        } else {
            Kind::Unsecured
        };
        check_unicast_history(rep, k, &hist, "replay", 0);
    }
}
