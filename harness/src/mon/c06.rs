//! C06 — every Interaction Model operation is mediated by the access check.
//!
//! A real device node (InteractionModel + probe data model generated from the seed, real ACL
//! table) and a real controller node with one pre-established secure session per requester
//! kind. The generator draws node compositions, ACLs and requests (read / write / invoke,
//! wildcard and concrete paths, timed / untimed, composition changes inside an answer); the
//! oracle compares the decoded answers and the probe's call log with the reference expansion
//! of `im_ref`.

#![allow(dead_code)]

use std::collections::BTreeSet;
use std::rc::Rc;

use serde_json::json;

use super::c06_world::{
    run_world, ChunkPlan, Msg, Step, StepOut, WorldCfg, OP_INVOKE_RESP, OP_REPORT, OP_STATUS, OP_WRITE_RESP,
};
use super::im_ref::{
    self, acc, class_of, AclRef, AttrItem, Auth, Class, CmdKind, DeviceAcl, EmittedEvent, EvKind, Expect, InvokeItem,
    ItemKind, ListIdx, NodeSpec, Op, PathExpect, PathReq, Priv, ReadRequest, Requester, Shape, TargetRef, Tlv, Val,
    WriteItem, CAT_PREFIX,
};
use super::probe_dm::{self, CallOp, GenCfg, PROBE_CLUSTER_BASE};
use crate::report::{Ctx, Report};
use crate::sim::exec::RunStatus;
use crate::sim::rng::{subseed, Fnv, Rng};

pub const NODE_ADMIN: u64 = 0xA001;
pub const NODE_LIMITED: u64 = 0xB002;
pub const NODE_CAT: u64 = 0xC003;
pub const NODE_NOENTRY: u64 = 0xE005;
pub const CAT_ID: u32 = 0x0ABC;
pub const GROUP_ID: u16 = 0x0101;
/// The scaffold cannot drive a group requester: a mirrored session in Group mode only matches
/// group-typed messages (`Session::is_for_rx`), and a mirrored Group-mode session cannot be used
/// for sending (`InvalidState`); real group key provisioning + `Exchange::initiate_group` +
/// multicast delivery would be needed. The judge for group messages is kept for that day.
pub const GROUP_REQUESTER: bool = false;

pub struct Case {
    pub cfg: WorldCfg,
    pub steps: Vec<Step>,
    pub emitted_plan: Vec<usize>,
}

fn gen_targets(rng: &mut Rng, node: &NodeSpec) -> Vec<TargetRef> {
    if rng.chance(2, 5) {
        return vec![];
    }
    let n = 1 + rng.usize(3);
    (0..n)
        .map(|_| {
            let ep = if rng.chance(1, 8) || node.endpoints.is_empty() {
                77
            } else {
                node.endpoints[rng.usize(node.endpoints.len())].id
            };
            let cl = PROBE_CLUSTER_BASE + rng.below(6) as u32;
            let dt = 0x100 + rng.below(4) as u32;
            match rng.below(6) {
                0 => TargetRef { ep: Some(ep), cl: None, dt: None },
                1 | 2 => TargetRef { ep: None, cl: Some(cl), dt: None },
                3 => TargetRef { ep: Some(ep), cl: Some(cl), dt: None },
                4 => TargetRef { ep: None, cl: None, dt: Some(dt) },
                _ => TargetRef { ep: None, cl: Some(cl), dt: Some(dt) },
            }
        })
        .collect()
}

fn gen_priv(rng: &mut Rng, with_admin: bool) -> Priv {
    let v: &[Priv] = if with_admin {
        &[Priv::View, Priv::ProxyView, Priv::Operate, Priv::Manage, Priv::Administer]
    } else {
        &[Priv::View, Priv::ProxyView, Priv::Operate, Priv::Manage]
    };
    *rng.pick(v)
}

pub fn gen_requesters_and_acl(rng: &mut Rng, node: &NodeSpec) -> (Vec<Requester>, Vec<AclRef>) {
    let ver_a = 2 + rng.below(3) as u32;
    let ver_e = (ver_a as i64 + rng.range(0, 2) as i64 - 1) as u32;
    let rq = |kind: &'static str, auth: Option<Auth>, fab: u8, subject: u64, cats: Vec<u32>| Requester {
        kind,
        auth,
        fab_idx: fab,
        subject,
        cats,
        group_endpoints: vec![],
    };
    let mut cats = vec![(CAT_ID << 16) | ver_a];
    if rng.bool() {
        cats.push((0x0DEF << 16) | 1);
    }
    let requesters = vec![
        rq("case-admin", Some(Auth::Case), 1, NODE_ADMIN, vec![]),
        rq("case-limited", Some(Auth::Case), 1, NODE_LIMITED, vec![]),
        rq("case-cat", Some(Auth::Case), 1, NODE_CAT, cats),
        rq("case-other-fabric", Some(Auth::Case), 2, NODE_ADMIN, vec![]),
        rq("case-no-entry", Some(Auth::Case), 1, NODE_NOENTRY, vec![]),
        rq("pase", Some(Auth::Pase), 0, 0, vec![]),
        rq("case-ghost-fabric", Some(Auth::Case), 9, NODE_ADMIN, vec![]),
        Requester {
            kind: "group",
            auth: Some(Auth::Group),
            fab_idx: 1,
            subject: GROUP_ID as u64,
            cats: vec![],
            group_endpoints: node.endpoints.iter().filter(|_| rng.chance(2, 3)).map(|e| e.id).take(3).collect(),
        },
    ];
    let mut acl = Vec::new();
    acl.push(AclRef {
        fab_idx: 1,
        privilege: Priv::Administer,
        auth: Auth::Case,
        subjects: if rng.chance(1, 4) { vec![NODE_ADMIN, 0x1234] } else { vec![NODE_ADMIN] },
        targets: vec![],
    });
    acl.push(AclRef {
        fab_idx: 1,
        privilege: gen_priv(rng, false),
        auth: Auth::Case,
        subjects: match rng.below(20) {
            0..=13 => vec![NODE_LIMITED],
            14..=16 => vec![],
            _ => vec![NODE_LIMITED, NODE_NOENTRY],
        },
        targets: gen_targets(rng, node),
    });
    acl.push(AclRef {
        fab_idx: 1,
        privilege: gen_priv(rng, true),
        auth: Auth::Case,
        subjects: vec![CAT_PREFIX | ((CAT_ID as u64) << 16) | ver_e as u64],
        targets: gen_targets(rng, node),
    });
    if rng.chance(3, 4) {
        // a Group-mode entry: serves the group requester (if the subject matches), never a CASE one
        acl.push(AclRef {
            fab_idx: 1,
            privilege: *rng.pick(&[Priv::View, Priv::Operate, Priv::Manage, Priv::Manage]),
            auth: Auth::Group,
            subjects: match rng.below(6) {
                0 => vec![],
                1 => vec![NODE_LIMITED & 0xffff],
                _ => vec![GROUP_ID as u64],
            },
            targets: if rng.chance(2, 3) { vec![] } else { gen_targets(rng, node) },
        });
    }
    acl.push(AclRef {
        fab_idx: 2,
        privilege: gen_priv(rng, true),
        auth: Auth::Case,
        subjects: if rng.chance(1, 4) { vec![] } else { vec![NODE_ADMIN] },
        targets: gen_targets(rng, node),
    });
    if rng.bool() {
        acl.push(AclRef {
            fab_idx: 2,
            privilege: Priv::Administer,
            auth: Auth::Case,
            subjects: vec![0x9999],
            targets: vec![],
        });
    }
    (requesters, acl)
}

#[derive(Clone, Copy, PartialEq)]
pub enum Leaf {
    Attr,
    Cmd,
    Event,
}

/// Draw a request path around the given node: a random existing element, with each position
/// turned into a wildcard or into an absent id with the given percentages.
pub fn gen_path(rng: &mut Rng, node: &NodeSpec, leaf: Leaf, wild: [u32; 3], absent: u32, probe_only: bool) -> PathReq {
    if node.endpoints.is_empty() {
        return PathReq::new(Some(rng.below(4) as u16), Some(PROBE_CLUSTER_BASE + rng.below(6) as u32), Some(rng.below(8) as u32));
    }
    let e = &node.endpoints[rng.usize(node.endpoints.len())];
    let cls: Vec<_> = e.clusters.iter().filter(|c| !(probe_only && c.system)).collect();
    let (cl, lf) = if cls.is_empty() {
        (PROBE_CLUSTER_BASE, 0)
    } else {
        let c = cls[rng.usize(cls.len())];
        let ids: Vec<u32> = match leaf {
            Leaf::Attr => c.attrs.iter().map(|a| a.id).collect(),
            Leaf::Cmd => c.cmds.iter().map(|a| a.id).collect(),
            Leaf::Event => c.events.iter().map(|a| a.id).collect(),
        };
        (c.id, if ids.is_empty() { rng.below(6) as u32 } else { ids[rng.usize(ids.len())] })
    };
    let mut p = PathReq::new(Some(e.id), Some(cl), Some(lf));
    let roll = |rng: &mut Rng, w: u32| -> u8 {
        let r = rng.below(100) as u32;
        if r < w {
            1
        } else if r < w + absent {
            2
        } else {
            0
        }
    };
    match roll(rng, wild[0]) {
        1 => p.ep = None,
        2 => p.ep = Some(if rng.bool() { 77 } else { 1 + rng.below(12) as u16 }),
        _ => {}
    }
    match roll(rng, wild[1]) {
        1 => p.cl = None,
        2 => p.cl = Some(PROBE_CLUSTER_BASE + rng.below(10) as u32),
        _ => {}
    }
    match roll(rng, wild[2]) {
        1 => p.leaf = None,
        2 => {
            p.leaf = Some(match leaf {
                Leaf::Attr => *rng.pick(&[99u32, 0xFFFB, 0xFFFD, 3, 7, 11, 0xFFF8]),
                Leaf::Cmd => rng.below(9) as u32,
                Leaf::Event => rng.below(5) as u32,
            })
        }
        _ => {}
    }
    p
}

fn write_value(rng: &mut Rng, shape: Option<&Shape>) -> Val {
    match shape {
        Some(Shape::List { .. }) => Val::Array((0..rng.usize(4)).map(|_| Tlv::anon(Val::U(rng.below(1000)))).collect()),
        Some(Shape::Octets(_)) => { let n = rng.usize(12); Val::Bytes(rng.bytes(n)) },
        Some(Shape::Utf8(_)) => Val::Utf8(vec![b'x'; rng.usize(12)]),
        Some(Shape::Bool) => Val::Bool(rng.bool()),
        _ => Val::U(rng.below(1 << 20)),
    }
}

/// (timed_flag, timed_req, delay_ms, label)
fn gen_timed(rng: &mut Rng) -> (bool, Option<u16>, u64, &'static str) {
    match rng.below(100) {
        0..=44 => (false, None, 0, "untimed"),
        45..=71 => (true, Some(*rng.pick(&[400u16, 1000, 5000])), rng.below(150), "timed-live"),
        72..=83 => {
            let t = *rng.pick(&[300u16, 800]);
            (true, Some(t), t as u64 + 200 + rng.below(2000), "timed-expired")
        }
        84..=91 => (true, None, 0, "flag-without-timed-request"),
        _ => (false, Some(1000), rng.below(100), "timed-request-without-flag"),
    }
}

/// Timing of a chunked write of `n` messages: (TimedRequest time-out, delay before message 0,
/// TimedRequest flag per message, delay before message k, the later message that deviates).
fn gen_chunk_timing(rng: &mut Rng, n: usize) -> (Option<u16>, u64, Vec<bool>, Vec<u64>, Option<usize>) {
    let gaps: Vec<u64> = (0..n).map(|_| if rng.chance(1, 3) { 0 } else { rng.below(30) }).collect();
    // the later message that deviates: the second one half of the time (so that messages may follow it)
    let dev = if rng.bool() { 1 } else { 1 + rng.usize(n - 1) };
    match rng.below(100) {
        // no timed interaction, no flag anywhere
        0..=23 => (None, 0, vec![false; n], gaps, None),
        // a live timed interaction, the flag in every message
        24..=43 => (Some(*rng.pick(&[1000u16, 5000])), rng.below(100), vec![true; n], gaps, None),
        // no timed interaction, but a later message claims one
        44..=62 => {
            let rest = rng.bool();
            let flags = (0..n).map(|k| k == dev || (rest && k > dev)).collect();
            (None, 0, flags, gaps, Some(dev))
        }
        // a live timed interaction, a later message drops the flag
        63..=72 => {
            let flags = (0..n).map(|k| k != dev).collect();
            (Some(*rng.pick(&[1000u16, 5000])), rng.below(60), flags, gaps, Some(dev))
        }
        // the window elapses between two messages
        73..=85 => {
            let t = *rng.pick(&[300u16, 800]);
            let mut gaps = gaps;
            gaps[dev] = t as u64 + 200 + rng.below(1500);
            (Some(t), rng.below(40), vec![true; n], gaps, Some(dev))
        }
        // the window elapses before the first message
        86..=89 => {
            let t = *rng.pick(&[300u16, 800]);
            (Some(t), t as u64 + 200 + rng.below(1000), vec![true; n], gaps, None)
        }
        // the flag everywhere without a timed interaction
        90..=93 => (None, 0, vec![true; n], gaps, None),
        // a timed interaction, the flag nowhere
        94..=96 => (Some(1000), rng.below(60), vec![false; n], gaps, None),
        // a later message around the end of the window
        _ => {
            let mut gaps = gaps;
            gaps[dev] = 320 + rng.below(160);
            (Some(400), 0, vec![true; n], gaps, Some(dev))
        }
    }
}

pub fn gen_case(seed: u64, thorough: bool) -> Case {
    let mut rng = Rng::new(seed);
    let sys_root = rng.chance(1, 4);
    let gcfg = GenCfg { sys_root, ..Default::default() };
    let node = Rc::new(probe_dm::gen_node(&mut rng, &gcfg));
    let var1 = Rc::new(probe_dm::gen_variant(&mut rng, &node, &gcfg, 100));
    // half of the time the second variant is the base node minus exactly ONE endpoint (all other
    // endpoints stay, so whatever they hold must still be answered completely)
    let var2 = if rng.bool() && node.endpoints.len() >= 2 {
        let first = if sys_root { 1 } else { 0 };
        if node.endpoints.len() > first {
            let drop = first + rng.usize(node.endpoints.len() - first);
            let mut v = (*node).clone();
            v.endpoints.remove(drop);
            Rc::new(v)
        } else {
            Rc::new(probe_dm::gen_variant(&mut rng, &node, &gcfg, 200))
        }
    } else {
        Rc::new(probe_dm::gen_variant(&mut rng, &node, &gcfg, 200))
    };
    let (requesters, acl) = gen_requesters_and_acl(&mut rng, &node);
    let cfg = WorldCfg {
        seed: rng.u64(),
        variants: vec![node.clone(), var1, var2],
        n_fabrics: 2,
        real_fabrics: sys_root,
        acl,
        requesters,
        shuffle: true,
    };
    let mut steps = Vec::new();
    let mut emitted_plan = Vec::new();
    // a few events up front
    let nev = rng.usize(5);
    for _ in 0..nev {
        let p = gen_path(&mut rng, &node, Leaf::Event, [0, 0, 0], 6, true);
        emitted_plan.push(steps.len());
        steps.push(Step::Emit {
            ep: p.ep.unwrap(),
            cl: p.cl.unwrap(),
            ev: p.leaf.unwrap(),
            prio: rng.below(3) as u8,
            fabric: if rng.chance(1, 3) { Some(1 + rng.below(2) as u8) } else { None },
            payload_len: rng.usize(24),
        });
    }
    let nreq = if thorough { 14 } else { 12 };
    let mut cur = node.clone();
    let mut cur_idx = 0usize;
    for _ in 0..nreq {
        let sess = match rng.below(20) {
            0..=4 => 0,
            5..=8 => 1,
            9..=11 => 2,
            12..=13 => 3,
            14..=15 => 4,
            16..=18 => 5,
            _ => 6,
        };
        // the group requester only sends untimed writes / invokes (decided below)
        let group_turn = GROUP_REQUESTER && rng.chance(1, 5);
        match rng.below(100) {
            0..=44 => {
                // read
                let mut req = ReadRequest { fabric_filtered: rng.bool(), ..Default::default() };
                let with_attrs = rng.chance(9, 10);
                if with_attrs {
                    let big = rng.chance(1, 4);
                    let n = 1 + rng.usize(if big { 10 } else { 4 });
                    let mut paths: Vec<PathReq> = Vec::new();
                    for _ in 0..n {
                        if !paths.is_empty() && rng.chance(1, 6) {
                            let d = paths[rng.usize(paths.len())].clone();
                            paths.push(d);
                            continue;
                        }
                        if sys_root && rng.chance(1, 4) {
                            paths.push(
                                rng.pick(&[
                                    PathReq::new(Some(0), Some(probe_dm::CLUSTER_ACL), Some(0)),
                                    PathReq::new(Some(0), Some(probe_dm::CLUSTER_NOC), Some(0)),
                                    PathReq::new(Some(0), Some(probe_dm::CLUSTER_NOC), Some(1)),
                                    PathReq::new(Some(0), Some(probe_dm::CLUSTER_ACL), None),
                                ])
                                .clone(),
                            );
                            continue;
                        }
                        let wild = if rng.chance(1, 2) { [0, 0, 0] } else { [30, 30, 35] };
                        let mut p = gen_path(&mut rng, &cur, Leaf::Attr, wild, 7, false);
                        if rng.chance(1, 25) {
                            p.list_index = if rng.bool() { ListIdx::Idx(rng.below(4) as u16) } else { ListIdx::Null };
                        }
                        paths.push(p);
                    }
                    req.attr_paths = Some(paths);
                    if rng.chance(1, 4) {
                        let mut f = Vec::new();
                        for _ in 0..1 + rng.usize(3) {
                            if cur.endpoints.is_empty() {
                                break;
                            }
                            let e = &cur.endpoints[rng.usize(cur.endpoints.len())];
                            if let Some(c) = e.clusters.iter().find(|c| !c.system) {
                                let dv = probe_dm::default_dataver(e.id, c.id);
                                // equal (=> filtered, unless a write bumped it) or different
                                f.push((e.id, c.id, if rng.chance(2, 3) { dv } else { dv.wrapping_add(7) }));
                            }
                        }
                        req.dataver_filters = Some(f);
                    }
                }
                if !with_attrs || rng.chance(1, 6) {
                    let n = 1 + rng.usize(3);
                    req.event_paths = Some(
                        (0..n)
                            .map(|_| {
                                let wild = if rng.bool() { [0, 0, 0] } else { [40, 40, 40] };
                                gen_path(&mut rng, &cur, Leaf::Event, wild, 8, true)
                            })
                            .collect(),
                    );
                    if rng.chance(1, 3) {
                        req.event_min = Some(vec![rng.below(6)]);
                    }
                }
                let swap = if rng.chance(1, 4) {
                    let idx = (cur_idx + 1 + rng.usize(2)) % 3;
                    if rng.bool() {
                        steps.push(Step::SwapAfterReads(rng.below(40) as u32, idx));
                        None
                    } else {
                        Some((rng.usize(2), idx))
                    }
                } else {
                    None
                };
                let eligible = req.event_paths.is_none()
                    && req.dataver_filters.is_none()
                    && swap.is_none()
                    && req.attr_paths.iter().flatten().all(|p| p.list_index == ListIdx::Absent);
                let via_client = eligible && rng.chance(1, 4);
                steps.push(Step::Read { sess, req, swap_at_chunk: swap, max_chunks: 200, via_client });
                // The composition may or may not have changed (depends on how far the answer got);
                // the judge uses the snapshots. For generation keep drawing around variant 0.
                let _ = (&mut cur, &mut cur_idx);
            }
            45..=69 => {
                let (mut flag, mut treq, mut delay, _) = gen_timed(&mut rng);
                let sess = if group_turn { 7 } else { sess };
                if group_turn {
                    (flag, treq, delay) = (false, None, 0);
                }
                let big = rng.chance(1, 3);
                // a quarter of the writes travel as 2..4 WriteRequest messages on one exchange
                let chunked = !group_turn && rng.chance(1, 4);
                let nchunks = if !chunked {
                    1
                } else {
                    match rng.below(20) {
                        0..=9 => 2,
                        10..=16 => 3,
                        _ => 4,
                    }
                };
                let timing = if chunked { Some(gen_chunk_timing(&mut rng, nchunks)) } else { None };
                // chunked writes lean towards the administrator (so that the messages hold items that
                // would act), more so when a later message deviates
                let deviates = timing.as_ref().map(|t| t.4.is_some()).unwrap_or(false);
                let sess = if chunked && rng.chance(if deviates { 3 } else { 2 }, 5) { 0 } else { sess };
                let n = if chunked { nchunks + rng.usize(3) } else { 1 + rng.usize(if big { 4 } else { 1 }) };
                let mut items: Vec<WriteItem> = Vec::new();
                for _ in 0..n {
                    if !items.is_empty() && rng.chance(1, 6) {
                        let d = items[rng.usize(items.len())].clone();
                        items.push(d);
                        continue;
                    }
                    let find = |p: &PathReq| match (p.ep, p.cl, p.leaf) {
                        (Some(e), Some(c), Some(a)) => cur.attr(e, c, a).cloned(),
                        (None, Some(c), Some(a)) => cur.endpoints.iter().find_map(|e| e.cluster(c).and_then(|c| c.attr(a))).cloned(),
                        _ => None,
                    };
                    let mut p = gen_path(&mut rng, &cur, Leaf::Attr, [12, 2, 2], 7, true);
                    // prefer attributes that declare the write operation (most are read-only)
                    for _ in 0..6 {
                        if find(&p).map(|a| a.access & acc::WRITE != 0).unwrap_or(false) || rng.chance(1, 5) {
                            break;
                        }
                        p = gen_path(&mut rng, &cur, Leaf::Attr, [12, 2, 2], 7, true);
                    }
                    let aspec = find(&p);
                    let mut w = WriteItem { path: p, data_ver: None, data: write_value(&mut rng, aspec.as_ref().map(|a| &a.shape)) };
                    if let Some(a) = &aspec {
                        if a.quality & im_ref::qual::ARRAY != 0 && rng.chance(1, 3) {
                            w.path.list_index = ListIdx::Null;
                            w.data = Val::U(rng.below(100));
                        }
                    }
                    if rng.chance(1, 10) {
                        w.path.list_index = ListIdx::Idx(rng.below(3) as u16);
                    }
                    if rng.chance(1, 6) {
                        if let (Some(e), Some(c)) = (w.path.ep, w.path.cl) {
                            let dv = probe_dm::default_dataver(e, c);
                            w.data_ver = Some(if rng.bool() { dv } else { dv.wrapping_add(3) });
                        }
                    }
                    items.push(w);
                }
                let mut chunks = None;
                if let Some((t, d, flags, gaps, dev)) = timing {
                    (flag, treq, delay) = (flags[0], t, d);
                    let mut sizes = vec![1usize; nchunks];
                    for _ in nchunks..items.len() {
                        sizes[rng.usize(nchunks)] += 1;
                    }
                    let writable = |want: &dyn Fn(&im_ref::AttrSpec) -> bool| -> Vec<(u16, u32, im_ref::AttrSpec)> {
                        let mut v = Vec::new();
                        for e in &cur.endpoints {
                            for c in e.clusters.iter().filter(|c| !c.system) {
                                for a in c.attrs.iter().filter(|a| a.access & acc::WRITE != 0 && want(a)) {
                                    v.push((e.id, c.id, a.clone()));
                                }
                            }
                        }
                        v
                    };
                    let lists = writable(&|a| a.quality & im_ref::qual::ARRAY != 0);
                    if !lists.is_empty() && rng.chance(1, 3) {
                        // a list written across the messages: replace-all first, appended items later
                        let (e, c, a) = lists[rng.usize(lists.len())].clone();
                        let mut p = PathReq::new(Some(e), Some(c), Some(a.id));
                        items.clear();
                        items.push(WriteItem { path: p.clone(), data_ver: None, data: write_value(&mut rng, Some(&a.shape)) });
                        p.list_index = ListIdx::Null;
                        sizes = vec![1usize; nchunks];
                        for k in 1..nchunks {
                            sizes[k] = 1 + rng.usize(2);
                            for _ in 0..sizes[k] {
                                items.push(WriteItem { path: p.clone(), data_ver: None, data: Val::U(rng.below(1000)) });
                            }
                        }
                        if rng.chance(1, 3) {
                            // ... next to something else in the first message
                            let q = gen_path(&mut rng, &cur, Leaf::Attr, [12, 2, 2], 7, true);
                            items.insert(0, WriteItem { path: q, data_ver: None, data: Val::U(rng.below(1 << 16)) });
                            sizes[0] += 1;
                        }
                    }
                    let timed_only = writable(&|a| a.access & acc::TIMED_ONLY != 0);
                    if !timed_only.is_empty() && rng.chance(3, 5) {
                        // a timed-only attribute in the message that deviates (else in any later one)
                        let k = dev.unwrap_or(1 + rng.usize(nchunks - 1));
                        let at: usize = sizes[..k].iter().sum();
                        let (e, c, a) = timed_only[rng.usize(timed_only.len())].clone();
                        items[at] = WriteItem { path: PathReq::new(Some(e), Some(c), Some(a.id)), data_ver: None, data: write_value(&mut rng, Some(&a.shape)) };
                    }
                    chunks = Some(ChunkPlan { sizes, flags, gaps_ms: gaps, continue_after_refusal: rng.chance(1, 3), explicit_last: rng.bool() });
                }
                let via_client = !chunked && flag == treq.is_some() && delay < 150 && rng.chance(1, 4) && !group_turn;
                steps.push(Step::Write { sess, items, timed_flag: flag, timed_req: treq, delay_ms: if via_client { 0 } else { delay }, via_client, chunks });
            }
            70..=94 => {
                let (mut flag, mut treq, mut delay, _) = gen_timed(&mut rng);
                let sess = if group_turn { 7 } else { sess };
                if group_turn {
                    (flag, treq, delay) = (false, None, 0);
                }
                let big = rng.chance(1, 3);
                let n = 1 + rng.usize(if big { 3 } else { 1 });
                let mut items: Vec<InvokeItem> = Vec::new();
                for k in 0..n {
                    let p = gen_path(&mut rng, &cur, Leaf::Cmd, [6, 2, 2], 7, true);
                    if items.iter().any(|i: &InvokeItem| i.path == p) && !rng.chance(1, 5) {
                        continue;
                    }
                    items.push(InvokeItem {
                        path: p,
                        cmd_ref: if n > 1 && !rng.chance(1, 12) { Some(k as u16) } else { None },
                        data: Val::Struct(vec![Tlv::ctx(0, Val::U(rng.below(256)))]),
                    });
                }
                let via_client = flag == treq.is_some() && delay < 150 && rng.chance(1, 4) && !group_turn;
                steps.push(Step::Invoke { sess, items, timed_flag: flag, timed_req: treq, delay_ms: if via_client { 0 } else { delay }, via_client });
            }
            _ => {
                cur_idx = rng.usize(3);
                steps.push(Step::SwapNode(cur_idx));
                cur = cfg.variants[cur_idx].clone();
            }
        }
    }
    Case { cfg, steps, emitted_plan }
}

// ---------------------------------------------------------------------------------------------
// Judge
// ---------------------------------------------------------------------------------------------

fn top_status(so: &StepOut) -> Option<u16> {
    let m = so.msgs.last()?;
    if m.opcode != OP_STATUS {
        return None;
    }
    Tlv::parse_strict(&m.payload).ok().and_then(|t| im_ref::decode_status_resp(&t).ok())
}

/// Client-side list reassembly: an item with a null list index appends to the preceding list
/// value of the same attribute.
pub fn reassemble(items: Vec<AttrItem>) -> Vec<AttrItem> {
    let mut out: Vec<AttrItem> = Vec::new();
    for it in items {
        if it.list_index == ListIdx::Null {
            if let ItemKind::Data { val, .. } = &it.kind {
                if let Some(last) = out.last_mut() {
                    if last.ep == it.ep && last.cl == it.cl && last.attr == it.attr {
                        if let ItemKind::Data { val: Val::Array(a), .. } = &mut last.kind {
                            a.push(Tlv::anon(val.clone()));
                            continue;
                        }
                    }
                }
            }
        }
        out.push(it);
    }
    out
}

struct J<'a> {
    rep: &'a mut Report,
    cfg: &'a WorldCfg,
    acl: DeviceAcl,
    replay: serde_json::Value,
    outcome: BTreeSet<String>,
}

impl J<'_> {
    /// Is the requester's View on (ep, cl) owed to a ProxyView entry alone? (rs-matter gives
    /// ProxyView entries no effect, see C05; such disagreements get their own signature class.)
    fn proxy_cause(&self, node: &NodeSpec, r: &Requester, ep: u16, cl: u32) -> &'static str {
        let dts = node.endpoint(ep).map(|e| e.device_types.clone()).unwrap_or_default();
        let mut np = self.acl.clone();
        np.entries.retain(|e| e.privilege != Priv::ProxyView);
        if im_ref::acl_allows(&self.acl, r, ep, cl, &dts, Priv::View) && !im_ref::acl_allows(&np, r, ep, cl, &dts, Priv::View) {
            "/view-owed-to-proxy-view-entry"
        } else {
            ""
        }
    }

    fn viol(&mut self, rule: &str, class: &str, detail: String) {
        let sig = format!("C06/{}/{}", rule, class);
        if class.contains("view-owed-to-proxy-view-entry") {
            // rs-matter deliberately gives ProxyView entries no effect (documented in
            // dm/types/privilege.rs; denying direction); the statement does not settle whether
            // ProxyView includes View. Same decision as in C05: counted, not judged.
            self.outcome.insert(format!("N:{}", sig));
            self.rep
                .note("not-judged(ProxyView grants nothing in rs-matter, see C05):view-owed-to-proxy-view-entry");
            return;
        }
        self.outcome.insert(format!("V:{}", sig));
        self.rep.violation(rule, &sig, detail, self.replay.clone());
    }
}

fn union_permitted(j: &J<'_>, specs: &[&NodeSpec], r: &Requester, op: Op) -> BTreeSet<(u16, u32, u32)> {
    let mut s = BTreeSet::new();
    for n in specs {
        s.extend(im_ref::permitted_set(n, &j.acl, r, op));
    }
    s
}

fn describe(j: &J<'_>, si: usize, step: &Step, r: &Requester) -> String {
    let entries: Vec<String> = j
        .acl
        .entries
        .iter()
        .filter(|e| e.fab_idx == r.fab_idx)
        .map(|e| format!("{:?}/{:?}/subj{:x?}/tgt{:?}", e.privilege, e.auth, e.subjects, e.targets))
        .collect();
    let s = format!("{:?}", step);
    format!(
        "step {} requester {} (auth {:?} fab {} subject {:#x} cats {:x?}); ACL entries of its fabric: [{}]; request: {}",
        si,
        r.kind,
        r.auth,
        r.fab_idx,
        r.subject,
        r.cats,
        entries.join("; "),
        &s[..s.len().min(900)]
    )
}

fn fabric_sensitive_check(j: &mut J<'_>, it: &AttrItem, r: &Requester, fabric_filtered: bool, ctx: &str) {
    // ACL entries (0x1f/0) and NOCs (0x3e/0): every field except FabricIndex is fabric-sensitive.
    let ItemKind::Data { val, .. } = &it.kind else { return };
    let sens = matches!((it.ep, it.cl, it.attr), (Some(0), Some(0x1f), Some(0)) | (Some(0), Some(0x3e), Some(0)));
    if !sens {
        return;
    }
    let entries: Vec<&Tlv> = match val {
        Val::Array(a) => a.iter().collect(),
        _ => return,
    };
    for e in entries {
        let fab = e.find(0xFE).and_then(|f| f.u());
        j.rep.count("fabric_sensitive_entries_seen");
        if fab == Some(r.fab_idx as u64) && r.fab_idx != 0 {
            j.rep.count("fabric_sensitive_own_entries");
            continue;
        }
        if fabric_filtered {
            j.viol(
                "fabric-filter",
                "other-fabric-entry-in-filtered-read",
                format!("fabric-filtered read returned an entry of fabric {:?} to a requester of fabric {}: {}; {}", fab, r.fab_idx, e.show(), ctx),
            );
            continue;
        }
        j.rep.count("fabric_sensitive_foreign_entries");
        let leaked: Vec<String> = e
            .children()
            .iter()
            .filter(|c| c.tag != im_ref::Tag::Ctx(0xFE) && c.val != Val::Null)
            .map(|c| c.show())
            .collect();
        if !leaked.is_empty() && it.cl == Some(0x3e) {
            // rs-matter documents NOC / ICAC as no longer fabric-sensitive (spec revision after 1.4.2)
            j.rep.note("unfiltered-read-returns-noc-of-other-fabric (documented upstream as not fabric-sensitive any more)");
        } else if !leaked.is_empty() {
            j.viol(
                "fabric-sensitive",
                &format!("foreign-fields-disclosed/cluster-{:#x}", it.cl.unwrap_or(0)),
                format!(
                    "entry of fabric {:?} discloses fabric-sensitive fields {:?} to a requester of fabric {}; {}",
                    fab, leaked, r.fab_idx, ctx
                ),
            );
        }
    }
}

#[allow(clippy::too_many_arguments)]
fn judge_read(
    j: &mut J<'_>,
    si: usize,
    step: &Step,
    so: &StepOut,
    spec_after: &Rc<NodeSpec>,
    during: &[Rc<NodeSpec>],
    emitted: &[EmittedEvent],
) {
    let Step::Read { sess, req, .. } = step else { return };
    let r = j.cfg.requesters[*sess].clone();
    let snap = so.snap.as_ref().unwrap();
    let before = snap.spec.clone();
    let swapped = !Rc::ptr_eq(&before, spec_after) || !during.is_empty();
    let ctx = describe(j, si, step, &r);
    j.rep.count(&format!("requester:{}", r.kind));
    j.rep.count("op:read");
    if swapped {
        j.rep.count("read_with_composition_change");
    }

    // --- safety half: handler calls within the permitted set
    let mut specs: Vec<&NodeSpec> = if swapped { vec![&before, spec_after] } else { vec![&before] };
    specs.extend(during.iter().map(|s| &**s));
    let permitted = union_permitted(j, &specs, &r, Op::Read);
    for c in &so.calls {
        match c.op {
            CallOp::Read => {
                j.rep.count("handler_read_calls");
                if !permitted.contains(&(c.ep, c.cl, c.leaf)) {
                    j.viol(
                        "call-log",
                        "read-call-outside-permitted",
                        format!("the handler was asked to read {:#x}/{:#x}/{:#x}, which is not in permitted(requester, read); {}", c.ep, c.cl, c.leaf, ctx),
                    );
                }
                if c.fab_idx != r.fab_idx && r.fab_idx != 9 {
                    j.viol("call-log", "accessor-fabric-mismatch", format!("handler saw fabric {} for requester of fabric {}; {}", c.fab_idx, r.fab_idx, ctx));
                }
            }
            _ => j.viol("call-log", "mutation-during-read", format!("{:?} call during a read: {:?}; {}", c.op, c, ctx)),
        }
    }

    if let Some(e) = &so.err {
        j.rep.note(&format!("read-no-complete-answer:{}", e));
        if std::env::var("RSMV_DEBUG_NOANSWER").is_ok() && e.contains("timeout") {
            eprintln!("NOANSWER {} {}", j.replay, ctx);
        }
        j.outcome.insert("no-answer".into());
        return;
    }
    if so.aborted {
        j.rep.note("read-aborted-by-controller-after-200-chunks");
        return;
    }

    // --- decode
    let mut attrs: Vec<AttrItem> = Vec::new();
    let mut events = Vec::new();
    let mut any_attr_array = false;
    let mut any_event_array = false;
    let mut top: Option<u16> = None;
    if so.via_client {
        j.rep.count("driven-via-public-im-client");
        for rp in &so.client_reports {
            if let Some(a) = &rp.attrs {
                any_attr_array = true;
                attrs.extend(a.iter().cloned());
            }
        }
    }
    for (k, m) in so.msgs.iter().enumerate() {
        if m.opcode == OP_REPORT {
            match Tlv::parse_strict(&m.payload).and_then(|t| im_ref::decode_report(&t)) {
                Ok(rp) => {
                    if let Some(a) = rp.attrs {
                        any_attr_array = true;
                        attrs.extend(a);
                    }
                    if let Some(e) = rp.events {
                        any_event_array = true;
                        events.extend(e);
                    }
                }
                Err(e) => {
                    j.viol("decode", "malformed-report", format!("chunk {} does not decode: {}; {}", k, e, ctx));
                    return;
                }
            }
        } else if m.opcode == OP_STATUS {
            top = top_status(so);
        } else {
            j.viol("decode", "unexpected-opcode", format!("opcode {} in answer to a read; {}", m.opcode, ctx));
            return;
        }
    }
    let _ = (any_attr_array, any_event_array);
    // --- reference
    let paths = req.attr_paths.clone().unwrap_or_default();
    let index_paths = paths.iter().any(|p| p.list_index != ListIdx::Absent);
    let attrs = if index_paths { attrs } else { reassemble(attrs) };
    let filters = req.dataver_filters.clone().unwrap_or_default();
    let dv = |e: u16, c: u32| snap.dataver(e, c);
    let rctx = im_ref::ReadCtx { node: &before, acl: &j.acl, requester: &r, dataver_filters: &filters, current_dataver: &dv };
    let exp = im_ref::expand_read(&rctx, &paths);
    let open: Vec<&'static str> = exp.iter().filter_map(|p| p.open).collect();
    for p in &paths {
        j.rep.count(if p.is_wildcard() { "path:wildcard" } else { "path:concrete" });
    }

    if let Some(code) = top {
        let cl = class_of(code);
        j.outcome.insert(format!("top:{:?}", cl));
        if so.msgs.len() == 1 {
            if open.contains(&"wildcard-cluster-with-non-global-attribute") && cl == Class::Invalid {
                j.rep.count("denied:invalid-path-top-level");
                return;
            }
            j.viol("read-top-status", &format!("{:?}", cl), format!("a well-formed read was answered with a bare status {:#x}; {}", code, ctx));
        } else {
            j.viol("read-top-status", &format!("after-chunks/{:?}", cl), format!("status {:#x} after {} report chunks; {}", code, so.msgs.len() - 1, ctx));
        }
        return;
    }

    // --- disclosure: data only for permitted elements
    for it in &attrs {
        let (Some(e), Some(c), Some(a)) = (it.ep, it.cl, it.attr) else {
            j.viol("decode", "wildcard-in-answer-path", format!("answer item with a wildcard path {:?}; {}", it, ctx));
            continue;
        };
        if let ItemKind::Data { val, .. } = &it.kind {
            if !permitted.contains(&(e, c, a)) {
                j.viol(
                    "disclosure",
                    "data-for-non-permitted-element",
                    format!("data returned for {:#x}/{:#x}/{:#x} which the requester may not read (or which does not exist); {}", e, c, a, ctx),
                );
            } else {
                j.rep.count("granted:read-data");
            }
            fabric_sensitive_check(j, it, &r, req.fabric_filtered, &ctx);
            // value
            if !swapped && !index_paths && it.list_index == ListIdx::Absent {
                if let Some(expv) = snap.expected_value(e, c, a) {
                    if &expv != val {
                        j.viol(
                            "value",
                            "wrong-value",
                            format!("{:#x}/{:#x}/{:#x}: got {} expected {}; {}", e, c, a, Tlv::anon(val.clone()).show(), Tlv::anon(expv).show(), ctx),
                        );
                    }
                }
            }
        }
    }

    // --- events
    if let Some(ep) = &req.event_paths {
        let min = req.event_min.clone().unwrap_or_default();
        let ectx = im_ref::EventCtx { node: &before, acl: &j.acl, requester: &r, event_min: &min, fabric_filtered: req.fabric_filtered };
        let (st, nums) = im_ref::expand_events(&ectx, ep, emitted);
        let got_nums: Vec<u64> = events
            .iter()
            .filter_map(|e| match e.kind {
                EvKind::Data { number, .. } => Some(number),
                _ => None,
            })
            .collect();
        if !swapped {
            let (missing, extra) = im_ref::multiset_diff(&nums, &got_nums);
            j.rep.count_n("granted:event-data", got_nums.len() as u64);
            if !extra.is_empty() {
                let unperm: Vec<&u64> = extra.iter().collect();
                j.viol("events", "event-not-selected-or-not-permitted", format!("events {:?} returned but not expected (expected {:?}); {}", unperm, nums, ctx));
            }
            if !missing.is_empty() {
                let ev = emitted.iter().find(|e| e.number == missing[0]).unwrap();
                let cause = j.proxy_cause(&before, &r, ev.ep, ev.cl);
                j.viol("events", &format!("permitted-event-missing{}", cause), format!("events {:?} missing (got {:?}); {}", missing, got_nums, ctx));
            }
            // statuses of concrete event paths
            let got_st: Vec<(Option<u16>, Option<u32>, Option<u32>, u16)> = events
                .iter()
                .filter_map(|e| match e.kind {
                    EvKind::Status { code } => Some((e.ep, e.cl, e.ev, code)),
                    _ => None,
                })
                .collect();
            let mut used = vec![false; got_st.len()];
            for s in &st {
                let Expect::Status { path, allowed, primary, .. } = s else { continue };
                let hit = got_st.iter().enumerate().position(|(k, g)| {
                    !used[k] && g.0 == path.ep && g.1 == path.cl && g.2 == path.leaf && allowed.contains(&class_of(g.3))
                });
                match hit {
                    Some(k) => {
                        used[k] = true;
                        j.rep.count(&format!("denied:event/{:?}", class_of(got_st[k].3)));
                    }
                    None => {
                        if *primary == Class::Absent {
                            // rs-matter omits the status for an absent event id (upstream TODO
                            // about TestEventsById); recorded, not judged.
                            j.rep.note("concrete-absent-event-path-answered-without-status");
                        } else {
                            j.viol("events", "concrete-denied-event-path-without-status", format!("no status for event path {}; got {:?}; {}", path.show(), got_st, ctx));
                        }
                    }
                }
            }
            for (k, g) in got_st.iter().enumerate() {
                if !used[k] {
                    let cause = j.proxy_cause(&before, &r, g.0.unwrap_or(0), g.1.unwrap_or(0));
                    j.viol("events", &format!("unexpected-event-status{}", cause), format!("event status {:?} not expected; {}", g, ctx));
                }
            }
        } else {
            j.rep.note("event-read-with-composition-change-not-judged-for-completeness");
        }
    }

    // --- completeness / statuses (probe clusters only; system cluster values are not modelled)
    if !open.is_empty() {
        for o in &open {
            j.rep.note(&format!("open-outcome:{}", o));
        }
        j.outcome.insert("open".into());
        return;
    }
    let is_sys = |e: u16, c: u32| before.cluster(e, c).map(|c| c.system).unwrap_or(false) || (e == 0 && c < PROBE_CLUSTER_BASE);
    let stable = |e: u16| {
        !swapped || (before.endpoint(e).is_some() && spec_after.endpoint(e).is_some() && during.iter().all(|s| s.endpoint(e).is_some()))
    };
    let mut exp_data: Vec<(u16, u32, u32)> = Vec::new();
    let mut exp_status: Vec<&Expect> = Vec::new();
    for p in &exp {
        for it in &p.items {
            match it {
                Expect::Data { ep, cl, leaf } => {
                    if !is_sys(*ep, *cl) && stable(*ep) {
                        exp_data.push((*ep, *cl, *leaf))
                    }
                }
                Expect::Status { .. } => exp_status.push(it),
                _ => {}
            }
        }
    }
    let got_data: Vec<(u16, u32, u32)> = attrs
        .iter()
        .filter(|i| matches!(i.kind, ItemKind::Data { .. }))
        .map(|i| (i.ep.unwrap_or(0), i.cl.unwrap_or(0), i.attr.unwrap_or(0)))
        .filter(|(e, c, _)| !is_sys(*e, *c) && stable(*e))
        .collect();
    let (missing, extra) = im_ref::multiset_diff(&exp_data, &got_data);
    // a missing data item may have been answered with a status instead
    let got_status: Vec<&AttrItem> = attrs.iter().filter(|i| matches!(i.kind, ItemKind::Status { .. })).collect();
    let mut used = vec![false; got_status.len()];
    if !swapped {
        for s in &exp_status {
            let Expect::Status { path, allowed, primary, primary_code } = s else { continue };
            let hit = got_status.iter().enumerate().position(|(k, g)| {
                let ItemKind::Status { code, .. } = g.kind else { return false };
                !used[k] && g.ep == path.ep && g.cl == path.cl && g.attr == path.leaf && allowed.contains(&class_of(code))
            });
            match hit {
                Some(k) => {
                    used[k] = true;
                    let ItemKind::Status { code, .. } = got_status[k].kind else { unreachable!() };
                    let cl = class_of(code);
                    j.rep.count(&format!("denied:read/{:?}", cl));
                    j.outcome.insert(format!("st:{:?}", cl));
                    if cl != *primary {
                        j.rep.note(&format!("read-status-class-{:?}-where-rules-name-{:?}-first", cl, primary));
                    } else if let Some(pc) = primary_code {
                        if *pc != code {
                            j.rep.note(&format!("read-status-code-{:#x}-instead-of-{:#x}", code, pc));
                        }
                    }
                }
                None => {
                    let same_path: Vec<String> = got_status
                        .iter()
                        .filter(|g| g.ep == path.ep && g.cl == path.cl && g.attr == path.leaf)
                        .map(|g| format!("{:?}", g.kind))
                        .collect();
                    let got_data_for = attrs.iter().any(|g| g.ep == path.ep && g.cl == path.cl && g.attr == path.leaf && matches!(g.kind, ItemKind::Data { .. }));
                    j.viol(
                        "concrete-status",
                        &format!("expected-{:?}/got-{}", primary, if got_data_for { "data".to_string() } else if same_path.is_empty() { "nothing".to_string() } else { "other-status".to_string() }),
                        format!("concrete path {} must yield one status of {:?}; statuses for the path: {:?}; {}", path.show(), allowed, same_path, ctx),
                    );
                }
            }
        }
    }
    for (e, c, a) in &missing {
        // answered with a status?
        let st = got_status.iter().enumerate().find(|(k, g)| !used[*k] && g.ep == Some(*e) && g.cl == Some(*c) && g.attr == Some(*a));
        match st {
            Some((k, g)) => {
                used[k] = true;
                let ItemKind::Status { code, .. } = g.kind else { unreachable!() };
                let cause = j.proxy_cause(&before, &r, *e, *c);
                j.viol(
                    "completeness",
                    &format!("status-instead-of-data/{:?}{}", class_of(code), cause),
                    format!("{:#x}/{:#x}/{:#x} exists, matches and is permitted, but was answered with status {:#x}; {}", e, c, a, code, ctx),
                );
            }
            None => j.viol(
                "completeness",
                &format!("permitted-element-missing{}", j.proxy_cause(&before, &r, *e, *c)),
                format!("{:#x}/{:#x}/{:#x} exists, matches the request and is permitted for the requester, but is missing from the answer; {}", e, c, a, ctx),
            ),
        }
    }
    if !swapped {
        for (e, c, a) in &extra {
            j.viol("completeness", "extra-data-item", format!("{:#x}/{:#x}/{:#x} returned more often than requested; {}", e, c, a, ctx));
        }
        for (k, g) in got_status.iter().enumerate() {
            if !used[k] && !is_sys(g.ep.unwrap_or(0), g.cl.unwrap_or(0)) {
                let cause = j.proxy_cause(&before, &r, g.ep.unwrap_or(0), g.cl.unwrap_or(0));
                j.viol("concrete-status", &format!("unexpected-status{}", cause), format!("status item {:?} not expected; {}", g, ctx));
            }
        }
        // order per request path (observation only)
        if missing.is_empty() && extra.is_empty() {
            let mut pos = 0usize;
            let seq: Vec<&AttrItem> = attrs.iter().filter(|i| !is_sys(i.ep.unwrap_or(0), i.cl.unwrap_or(0))).collect();
            let mut ok = true;
            for p in &exp {
                let n = p.items.iter().filter(|i| match i {
                    Expect::Data { ep, cl, .. } => !is_sys(*ep, *cl),
                    _ => true,
                }).count();
                for it in seq.iter().skip(pos).take(n) {
                    let key = (it.ep.unwrap_or(0), it.cl.unwrap_or(0), it.attr.unwrap_or(0));
                    let belongs = p.items.iter().any(|x| match x {
                        Expect::Data { ep, cl, leaf } => (*ep, *cl, *leaf) == key,
                        Expect::Status { path, .. } => (path.ep, path.cl, path.leaf) == (it.ep, it.cl, it.attr),
                        _ => false,
                    });
                    if !belongs {
                        ok = false;
                    }
                }
                pos += n;
            }
            if !ok {
                j.rep.note("answer-items-not-grouped-in-request-path-order");
            } else {
                j.rep.count("order-per-request-path-ok");
            }
        }
    }
    j.outcome.insert(format!("data{}", got_data.len().min(3)));
}

#[allow(clippy::too_many_arguments)]
fn judge_act(j: &mut J<'_>, si: usize, step: &Step, so: &StepOut) {
    let (sess, timed_flag, timed_req, delay_ms, is_write) = match step {
        Step::Write { sess, timed_flag, timed_req, delay_ms, .. } => (*sess, *timed_flag, *timed_req, *delay_ms, true),
        Step::Invoke { sess, timed_flag, timed_req, delay_ms, .. } => (*sess, *timed_flag, *timed_req, *delay_ms, false),
        _ => return,
    };
    if matches!(step, Step::Write { chunks: Some(_), .. }) {
        return judge_chunked_write(j, si, step, so);
    }
    let r = j.cfg.requesters[sess].clone();
    let snap = so.snap.as_ref().unwrap();
    let node = snap.spec.clone();
    let ctx = describe(j, si, step, &r);
    let op = if is_write { Op::Write } else { Op::Invoke };
    let opname = if is_write { "write" } else { "invoke" };
    j.rep.count(&format!("requester:{}", r.kind));
    j.rep.count(&format!("op:{}", opname));

    let mismatch = timed_flag != timed_req.is_some();
    let expired = !mismatch && timed_req.map(|t| delay_ms > t as u64 + 100).unwrap_or(false);
    let borderline = timed_req.map(|t| delay_ms + 100 > t as u64 && delay_ms <= t as u64 + 100).unwrap_or(false);
    let timed_live = timed_flag && !mismatch && !expired;
    j.rep.count(if timed_req.is_some() || timed_flag { "timed" } else { "untimed" });

    // --- safety half
    let permitted: BTreeSet<(u16, u32, u32)> = im_ref::permitted_set(&node, &j.acl, &r, op).into_iter().collect();
    let mut ok_calls: Vec<(u16, u32, u32, u64, ListIdx)> = Vec::new();
    for c in &so.calls {
        let same_op = matches!((c.op, is_write), (CallOp::Write, true) | (CallOp::Invoke, false));
        if c.op == CallOp::Read {
            j.rep.note("read-call-during-write-or-invoke");
            continue;
        }
        if !same_op {
            j.viol("call-log", "wrong-operation", format!("{:?} call during a {}: {:?}; {}", c.op, opname, c, ctx));
            continue;
        }
        j.rep.count(&format!("handler_{}_calls", opname));
        if mismatch || (expired && !borderline) {
            j.viol(
                "timed",
                &format!("{}-acted-{}", opname, if mismatch { "despite-timed-mismatch" } else { "after-timed-window-expired" }),
                format!("handler call {:#x}/{:#x}/{:#x} although the interaction must be refused as a whole; {}", c.ep, c.cl, c.leaf, ctx),
            );
        }
        if !permitted.contains(&(c.ep, c.cl, c.leaf)) {
            j.viol(
                "call-log",
                &format!("{}-call-outside-permitted", opname),
                format!("the handler was asked to {} {:#x}/{:#x}/{:#x}, which is absent or not permitted for the requester; {}", opname, c.ep, c.cl, c.leaf, ctx),
            );
        }
        let info = im_ref::element_info(&node, &j.acl, &r, op, c.ep, c.cl, c.leaf);
        if info.exists && info.timed_only && !timed_live && !borderline {
            j.viol(
                "timed",
                &format!("timed-only-{}-without-live-timed-window", opname),
                format!("{:#x}/{:#x}/{:#x} is timed-only (access {:#x}) but acted outside a live timed interaction; {}", c.ep, c.cl, c.leaf, info.access, ctx),
            );
        }
        if !is_write && info.exists && info.fab_scoped && r.fab_idx == 0 {
            j.viol(
                "fabric-scoped",
                "fabric-scoped-command-executed-without-fabric",
                format!("{:#x}/{:#x}/{:#x} is fabric-scoped (access {:#x}) but executed for a requester without a fabric; {}", c.ep, c.cl, c.leaf, info.access, ctx),
            );
        }
        if c.result.is_ok() {
            ok_calls.push((c.ep, c.cl, c.leaf, c.data_hash, c.list_index));
        }
    }

    if r.auth == Some(Auth::Group) {
        // Group message: nothing comes back; the oracle is the call log alone.
        if let Some(e) = &so.err {
            j.rep.note(&format!("group-{}-not-sent:{}", opname, e));
            return;
        }
        if !so.msgs.is_empty() {
            j.rep.note("answer-to-a-group-message");
        }
        let dv = |e: u16, c: u32| snap.dataver(e, c);
        let actx = im_ref::ActCtx { node: &node, acl: &j.acl, requester: &r, timed_live: false, current_dataver: &dv };
        let mut exp_calls: Vec<(u16, u32, u32, u64)> = Vec::new();
        let mut any_open = false;
        match step {
            Step::Write { items, .. } => {
                for w in items {
                    if w.data_ver.is_some() {
                        any_open = true;
                    }
                    let pe = im_ref::expand_write(&actx, core::slice::from_ref(w)).remove(0);
                    any_open |= pe.open.is_some();
                    for it in pe.items {
                        if let Expect::Done { ep, cl, leaf } = it {
                            exp_calls.push((ep, cl, leaf, im_ref::val_hash(&w.data)));
                        }
                    }
                }
            }
            Step::Invoke { items, .. } => {
                for (w, pe) in items.iter().zip(im_ref::expand_invoke(&actx, items)) {
                    any_open |= pe.open.map(|o| o != "invoke-with-wildcard-endpoint").unwrap_or(false);
                    for it in pe.items {
                        if let Expect::Done { ep, cl, leaf } = it {
                            exp_calls.push((ep, cl, leaf, im_ref::val_hash(&w.data)));
                        }
                    }
                }
                // multi-invoke rules (unique refs / paths) may void the whole message
                if items.len() > 1 {
                    any_open = true;
                }
            }
            _ => {}
        }
        if any_open {
            j.rep.note("open-outcome:group-message");
            return;
        }
        let (missing, extra) = im_ref::multiset_diff(&exp_calls, &ok_calls.iter().map(|c| (c.0, c.1, c.2, c.3)).collect::<Vec<_>>());
        j.rep.count_n(&format!("granted:group-{}", opname), (exp_calls.len() - missing.len()) as u64);
        if exp_calls.is_empty() && ok_calls.is_empty() {
            j.rep.count(&format!("denied:group-{}-no-effect", opname));
        }
        for m in missing {
            j.viol("effect", &format!("permitted-group-{}-not-applied", opname), format!("no successful handler {} of {:#x}/{:#x}/{:#x} (group members {:?}); {}", opname, m.0, m.1, m.2, r.group_endpoints, ctx));
        }
        for m in extra {
            j.viol("effect", &format!("group-{}-applied-outside-permitted", opname), format!("handler {} of {:#x}/{:#x}/{:#x} not warranted (group members {:?}); {}", opname, m.0, m.1, m.2, r.group_endpoints, ctx));
        }
        j.outcome.insert(format!("group{}", ok_calls.len().min(2)));
        return;
    }

    if let Some(e) = &so.err {
        j.rep.note(&format!("{}-no-complete-answer:{}", opname, e));
        j.outcome.insert("no-answer".into());
        return;
    }
    if let Some(ts) = so.timed_status {
        if ts != 0 {
            j.rep.note(&format!("timed-request-refused:{:#x}", ts));
            return;
        }
    }

    // --- top-level outcome
    if so.via_client {
        j.rep.count("driven-via-public-im-client");
    }
    let top = top_status(so);
    let n_items = match step {
        Step::Write { items, .. } => items.len(),
        Step::Invoke { items, .. } => items.len(),
        _ => 0,
    };
    if mismatch || expired {
        let want = if mismatch { Class::TimedMismatch } else { Class::Timeout };
        match top {
            Some(code) if class_of(code) == want => {
                j.rep.count(&format!("denied:{}/{:?}", opname, want));
                j.outcome.insert(format!("top:{:?}", want));
            }
            Some(code) if borderline => {
                j.rep.note(&format!("borderline-timed-window-status-{:#x}", code));
            }
            other => {
                if !borderline {
                    j.viol(
                        "timed",
                        &format!("{}-expected-{:?}", opname, want),
                        format!("expected a {:?} status for the whole interaction, got {:?} (opcode {:?}); {}", want, other, so.msgs.last().map(|m| m.opcode), ctx),
                    );
                }
            }
        }
        return;
    }
    if let Some(code) = top {
        let cl = class_of(code);
        j.outcome.insert(format!("top:{:?}", cl));
        // multi-invoke validity rules may refuse the whole request
        let invalid_multi = !is_write && {
            let Step::Invoke { items, .. } = step else { unreachable!() };
            items.len() > 1
                && (items.iter().any(|i| i.cmd_ref.is_none())
                    || (0..items.len()).any(|a| (a + 1..items.len()).any(|b| items[a].path == items[b].path || items[a].cmd_ref == items[b].cmd_ref)))
        };
        if invalid_multi && cl == Class::Invalid {
            j.rep.count("denied:invoke/invalid-multi-invoke");
            if !ok_calls.is_empty() {
                j.viol("invalid-action", "effect-despite-invalid-action", format!("handler calls {:?} although the request was refused as invalid; {}", ok_calls, ctx));
            }
            return;
        }
        if borderline && matches!(cl, Class::Timeout) {
            j.rep.note("borderline-timed-window-timeout");
            return;
        }
        j.viol(&format!("{}-top-status", opname), &format!("{:?}", cl), format!("a valid {} of {} item(s) was answered with a bare status {:#x}; {}", opname, n_items, code, ctx));
        return;
    }

    // --- per item expectations
    let last = so.msgs.last();
    let mut dvmap: std::collections::HashMap<(u16, u32), u32> = std::collections::HashMap::new();
    if is_write {
        let Step::Write { items, .. } = step else { unreachable!() };
        let got = if let Some(g) = &so.client_write {
            g.clone()
        } else {
            let Some(m) = last.filter(|m| m.opcode == OP_WRITE_RESP) else {
                j.viol("decode", "write-unexpected-opcode", format!("answer opcode {:?}; {}", last.map(|m| m.opcode), ctx));
                return;
            };
            match Tlv::parse_strict(&m.payload).and_then(|t| im_ref::decode_write_resp(&t)) {
                Ok(g) => g,
                Err(e) => {
                    j.viol("decode", "malformed-write-response", format!("{}; {}", e, ctx));
                    return;
                }
            }
        };
        judge_write_items(j, &node, snap, &r, &ctx, items, &got, &ok_calls, timed_live, &mut dvmap);
    } else {
        let Step::Invoke { items, .. } = step else { unreachable!() };
        let resp = if let Some(g) = &so.client_invoke {
            g.clone()
        } else {
            let Some(m) = last.filter(|m| m.opcode == OP_INVOKE_RESP) else {
                j.viol("decode", "invoke-unexpected-opcode", format!("answer opcode {:?}; {}", last.map(|m| m.opcode), ctx));
                return;
            };
            match Tlv::parse_strict(&m.payload).and_then(|t| im_ref::decode_invoke_resp(&t)) {
                Ok(g) => g,
                Err(e) => {
                    j.viol("decode", "malformed-invoke-response", format!("{}; {}", e, ctx));
                    return;
                }
            }
        };
        let got = resp.items.unwrap_or_default();
        let mut used = vec![false; got.len()];
        let dv = |e: u16, c: u32| snap.dataver(e, c);
        let actx = im_ref::ActCtx { node: &node, acl: &j.acl, requester: &r, timed_live, current_dataver: &dv };
        let exp = im_ref::expand_invoke(&actx, items);
        let mut exp_calls: Vec<(u16, u32, u32, u64)> = Vec::new();
        let mut any_open = false;
        for (w, pe) in items.iter().zip(exp.iter()) {
            j.rep.count(if w.path.is_wildcard() { "path:wildcard" } else { "path:concrete" });
            if let Some(o) = pe.open {
                j.rep.note(&format!("open-outcome:{}", o));
                any_open = true;
                continue;
            }
            for it in &pe.items {
                match it {
                    Expect::Done { ep, cl, leaf } => {
                        exp_calls.push((*ep, *cl, *leaf, im_ref::val_hash(&w.data)));
                        let resp_id = node.cluster(*ep, *cl).and_then(|c| c.cmd(*leaf)).and_then(|c| c.resp_id);
                        let hit = got.iter().enumerate().position(|(k, g)| {
                            !used[k]
                                && g.ep == Some(*ep)
                                && g.cl == Some(*cl)
                                && match (&g.kind, resp_id) {
                                    (CmdKind::Data { .. }, Some(rid)) => g.cmd == Some(rid),
                                    (CmdKind::Status { code: 0 }, None) => g.cmd == Some(*leaf),
                                    _ => false,
                                }
                        });
                        match hit {
                            Some(k) => {
                                used[k] = true;
                                j.rep.count("granted:invoke");
                                if node.cluster(*ep, *cl).and_then(|c| c.cmd(*leaf)).map(|c| c.access & acc::TIMED_ONLY != 0).unwrap_or(false) {
                                    j.rep.count("granted:timed-only-element-acted-inside-live-window");
                                }
                                j.outcome.insert("ok".into());
                                if got[k].cmd_ref != w.cmd_ref {
                                    j.rep.note("command-ref-not-echoed");
                                }
                            }
                            None => {
                                let st: Vec<String> = got.iter().filter(|g| g.ep == Some(*ep) && g.cl == Some(*cl)).map(|g| format!("{:?}/{:?}", g.cmd, g.kind)).collect();
                                j.viol("invoke-status", "permitted-invoke-not-answered", format!("{:#x}/{:#x}/{:#x} exists and is permitted (timed_live={}) but the answer holds {:?}; {}", ep, cl, leaf, timed_live, st, ctx));
                            }
                        }
                    }
                    Expect::Status { path, allowed, primary, .. } => {
                        let hit = got.iter().enumerate().position(|(k, g)| {
                            let CmdKind::Status { code } = g.kind else { return false };
                            !used[k] && g.ep == path.ep && g.cl == path.cl && g.cmd == path.leaf && allowed.contains(&class_of(code))
                        });
                        match hit {
                            Some(k) => {
                                used[k] = true;
                                let CmdKind::Status { code } = got[k].kind else { unreachable!() };
                                let cl = class_of(code);
                                j.rep.count(&format!("denied:invoke/{:?}", cl));
                                if let (Some(e), Some(c), Some(l)) = (path.ep, path.cl, path.leaf) {
                                    let info = im_ref::element_info(&node, &j.acl, &r, Op::Invoke, e, c, l);
                                    if info.exists && info.fab_scoped && r.fab_idx == 0 && cl == Class::Access {
                                        j.rep.count("denied:invoke/fabric-scoped-command-for-fabric-less-requester");
                                    }
                                }
                                j.outcome.insert(format!("st:{:?}", cl));
                                if cl != *primary {
                                    j.rep.note(&format!("invoke-status-class-{:?}-where-rules-name-{:?}-first", cl, primary));
                                }
                            }
                            None => {
                                let st: Vec<String> = got.iter().filter(|g| g.ep == path.ep && g.cl == path.cl).map(|g| format!("{:?}/{:?}", g.cmd, g.kind)).collect();
                                j.viol("invoke-status", &format!("expected-{:?}", primary), format!("invoke of {} must be refused with one of {:?}; answer items for the cluster: {:?}; {}", path.show(), allowed, st, ctx));
                            }
                        }
                    }
                    _ => {}
                }
            }
        }
        if !any_open {
            for (k, g) in got.iter().enumerate() {
                if !used[k] {
                    j.viol("invoke-status", "unexpected-item", format!("answer item {:?} not expected; {}", g, ctx));
                }
            }
            let (missing, extra) = im_ref::multiset_diff(&exp_calls, &ok_calls.iter().map(|c| (c.0, c.1, c.2, c.3)).collect::<Vec<_>>());
            for m in missing {
                j.viol("effect", "permitted-invoke-not-executed", format!("no successful handler invoke of {:#x}/{:#x}/{:#x}; {}", m.0, m.1, m.2, ctx));
            }
            for m in extra {
                j.viol("effect", "invoke-executed-for-refused-or-absent-path", format!("handler invoke of {:#x}/{:#x}/{:#x} without a corresponding permitted request item; {}", m.0, m.1, m.2, ctx));
            }
        }
    }
}

/// Does the timed window cover every message of a chunked write, or only the arrival of the
/// first one? The Matter rules let the TimedRequest time-out bound "the following action";
/// whether the later WriteRequest messages of the same interaction are bound by it too is not
/// settled by the statement. With `false` a later chunk that is sent after the window has
/// elapsed is left open between "refused as a whole with a TIMEOUT status (and no effect)" and
/// "processed inside the timed interaction"; with `true` only the first is accepted.
pub const TIMED_WINDOW_COVERS_EVERY_CHUNK: bool = false;

enum ChunkExp {
    /// The message must be refused as a whole: one bare status of these classes, no handler call.
    Refuse(Vec<Class>, &'static str),
    /// The message must be answered by a WriteResponse; items judged under this timed state.
    Process(bool),
    /// Open: refused as a whole with TIMEOUT, or processed inside the timed interaction.
    TimeoutOrProcess(&'static str),
    /// Open: a message sent after the interaction was refused.
    AfterRefusal,
}

/// Chunked write: the items travel in several WriteRequest messages on one exchange (all but the
/// last with MoreChunkedMessages=true), each answered on its own. Every message is judged like
/// a single-message write under the interaction's REAL timed state: its TimedRequest flag must
/// agree with the existence of a timed interaction (else TIMED_REQUEST_MISMATCH for the whole
/// message and no effect), a first message after the window's end is refused with TIMEOUT, and
/// a timed-only attribute is written only by a message that carries the flag inside a timed
/// interaction that really exists.
fn judge_chunked_write(j: &mut J<'_>, si: usize, step: &Step, so: &StepOut) {
    let Step::Write { sess, items, timed_req, chunks: Some(plan), .. } = step else { return };
    let r = j.cfg.requesters[*sess].clone();
    let snap = so.snap.as_ref().unwrap();
    let node = snap.spec.clone();
    let n = plan.sizes.len();
    let mut ctx = describe(j, si, step, &r);
    j.rep.count(&format!("requester:{}", r.kind));
    j.rep.count("op:write");
    j.rep.count(if timed_req.is_some() || plan.flags.iter().any(|f| *f) { "timed" } else { "untimed" });

    // --- which calls belong to which message (message k+1 leaves after the answer to k arrived)
    let calls_of = |k: usize| -> Vec<&probe_dm::Call> {
        let lo = if k == 0 { 0 } else { so.chunk_io.get(k).map(|c| c.t_send).unwrap_or(u64::MAX) };
        let hi = so.chunk_io.get(k + 1).map(|c| c.t_send).unwrap_or(u64::MAX);
        so.calls.iter().filter(|c| c.t >= lo && c.t < hi).collect()
    };
    let elapsed_ms = |k: usize| -> Option<u64> {
        match (so.timed_t, so.chunk_io.get(k)) {
            (Some(t0), Some(io)) => Some(io.t_send.saturating_sub(t0) / 1000),
            _ => None,
        }
    };
    let answer = |io: &super::c06_world::ChunkIo| -> String {
        match (&io.msg, &io.err) {
            (Some(m), _) if m.opcode == OP_STATUS => format!(
                "StatusResponse({})",
                Tlv::parse_strict(&m.payload).ok().and_then(|t| im_ref::decode_status_resp(&t).ok()).map(|c| format!("{:#x}", c)).unwrap_or("?".into())
            ),
            (Some(m), _) if m.opcode == OP_WRITE_RESP => format!(
                "WriteResponse{:?}",
                Tlv::parse_strict(&m.payload)
                    .and_then(|t| im_ref::decode_write_resp(&t))
                    .map(|v| v.iter().map(|g| format!("{:#x}/{:#x}/{:#x}:{}", g.ep.unwrap_or(0xffff), g.cl.unwrap_or(0), g.attr.unwrap_or(0), match g.kind { ItemKind::Status { code, .. } => format!("{:#x}", code), _ => "data".into() })).collect::<Vec<_>>())
                    .unwrap_or_default()
            ),
            (Some(m), _) => format!("opcode {}", m.opcode),
            (None, e) => format!("no answer ({:?})", e),
        }
    };
    {
        let mut trace: Vec<String> = Vec::new();
        let mut start = 0usize;
        for k in 0..n {
            let its: Vec<String> = items[start..(start + plan.sizes[k]).min(items.len())].iter().map(|w| w.path.show()).collect();
            start += plan.sizes[k];
            let Some(io) = so.chunk_io.get(k) else {
                trace.push(format!("#{} not sent", k));
                continue;
            };
            trace.push(format!(
                "#{} TimedRequest={} MoreChunkedMessages={} items {:?} sent {} -> {}; handler writes {:?}",
                k,
                plan.flags[k],
                k + 1 < n,
                its,
                elapsed_ms(k).map(|e| format!("{} ms after the TimedRequest was acknowledged", e)).unwrap_or("(no TimedRequest)".into()),
                answer(io),
                calls_of(k).iter().filter(|c| c.op == CallOp::Write).map(|c| format!("{:#x}/{:#x}/{:#x}:{}", c.ep, c.cl, c.leaf, if c.result.is_ok() { "ok" } else { "err" })).collect::<Vec<_>>()
            ));
        }
        ctx = format!("chunked write, TimedRequest message: {:?}, messages: [{}]; {}", timed_req.map(|t| format!("{} ms", t)), trace.join(" | "), ctx);
    }

    if std::env::var("RSMV_DEBUG_CHUNKED").is_ok() {
        eprintln!("CHUNKED {} {}", j.replay, ctx);
    }

    // --- safety half over the whole step: only writes, only inside the permitted set
    let permitted: BTreeSet<(u16, u32, u32)> = im_ref::permitted_set(&node, &j.acl, &r, Op::Write).into_iter().collect();
    for c in &so.calls {
        if c.op == CallOp::Read {
            j.rep.note("read-call-during-write-or-invoke");
            continue;
        }
        if c.op != CallOp::Write {
            j.viol("call-log", "wrong-operation", format!("{:?} call during a write: {:?}; {}", c.op, c, ctx));
            continue;
        }
        j.rep.count("handler_write_calls");
        if !permitted.contains(&(c.ep, c.cl, c.leaf)) {
            j.viol(
                "call-log",
                "write-call-outside-permitted",
                format!("the handler was asked to write {:#x}/{:#x}/{:#x}, which is absent or not permitted for the requester; {}", c.ep, c.cl, c.leaf, ctx),
            );
        }
    }

    if let Some(ts) = so.timed_status {
        if ts != 0 {
            j.rep.note(&format!("timed-request-refused:{:#x}", ts));
            return;
        }
    }
    if so.chunk_io.is_empty() {
        j.rep.note(&format!("write-no-complete-answer:{}", so.err.clone().unwrap_or_default()));
        j.outcome.insert("no-answer".into());
        return;
    }
    j.rep.count("chunked_writes");
    let timed_ok = timed_req.is_some() && so.timed_status == Some(0);
    let tmo = timed_req.unwrap_or(0) as u64;

    let mut dvmap: std::collections::HashMap<(u16, u32), u32> = std::collections::HashMap::new();
    let mut refused_before = false;
    let mut all_acked = true;
    let mut any_open = false;
    let mut exp_seq: Vec<(u16, u32, u32, u64, ListIdx)> = Vec::new();
    let mut start = 0usize;
    for k in 0..n {
        let chunk_items = &items[start..(start + plan.sizes[k]).min(items.len())];
        start += plan.sizes[k];
        let Some(io) = so.chunk_io.get(k) else { break };
        let flag = plan.flags[k];
        let kcls = if k == 0 { "first-message" } else { "later-message" };
        let tcls = match (timed_ok, flag) {
            (false, true) => "flag-set-without-timed-request",
            (true, false) => "flag-clear-inside-timed-interaction",
            (true, true) => "timed",
            (false, false) => "untimed",
        };
        let el = elapsed_ms(k).unwrap_or(0);
        let live_sure = timed_ok && el + 100 <= tmo;
        let expired_sure = timed_ok && el > tmo + 100;
        let mismatch = flag != timed_ok;

        let exp = if refused_before {
            ChunkExp::AfterRefusal
        } else if mismatch {
            let mut allowed = vec![Class::TimedMismatch];
            if timed_ok && !live_sure {
                allowed.push(Class::Timeout);
            }
            ChunkExp::Refuse(allowed, "timed-mismatch")
        } else if !timed_ok {
            ChunkExp::Process(false)
        } else if live_sure {
            ChunkExp::Process(true)
        } else if expired_sure && (k == 0 || TIMED_WINDOW_COVERS_EVERY_CHUNK) {
            ChunkExp::Refuse(vec![Class::Timeout], "timed-window-expired")
        } else if expired_sure {
            ChunkExp::TimeoutOrProcess("later-message-after-the-timed-window-elapsed")
        } else {
            ChunkExp::TimeoutOrProcess("borderline-timed-window")
        };

        // --- what this message is about (counted once it was really sent and answered)
        if io.msg.is_some() {
            j.rep.count("chunked_write_messages");
            if k > 0 && !refused_before {
                if flag != plan.flags[0] {
                    j.rep.count("chunked_write_later_chunk_timed_flag_deviates");
                }
                if !timed_ok && flag {
                    j.rep.count("chunked_write_without_timed_request_but_flag_set");
                }
                if timed_ok && !flag {
                    j.rep.count("chunked_write_flag_clear_in_later_chunk_of_timed_interaction");
                }
                if timed_ok && flag && expired_sure {
                    j.rep.count("chunked_write_window_expired_between_chunks");
                }
            }
            if matches!(exp, ChunkExp::Refuse(..)) {
                // would any item have acted had the message been taken at its word?
                let dv = |e: u16, c: u32| dvmap.get(&(e, c)).copied().unwrap_or_else(|| snap.dataver(e, c));
                let actx = im_ref::ActCtx { node: &node, acl: &j.acl, requester: &r, timed_live: flag, current_dataver: &dv };
                let mut acting = false;
                let mut acting_timed_only = false;
                for pe in im_ref::expand_write(&actx, chunk_items) {
                    for it in pe.items {
                        if let Expect::Done { ep, cl, leaf } = it {
                            acting = true;
                            acting_timed_only |= node.attr(ep, cl, leaf).map(|a| a.access & acc::TIMED_ONLY != 0).unwrap_or(false);
                        }
                    }
                }
                if acting {
                    j.rep.count(if k == 0 { "chunked_write_refused_first_chunk_holds_permitted_item" } else { "chunked_write_refused_later_chunk_holds_permitted_item" });
                }
                if acting_timed_only && k > 0 {
                    j.rep.count("chunked_write_refused_later_chunk_holds_permitted_timed_only_item");
                }
            }
        }

        // --- safety half per message
        let calls: Vec<&probe_dm::Call> = calls_of(k).into_iter().filter(|c| c.op == CallOp::Write).collect();
        let timed_live_for_calls = match &exp {
            ChunkExp::Process(tl) => *tl,
            ChunkExp::TimeoutOrProcess(_) => true,
            ChunkExp::Refuse(..) | ChunkExp::AfterRefusal => false,
        };
        for c in &calls {
            if let ChunkExp::Refuse(_, why) = &exp {
                j.viol(
                    "timed",
                    &format!("chunked-write-acted-despite-{}/{}/{}", why, kcls, tcls),
                    format!("handler write {:#x}/{:#x}/{:#x} while message #{} must be refused as a whole; {}", c.ep, c.cl, c.leaf, k, ctx),
                );
            }
            let info = im_ref::element_info(&node, &j.acl, &r, Op::Write, c.ep, c.cl, c.leaf);
            if info.exists && info.timed_only && !timed_live_for_calls {
                j.viol(
                    "timed",
                    &format!("timed-only-write-without-live-timed-window/chunked/{}/{}", kcls, if refused_before { "after-refused-message" } else { tcls }),
                    format!(
                        "{:#x}/{:#x}/{:#x} is timed-only (access {:#x}) but was written by message #{} outside a live timed interaction (timed interaction exists: {}, message flag: {}, interaction already refused: {}); {}",
                        c.ep, c.cl, c.leaf, info.access, k, timed_ok, flag, refused_before, ctx
                    ),
                );
            }
        }
        let ok_calls: Vec<(u16, u32, u32, u64, ListIdx)> = calls.iter().filter(|c| c.result.is_ok()).map(|c| (c.ep, c.cl, c.leaf, c.data_hash, c.list_index)).collect();

        // --- the answer
        let Some(m) = &io.msg else {
            if matches!(exp, ChunkExp::AfterRefusal) {
                // the interaction was over: silence is one of the open outcomes
                j.rep.count("chunked_write_messages_sent_after_refusal");
                j.rep.note(&format!("open-outcome:message-after-refused-message:no-answer({})", io.err.clone().unwrap_or_default()));
                j.outcome.insert("after-refusal:no-answer".into());
            } else {
                j.rep.note(&format!("write-no-complete-answer:{}", io.err.clone().unwrap_or_default()));
                j.outcome.insert("no-answer".into());
            }
            return;
        };
        let top: Option<u16> = if m.opcode == OP_STATUS { Tlv::parse_strict(&m.payload).ok().and_then(|t| im_ref::decode_status_resp(&t).ok()) } else { None };
        let got: Option<Vec<AttrItem>> = if m.opcode == OP_WRITE_RESP {
            match Tlv::parse_strict(&m.payload).and_then(|t| im_ref::decode_write_resp(&t)) {
                Ok(g) => Some(g),
                Err(e) => {
                    j.viol("decode", "malformed-write-response", format!("message #{}: {}; {}", k, e, ctx));
                    return;
                }
            }
        } else {
            None
        };
        if top.is_none() && got.is_none() {
            if matches!(exp, ChunkExp::AfterRefusal) {
                j.rep.note(&format!("open-outcome:message-after-refused-message-answered-with-opcode-{}", m.opcode));
                continue;
            }
            j.viol("decode", "write-unexpected-opcode", format!("message #{} answered with opcode {}; {}", k, m.opcode, ctx));
            return;
        }
        if got.is_none() {
            all_acked = false;
        }
        match exp {
            ChunkExp::AfterRefusal => {
                any_open = true;
                j.rep.count("chunked_write_messages_sent_after_refusal");
                j.rep.note(&format!(
                    "open-outcome:message-after-refused-message:{}",
                    match top {
                        Some(c) => format!("status-{:?}", class_of(c)),
                        None => "write-response".into(),
                    }
                ));
                j.outcome.insert("after-refusal".into());
            }
            ChunkExp::Refuse(allowed, why) => match top {
                Some(code) if allowed.contains(&class_of(code)) => {
                    j.rep.count(&format!("denied:write/{:?}", class_of(code)));
                    j.rep.count(&format!("denied:chunked-write/{}/{:?}", kcls, class_of(code)));
                    j.outcome.insert(format!("c{}:top:{:?}", k.min(1), class_of(code)));
                    refused_before = true;
                }
                other => {
                    j.viol(
                        "timed",
                        &format!("chunked-write-expected-{:?}/{}/{}", allowed[0], kcls, tcls),
                        format!(
                            "message #{} ({}: TimedRequest flag {}, timed interaction exists: {}) must be refused as a whole with one of {:?}, got {}; {}",
                            k,
                            why,
                            flag,
                            timed_ok,
                            allowed,
                            match other {
                                Some(c) => format!("status {:#x}", c),
                                None => "a WriteResponse".into(),
                            },
                            ctx
                        ),
                    );
                    return;
                }
            },
            ChunkExp::Process(tl) => match (top, got) {
                (Some(code), _) => {
                    j.outcome.insert(format!("c{}:top:{:?}", k.min(1), class_of(code)));
                    j.viol(
                        "write-top-status",
                        &format!("chunked/{}/{:?}", kcls, class_of(code)),
                        format!("message #{} of a valid chunked write ({} item(s), {}) was answered with a bare status {:#x}; {}", k, chunk_items.len(), tcls, code, ctx),
                    );
                    return;
                }
                (None, Some(got)) => {
                    let (e, o) = judge_write_items(j, &node, snap, &r, &ctx, chunk_items, &got, &ok_calls, tl, &mut dvmap);
                    j.rep.count_n("granted:chunked-write", e.len() as u64);
                    exp_seq.extend(e);
                    any_open |= o;
                }
                _ => unreachable!(),
            },
            ChunkExp::TimeoutOrProcess(what) => match (top, got) {
                (Some(code), _) if class_of(code) == Class::Timeout => {
                    j.rep.note(&format!("open-outcome:{}:refused-with-timeout", what));
                    j.rep.count(&format!("denied:chunked-write/{}/Timeout", kcls));
                    j.outcome.insert(format!("c{}:top:Timeout", k.min(1)));
                    refused_before = true;
                    if !calls.is_empty() {
                        j.viol(
                            "timed",
                            &format!("chunked-write-acted-although-answered-with-timeout/{}", kcls),
                            format!("message #{} was answered with TIMEOUT for the whole message but the handler was asked to write {:?}; {}", k, ok_calls, ctx),
                        );
                    }
                }
                (Some(code), _) => {
                    j.viol(
                        "write-top-status",
                        &format!("chunked/{}/{:?}", kcls, class_of(code)),
                        format!("message #{} ({}) may be refused with TIMEOUT or be processed, but was answered with a bare status {:#x}; {}", k, what, code, ctx),
                    );
                    return;
                }
                (None, Some(got)) => {
                    j.rep.note(&format!("open-outcome:{}:processed", what));
                    let (e, o) = judge_write_items(j, &node, snap, &r, &ctx, chunk_items, &got, &ok_calls, true, &mut dvmap);
                    exp_seq.extend(e);
                    any_open |= o;
                }
                _ => unreachable!(),
            },
        }
    }
    if all_acked && so.chunk_io.len() == n {
        j.rep.count("chunked_write_all_messages_acknowledged");
    }

    // --- lists written across messages (replace-all first, appended items later): the final
    // value is the fold of the applied writes in the order of the request
    if !any_open {
        let mut keys: Vec<(u16, u32, u32)> = exp_seq.iter().filter(|e| e.4 == ListIdx::Null).map(|e| (e.0, e.1, e.2)).collect();
        keys.sort();
        keys.dedup();
        for key in keys {
            let want: Vec<(u64, ListIdx)> = exp_seq.iter().filter(|e| (e.0, e.1, e.2) == key).map(|e| (e.3, e.4)).collect();
            let have: Vec<(u64, ListIdx)> = so
                .calls
                .iter()
                .filter(|c| c.op == CallOp::Write && c.result.is_ok() && (c.ep, c.cl, c.leaf) == key)
                .map(|c| (c.data_hash, c.list_index))
                .collect();
            j.rep.count("chunked_list_write_final_value_checked");
            if want.iter().any(|w| w.1 == ListIdx::Absent) {
                j.rep.count("chunked_list_write_replace_then_append");
            }
            if want != have {
                j.viol(
                    "list-write",
                    "chunked-list-final-value-differs",
                    format!(
                        "list attribute {:#x}/{:#x}/{:#x}: the applied writes (value hash, list index) {:x?} differ in content or order from the requested ones {:x?}, so the final list value differs; {}",
                        key.0, key.1, key.2, have, want, ctx
                    ),
                );
            }
        }
    }
}

/// Per-item half of the write oracle for one WriteRequest message: every item gets the status
/// class the reference names under `timed_live`, permitted writes are acknowledged and applied
/// exactly once, nothing else is applied. `dvmap` carries the cluster data versions forward
/// (one bump per applied write). Returns the expected successful handler writes in item order
/// and whether an item's outcome was left open.
#[allow(clippy::too_many_arguments)]
fn judge_write_items(
    j: &mut J<'_>,
    node: &Rc<NodeSpec>,
    snap: &probe_dm::ProbeSnap,
    r: &Requester,
    ctx: &str,
    items: &[WriteItem],
    got: &[AttrItem],
    ok_calls: &[(u16, u32, u32, u64, ListIdx)],
    timed_live: bool,
    dvmap: &mut std::collections::HashMap<(u16, u32), u32>,
) -> (Vec<(u16, u32, u32, u64, ListIdx)>, bool) {
    let mut used = vec![false; got.len()];
    let mut exp_calls: Vec<(u16, u32, u32, u64, ListIdx)> = Vec::new();
    let mut any_open = false;
    for w in items {
        j.rep.count(if w.path.is_wildcard() { "path:wildcard" } else { "path:concrete" });
        let dv = |e: u16, c: u32| dvmap.get(&(e, c)).copied().unwrap_or_else(|| snap.dataver(e, c));
        let actx = im_ref::ActCtx { node: &node, acl: &j.acl, requester: &r, timed_live, current_dataver: &dv };
        let pe: PathExpect = im_ref::expand_write(&actx, core::slice::from_ref(w)).remove(0);
        if let Some(o) = pe.open {
            j.rep.note(&format!("open-outcome:{}", o));
            any_open = true;
            continue;
        }
        for it in &pe.items {
            match it {
                Expect::Done { ep, cl, leaf } => {
                    exp_calls.push((*ep, *cl, *leaf, im_ref::val_hash(&w.data), w.path.list_index));
                    let cur = dvmap.get(&(*ep, *cl)).copied().unwrap_or_else(|| snap.dataver(*ep, *cl));
                    dvmap.insert((*ep, *cl), cur.wrapping_add(1));
                    let hit = got.iter().enumerate().position(|(k, g)| {
                        !used[k] && g.ep == Some(*ep) && g.cl == Some(*cl) && g.attr == Some(*leaf) && matches!(g.kind, ItemKind::Status { code: 0, .. })
                    });
                    match hit {
                        Some(k) => {
                            used[k] = true;
                            j.rep.count("granted:write");
                            if node.attr(*ep, *cl, *leaf).map(|a| a.access & acc::TIMED_ONLY != 0).unwrap_or(false) {
                                j.rep.count("granted:timed-only-element-acted-inside-live-window");
                            }
                            j.outcome.insert("ok".into());
                        }
                        None => {
                            let st: Vec<String> = got.iter().filter(|g| g.ep == Some(*ep) && g.cl == Some(*cl) && g.attr == Some(*leaf)).map(|g| format!("{:?}", g.kind)).collect();
                            j.viol("write-status", "permitted-write-not-acknowledged", format!("{:#x}/{:#x}/{:#x} is writable and permitted (timed_live={}) but got {:?}; {}", ep, cl, leaf, timed_live, st, ctx));
                        }
                    }
                }
                Expect::Status { path, allowed, primary, .. } => {
                    let hit = got.iter().enumerate().position(|(k, g)| {
                        let ItemKind::Status { code, .. } = g.kind else { return false };
                        !used[k] && g.ep == path.ep && g.cl == path.cl && g.attr == path.leaf && allowed.contains(&class_of(code))
                    });
                    match hit {
                        Some(k) => {
                            used[k] = true;
                            let ItemKind::Status { code, .. } = got[k].kind else { unreachable!() };
                            let cl = class_of(code);
                            j.rep.count(&format!("denied:write/{:?}", cl));
                            j.outcome.insert(format!("st:{:?}", cl));
                            if cl != *primary {
                                j.rep.note(&format!("write-status-class-{:?}-where-rules-name-{:?}-first", cl, primary));
                            }
                        }
                        None => {
                            let st: Vec<String> = got.iter().filter(|g| g.ep == path.ep && g.cl == path.cl && g.attr == path.leaf).map(|g| format!("{:?}", g.kind)).collect();
                            j.viol("write-status", &format!("expected-{:?}", primary), format!("write to {} must be refused with one of {:?}; statuses for the path: {:?}; {}", path.show(), allowed, st, ctx));
                        }
                    }
                }
                _ => {}
            }
        }
    }
    if !any_open {
        for (k, g) in got.iter().enumerate() {
            if !used[k] {
                j.viol("write-status", "unexpected-status", format!("status {:?} not expected; {}", g, ctx));
            }
        }
        let (missing, extra) = im_ref::multiset_diff(
            &exp_calls.iter().map(|c| (c.0, c.1, c.2, c.3)).collect::<Vec<_>>(),
            &ok_calls.iter().map(|c| (c.0, c.1, c.2, c.3)).collect::<Vec<_>>(),
        );
        for m in missing {
            j.viol("effect", "permitted-write-not-applied", format!("no successful handler write of {:#x}/{:#x}/{:#x} with the requested value; {}", m.0, m.1, m.2, ctx));
        }
        for m in extra {
            j.viol("effect", "write-applied-for-refused-or-absent-path", format!("handler write of {:#x}/{:#x}/{:#x} (value hash {:x}) without a corresponding permitted request item; {}", m.0, m.1, m.2, m.3, ctx));
        }
    }
    (exp_calls, any_open)
}

fn step_shape(step: &Step) -> String {
    let ps = |p: &PathReq| p.shape();
    match step {
        Step::Read { req, swap_at_chunk, .. } => {
            let mut s: Vec<u8> = req.attr_paths.iter().flatten().map(ps).collect();
            s.sort();
            s.dedup();
            format!(
                "R{:?}e{}f{}d{}s{}",
                s,
                req.event_paths.as_ref().map(|p| p.len().min(2)).unwrap_or(0),
                req.fabric_filtered as u8,
                req.dataver_filters.is_some() as u8,
                swap_at_chunk.is_some() as u8
            )
        }
        Step::Write { items, timed_flag, timed_req, delay_ms, chunks, .. } => {
            let mut s: Vec<u8> = items.iter().map(|i| ps(&i.path)).collect();
            s.sort();
            s.dedup();
            // chunked: number of messages, the flag of each, where a long pause sits, list appends
            let c = match chunks {
                Some(p) => format!(
                    "c{}f{:?}g{:?}r{}l{}",
                    p.sizes.len(),
                    p.flags.iter().map(|f| *f as u8).collect::<Vec<_>>(),
                    p.gaps_ms.iter().skip(1).map(|g| (*g > 200) as u8).collect::<Vec<_>>(),
                    p.continue_after_refusal as u8,
                    items.iter().any(|i| i.path.list_index == ListIdx::Null) as u8
                ),
                None => String::new(),
            };
            format!("W{:?}n{}t{}{}{}{}", s, items.len().min(3), *timed_flag as u8, timed_req.is_some() as u8, (*delay_ms > 200) as u8, c)
        }
        Step::Invoke { items, timed_flag, timed_req, delay_ms, .. } => {
            let mut s: Vec<u8> = items.iter().map(|i| ps(&i.path)).collect();
            s.sort();
            s.dedup();
            format!("I{:?}n{}t{}{}{}", s, items.len().min(3), *timed_flag as u8, timed_req.is_some() as u8, (*delay_ms > 200) as u8)
        }
        _ => "x".into(),
    }
}

pub fn gen_run_judge(rep: &mut Report, seed: u64, thorough: bool, replay: serde_json::Value) -> Option<Case> {
    let mut case = None;
    let r = std::panic::catch_unwind(std::panic::AssertUnwindSafe(|| {
        let c = gen_case(seed, thorough);
        run_and_judge_inner(rep, &c, replay.clone());
        case = Some(c);
    }));
    if let Err(e) = r {
        let msg = crate::util::panic_msg(&e);
        rep.violation("harness", &format!("C06/harness-panic/{}", crate::util::panic_class(&msg)), format!("panic in generator / judge: {}", msg), replay);
    }
    case
}

pub fn run_and_judge(rep: &mut Report, case: &Case, replay: serde_json::Value) {
    let r = std::panic::catch_unwind(std::panic::AssertUnwindSafe(|| run_and_judge_inner(rep, case, replay.clone())));
    if let Err(e) = r {
        let msg = crate::util::panic_msg(&e);
        rep.violation("harness", &format!("C06/harness-panic/{}", crate::util::panic_class(&msg)), format!("panic in generator / judge: {}", msg), replay);
    }
}

fn run_and_judge_inner(rep: &mut Report, case: &Case, replay: serde_json::Value) {
    let out = run_world(&case.cfg, &case.steps);
    if let Some(e) = &out.setup_error {
        rep.inconclusive(&format!("setup:{}", e));
        return;
    }
    if let Some(p) = &out.panic {
        rep.violation(
            "no-panic",
            &format!("C06/panic/{}", crate::util::panic_class(p)),
            format!("panic while serving IM requests: {}; steps {:?}", p, &format!("{:?}", case.steps)[..600.min(format!("{:?}", case.steps).len())]),
            replay.clone(),
        );
        return;
    }
    match out.status {
        Some(RunStatus::Done) => {}
        s => {
            rep.inconclusive(&format!("run-status-{:?}", s));
            return;
        }
    }
    for v in &out.tap_violations {
        rep.violation("C15-tap", &format!("C15/tap/{}", v.split(':').next().unwrap_or("x")), format!("passive nonce monitor: {}", v), replay.clone());
    }
    rep.count_n("datagrams_observed", out.datagrams as u64);
    rep.interleavings.insert(out.sched_hash);

    // events emitted so far, per step
    let mut emitted: Vec<EmittedEvent> = Vec::new();
    let final_spec = out.probe.as_ref().unwrap().spec();
    let swaps = out.probe.as_ref().unwrap().0.swaps.borrow().clone();
    let acl = case.cfg.device_acl();
    for (si, step) in case.steps.iter().enumerate() {
        let Some(so) = out.steps.get(si) else { break };
        let spec_after: Rc<NodeSpec> = out.steps.get(si + 1).and_then(|s| s.snap.as_ref()).map(|s| s.spec.clone()).unwrap_or_else(|| final_spec.clone());
        match step {
            Step::Emit { ep, cl, ev, prio, fabric, payload_len } => {
                if let Some(n) = so.event_number {
                    emitted.push(EmittedEvent {
                        number: n,
                        ep: *ep,
                        cl: *cl,
                        ev: *ev,
                        prio: *prio,
                        fabric: *fabric,
                        payload: super::c06_world::event_payload(*ep, *cl, *ev, *payload_len, *fabric),
                    });
                    rep.count("events_emitted");
                }
            }
            Step::Read { .. } | Step::Write { .. } | Step::Invoke { .. } => {
                rep.evaluations += 1;
                let mut j = J { rep, cfg: &case.cfg, acl: acl.clone(), replay: replay.clone(), outcome: BTreeSet::new() };
                j.replay["step"] = json!(si);
                match step {
                    Step::Read { .. } => {
                        let during: Vec<Rc<NodeSpec>> = swaps.iter().filter(|(s, _)| *s as usize == si).map(|(_, n)| n.clone()).collect();
                        judge_read(&mut j, si, step, so, &spec_after, &during, &emitted)
                    }
                    _ => judge_act(&mut j, si, step, so),
                }
                let sess = match step {
                    Step::Read { sess, .. } | Step::Write { sess, .. } | Step::Invoke { sess, .. } => *sess,
                    _ => 0,
                };
                let mut f = Fnv::new();
                f.add(step_shape(step).as_bytes());
                f.add(case.cfg.requesters[sess].kind.as_bytes());
                f.add(so.snap.as_ref().unwrap().spec.shape_class().as_bytes());
                f.add(format!("{:?}", j.outcome).as_bytes());
                rep.distinct.insert(f.0);
            }
            _ => {}
        }
    }
    let _ = Msg { opcode: 0, payload: vec![] };
}

pub fn run(ctx: &Ctx) -> Report {
    let mut rep = Report::new(
        "C06",
        "Real InteractionModel over a probe data model generated from the seed (plus real ACL / Operational Credentials \
         clusters on endpoint 0 in a quarter of the worlds), real ACL table, 7 requester kinds over mirrored sessions; \
         read / write / invoke with wildcard and concrete paths, timed / untimed, composition changes inside an answer; \
         a quarter of the writes chunked (2..4 WriteRequest messages on one exchange, each with its own TimedRequest flag, \
         pauses that may outlast the timed window, lists replaced and then appended to across messages). \
         One evaluation = one request. distinct = hash(request shape class, requester kind, node shape class, outcome classes).",
    );
    crate::util::quiet_panics();
    rep.assumptions.push("sessions are pre-established (mirrored) rather than negotiated; the accessor identity is what the session table says".into());
    rep.assumptions.push("an access declaration lists the privilege levels that suffice; the lowest listed level is the requirement; View never suffices for write / invoke".into());
    rep.assumptions.push("status codes are compared by class (DESIGN 5a); absent-vs-access leeway when the requester has no View on the path".into());
    rep.assumptions.push("group requesters are not driven (the scaffold has no group key provisioning / multicast delivery); Group-mode ACL entries are present as decoys only".into());
    for (k, v) in [
        ("granted:read-data", 400u64),
        ("granted:write", 60),
        ("granted:invoke", 60),
        ("denied:read/Access", 40),
        ("denied:read/Absent", 40),
        ("denied:read/UnsupportedRw", 10),
        ("denied:write/Access", 30),
        ("denied:write/Absent", 30),
        ("denied:write/NeedsTimed", 5),
        ("denied:write/TimedMismatch", 20),
        ("denied:write/Timeout", 10),
        ("denied:invoke/Access", 30),
        ("denied:invoke/Absent", 30),
        ("denied:invoke/NeedsTimed", 5),
        ("denied:invoke/TimedMismatch", 20),
        ("denied:invoke/Timeout", 10),
        ("path:wildcard", 300),
        ("path:concrete", 300),
        ("timed", 200),
        ("untimed", 200),
        ("read_with_composition_change", 20),
        ("fabric_sensitive_foreign_entries", 10),
        ("denied:invoke/fabric-scoped-command-for-fabric-less-requester", 1),
        ("granted:timed-only-element-acted-inside-live-window", 5),
        ("driven-via-public-im-client", 100),
        ("chunked_writes", 100),
        ("chunked_write_messages", 250),
        ("chunked_write_all_messages_acknowledged", 30),
        ("granted:chunked-write", 30),
        ("chunked_write_later_chunk_timed_flag_deviates", 20),
        ("chunked_write_without_timed_request_but_flag_set", 12),
        ("chunked_write_flag_clear_in_later_chunk_of_timed_interaction", 5),
        ("chunked_write_window_expired_between_chunks", 8),
        ("chunked_write_refused_later_chunk_holds_permitted_item", 10),
        ("chunked_write_refused_later_chunk_holds_permitted_timed_only_item", 4),
        ("denied:chunked-write/later-message/TimedMismatch", 20),
        ("denied:chunked-write/later-message/Timeout", 8),
        ("chunked_write_messages_sent_after_refusal", 5),
        ("chunked_list_write_replace_then_append", 4),
    ] {
        rep.floor(k, v);
    }
    if GROUP_REQUESTER {
        rep.floor("requester:group", 60);
        rep.floor("granted:group-write", 5);
        rep.floor("granted:group-invoke", 5);
    }
    for k in ["case-admin", "case-limited", "case-cat", "case-other-fabric", "case-no-entry", "pase", "case-ghost-fabric"] {
        rep.floor(&format!("requester:{}", k), 60);
    }

    if let Some(r) = &ctx.replay {
        let seed: u64 = r["shard_seed"].as_str().and_then(|s| s.parse().ok()).unwrap_or(0);
        let idx = r["index"].as_u64().unwrap_or(0);
        let case = gen_run_judge(&mut rep, subseed(seed, &[idx]), ctx.thorough, r.clone());
        rep.sample(json!({"steps": case.map(|c| c.steps.len())}));
        return rep;
    }

    // 12 requests per world
    let n = ctx.share(3000 / 12, 150_000 / 14);
    let shard_seed = ctx.shard_seed();
    for k in 0..n {
        let idx = k * ctx.nshards + ctx.shard;
        let replay = json!({"check": "C06", "shard_seed": shard_seed.to_string(), "index": idx, "thorough": ctx.thorough});
        let Some(case) = gen_run_judge(&mut rep, subseed(shard_seed, &[idx]), ctx.thorough, replay) else { continue };
        if k < 2 {
            rep.sample(json!({
                "index": idx,
                "node": case.cfg.variants[0].shape_class(),
                "acl_entries": case.cfg.acl.len(),
                "steps": case.steps.iter().map(|s| format!("{:?}", s).chars().take(160).collect::<String>()).collect::<Vec<_>>(),
            }));
        }
    }
    let _ = acc::READ;
    rep
}
