//! Reference side of the Interaction Model monitors (C06, C14).
//!
//! Written from the property statements and the Matter IM rules they cite, *not* from the
//! rs-matter code:
//!  * an independent strict TLV parser / encoder (`Tlv`),
//!  * independent decoders for ReportData / WriteResponse / InvokeResponse / StatusResponse,
//!  * status *classes* (DESIGN §5a),
//!  * the access-control reference of C05 (`acl_allows`),
//!  * the reference expansion of Read / Write / Invoke requests over a node description.

#![allow(dead_code)]

use std::collections::BTreeMap;

// ---------------------------------------------------------------------------------------------
// TLV
// ---------------------------------------------------------------------------------------------

#[derive(Clone, Debug, PartialEq, Eq, Hash, PartialOrd, Ord)]
pub enum Tag {
    Anon,
    Ctx(u8),
    /// Profile tags (never produced by the IM): raw control bits + tag bytes.
    Other(u8, Vec<u8>),
}

#[derive(Clone, Debug, PartialEq, Eq, Hash, PartialOrd, Ord)]
pub enum Val {
    I(i64),
    U(u64),
    Bool(bool),
    F32(u32),
    F64(u64),
    Utf8(Vec<u8>),
    Bytes(Vec<u8>),
    Null,
    Struct(Vec<Tlv>),
    Array(Vec<Tlv>),
    List(Vec<Tlv>),
}

#[derive(Clone, Debug, PartialEq, Eq, Hash, PartialOrd, Ord)]
pub struct Tlv {
    pub tag: Tag,
    pub val: Val,
}

impl Tlv {
    pub fn new(tag: Tag, val: Val) -> Self {
        Self { tag, val }
    }
    pub fn anon(val: Val) -> Self {
        Self { tag: Tag::Anon, val }
    }
    pub fn ctx(t: u8, val: Val) -> Self {
        Self { tag: Tag::Ctx(t), val }
    }

    pub fn children(&self) -> &[Tlv] {
        match &self.val {
            Val::Struct(c) | Val::Array(c) | Val::List(c) => c,
            _ => &[],
        }
    }

    pub fn find(&self, ctx: u8) -> Option<&Tlv> {
        self.children().iter().find(|c| c.tag == Tag::Ctx(ctx))
    }

    pub fn u(&self) -> Option<u64> {
        match self.val {
            Val::U(v) => Some(v),
            Val::I(v) if v >= 0 => Some(v as u64),
            _ => None,
        }
    }

    pub fn b(&self) -> Option<bool> {
        match self.val {
            Val::Bool(v) => Some(v),
            _ => None,
        }
    }

    /// Strict parse of exactly one element that spans the whole input.
    pub fn parse_strict(data: &[u8]) -> Result<Tlv, String> {
        let mut pos = 0usize;
        let t = parse_elem(data, &mut pos, 0)?;
        match t {
            Some(t) => {
                if pos != data.len() {
                    return Err(format!("{} trailing bytes after the top-level element", data.len() - pos));
                }
                Ok(t)
            }
            None => Err("top-level end-of-container".into()),
        }
    }

    /// Parse the first element of `data`; returns it with the number of bytes consumed.
    pub fn parse_prefix(data: &[u8]) -> Result<(Tlv, usize), String> {
        let mut pos = 0usize;
        match parse_elem(data, &mut pos, 0)? {
            Some(t) => Ok((t, pos)),
            None => Err("end-of-container".into()),
        }
    }

    pub fn encode(&self, out: &mut Vec<u8>) {
        let (tag_ctl, tag_bytes): (u8, Vec<u8>) = match &self.tag {
            Tag::Anon => (0, vec![]),
            Tag::Ctx(t) => (1, vec![*t]),
            Tag::Other(c, b) => (*c, b.clone()),
        };
        let head = |ty: u8, out: &mut Vec<u8>| {
            out.push((tag_ctl << 5) | ty);
            out.extend_from_slice(&tag_bytes);
        };
        match &self.val {
            Val::U(v) => {
                if *v <= u8::MAX as u64 {
                    head(4, out);
                    out.push(*v as u8);
                } else if *v <= u16::MAX as u64 {
                    head(5, out);
                    out.extend_from_slice(&(*v as u16).to_le_bytes());
                } else if *v <= u32::MAX as u64 {
                    head(6, out);
                    out.extend_from_slice(&(*v as u32).to_le_bytes());
                } else {
                    head(7, out);
                    out.extend_from_slice(&v.to_le_bytes());
                }
            }
            Val::I(v) => {
                if *v >= i8::MIN as i64 && *v <= i8::MAX as i64 {
                    head(0, out);
                    out.push(*v as i8 as u8);
                } else if *v >= i16::MIN as i64 && *v <= i16::MAX as i64 {
                    head(1, out);
                    out.extend_from_slice(&(*v as i16).to_le_bytes());
                } else if *v >= i32::MIN as i64 && *v <= i32::MAX as i64 {
                    head(2, out);
                    out.extend_from_slice(&(*v as i32).to_le_bytes());
                } else {
                    head(3, out);
                    out.extend_from_slice(&v.to_le_bytes());
                }
            }
            Val::Bool(b) => head(if *b { 9 } else { 8 }, out),
            Val::F32(b) => {
                head(0x0a, out);
                out.extend_from_slice(&b.to_le_bytes());
            }
            Val::F64(b) => {
                head(0x0b, out);
                out.extend_from_slice(&b.to_le_bytes());
            }
            Val::Utf8(s) | Val::Bytes(s) => {
                let base = if matches!(self.val, Val::Utf8(_)) { 0x0c } else { 0x10 };
                if s.len() <= 255 {
                    head(base, out);
                    out.push(s.len() as u8);
                } else {
                    head(base + 1, out);
                    out.extend_from_slice(&(s.len() as u16).to_le_bytes());
                }
                out.extend_from_slice(s);
            }
            Val::Null => head(0x14, out),
            Val::Struct(c) | Val::Array(c) | Val::List(c) => {
                let ty = match self.val {
                    Val::Struct(_) => 0x15,
                    Val::Array(_) => 0x16,
                    _ => 0x17,
                };
                head(ty, out);
                for e in c {
                    e.encode(out);
                }
                out.push(0x18);
            }
        }
    }

    pub fn to_bytes(&self) -> Vec<u8> {
        let mut v = Vec::new();
        self.encode(&mut v);
        v
    }

    /// Compact rendering for traces / witnesses.
    pub fn show(&self) -> String {
        let t = match &self.tag {
            Tag::Anon => String::new(),
            Tag::Ctx(c) => format!("{}:", c),
            Tag::Other(..) => "P:".into(),
        };
        let v = match &self.val {
            Val::I(v) => format!("{}", v),
            Val::U(v) => format!("{}", v),
            Val::Bool(b) => format!("{}", b),
            Val::F32(_) | Val::F64(_) => "f".into(),
            Val::Utf8(s) => format!("utf8[{}]", s.len()),
            Val::Bytes(s) => format!("b[{}]", s.len()),
            Val::Null => "null".into(),
            Val::Struct(c) => format!("{{{}}}", c.iter().map(|e| e.show()).collect::<Vec<_>>().join(",")),
            Val::Array(c) => format!("[{}]", c.iter().map(|e| e.show()).collect::<Vec<_>>().join(",")),
            Val::List(c) => format!("<{}>", c.iter().map(|e| e.show()).collect::<Vec<_>>().join(",")),
        };
        format!("{}{}", t, v)
    }
}

fn take<'a>(data: &'a [u8], pos: &mut usize, n: usize) -> Result<&'a [u8], String> {
    if data.len() - *pos < n {
        return Err(format!("truncated: need {} bytes at offset {}, have {}", n, *pos, data.len() - *pos));
    }
    let s = &data[*pos..*pos + n];
    *pos += n;
    Ok(s)
}

fn le(b: &[u8]) -> u64 {
    let mut v = 0u64;
    for (i, x) in b.iter().enumerate() {
        v |= (*x as u64) << (8 * i);
    }
    v
}

/// Returns `None` for an end-of-container marker.
fn parse_elem(data: &[u8], pos: &mut usize, depth: usize) -> Result<Option<Tlv>, String> {
    if depth > 32 {
        return Err("nesting deeper than 32".into());
    }
    let ctl = take(data, pos, 1)?[0];
    let tag_ctl = ctl >> 5;
    let ty = ctl & 0x1f;
    let tag = match tag_ctl {
        0 => Tag::Anon,
        1 => Tag::Ctx(take(data, pos, 1)?[0]),
        2 | 4 => Tag::Other(tag_ctl, take(data, pos, 2)?.to_vec()),
        3 | 5 => Tag::Other(tag_ctl, take(data, pos, 4)?.to_vec()),
        6 => Tag::Other(tag_ctl, take(data, pos, 6)?.to_vec()),
        _ => Tag::Other(tag_ctl, take(data, pos, 8)?.to_vec()),
    };
    let val = match ty {
        0..=3 => {
            let n = 1usize << ty;
            let raw = le(take(data, pos, n)?);
            let shift = 64 - 8 * n as u32;
            Val::I(((raw << shift) as i64) >> shift)
        }
        4..=7 => Val::U(le(take(data, pos, 1usize << (ty - 4))?)),
        8 => Val::Bool(false),
        9 => Val::Bool(true),
        0x0a => Val::F32(le(take(data, pos, 4)?) as u32),
        0x0b => Val::F64(le(take(data, pos, 8)?)),
        0x0c..=0x13 => {
            let lsz = 1usize << ((ty - 0x0c) & 3);
            let len = le(take(data, pos, lsz)?);
            if len > (data.len() - *pos) as u64 {
                return Err(format!("string length {} exceeds the remaining {} bytes", len, data.len() - *pos));
            }
            let s = take(data, pos, len as usize)?.to_vec();
            if ty < 0x10 {
                if std::str::from_utf8(&s).is_err() {
                    return Err("invalid UTF-8 in a UTF-8 string".into());
                }
                Val::Utf8(s)
            } else {
                Val::Bytes(s)
            }
        }
        0x14 => Val::Null,
        0x15..=0x17 => {
            let mut ch = Vec::new();
            loop {
                match parse_elem(data, pos, depth + 1)? {
                    Some(e) => {
                        // members of arrays are anonymous; members of structs carry a tag
                        if ty == 0x16 && e.tag != Tag::Anon {
                            return Err("tagged member inside an array".into());
                        }
                        if ty == 0x15 && e.tag == Tag::Anon {
                            return Err("anonymous member inside a structure".into());
                        }
                        ch.push(e)
                    }
                    None => break,
                }
            }
            match ty {
                0x15 => Val::Struct(ch),
                0x16 => Val::Array(ch),
                _ => Val::List(ch),
            }
        }
        0x18 => {
            if tag != Tag::Anon {
                return Err("tagged end-of-container".into());
            }
            if depth == 0 {
                return Err("end-of-container at top level".into());
            }
            return Ok(None);
        }
        _ => return Err(format!("reserved element type {:#x}", ty)),
    };
    Ok(Some(Tlv { tag, val }))
}

// ---------------------------------------------------------------------------------------------
// Status classes
// ---------------------------------------------------------------------------------------------

#[derive(Clone, Copy, Debug, PartialEq, Eq, Hash, PartialOrd, Ord)]
pub enum Class {
    Success,
    /// UNSUPPORTED_ACCESS / ACCESS_RESTRICTED
    Access,
    /// UNSUPPORTED_{NODE,ENDPOINT,CLUSTER,ATTRIBUTE,COMMAND,EVENT}
    Absent,
    /// UNSUPPORTED_READ / UNSUPPORTED_WRITE
    UnsupportedRw,
    NeedsTimed,
    TimedMismatch,
    Timeout,
    Busy,
    /// INVALID_ACTION / INVALID_COMMAND / CONSTRAINT_ERROR / INVALID_DATA_TYPE
    Invalid,
    VersionMismatch,
    Other,
}

pub fn class_of(code: u16) -> Class {
    match code {
        0 => Class::Success,
        0x7e | 0x9d => Class::Access,
        0x7f | 0xc3 | 0x86 | 0x81 | 0xc7 | 0x9b => Class::Absent,
        0x88 | 0x8f => Class::UnsupportedRw,
        0xc6 => Class::NeedsTimed,
        0xc9 => Class::TimedMismatch,
        0x94 => Class::Timeout,
        0x9c => Class::Busy,
        0x80 | 0x85 | 0x87 | 0x8d | 0xcf => Class::Invalid,
        0x92 => Class::VersionMismatch,
        _ => Class::Other,
    }
}

pub const ST_UNSUPPORTED_ENDPOINT: u16 = 0x7f;
pub const ST_UNSUPPORTED_CLUSTER: u16 = 0xc3;
pub const ST_UNSUPPORTED_ATTRIBUTE: u16 = 0x86;
pub const ST_UNSUPPORTED_COMMAND: u16 = 0x81;
pub const ST_UNSUPPORTED_EVENT: u16 = 0xc7;

// ---------------------------------------------------------------------------------------------
// IM message decoders (independent of rs-matter's)
// ---------------------------------------------------------------------------------------------

#[derive(Clone, Copy, Debug, PartialEq, Eq, Hash, PartialOrd, Ord)]
pub enum ListIdx {
    Absent,
    Null,
    Idx(u16),
}

#[derive(Clone, Debug, PartialEq)]
pub enum ItemKind {
    Data { dataver: Option<u32>, val: Val },
    Status { code: u16, cluster_status: Option<u16> },
}

#[derive(Clone, Debug, PartialEq)]
pub struct AttrItem {
    pub ep: Option<u16>,
    pub cl: Option<u32>,
    pub attr: Option<u32>,
    pub list_index: ListIdx,
    pub kind: ItemKind,
    /// Encoded size of this AttributeReportIB in the message.
    pub enc_len: usize,
}

#[derive(Clone, Debug, PartialEq)]
pub enum EvKind {
    Data { number: u64, prio: u8, val: Option<Val> },
    Status { code: u16 },
}

#[derive(Clone, Debug, PartialEq)]
pub struct EventItem {
    pub ep: Option<u16>,
    pub cl: Option<u32>,
    pub ev: Option<u32>,
    pub kind: EvKind,
    pub enc_len: usize,
}

#[derive(Clone, Debug, Default)]
pub struct Report {
    pub sub_id: Option<u32>,
    pub attrs: Option<Vec<AttrItem>>,
    pub events: Option<Vec<EventItem>>,
    pub more_chunks: bool,
    pub suppress: bool,
    pub rev: Option<u64>,
}

fn opt_u(t: &Tlv, ctx: u8) -> Result<Option<u64>, String> {
    match t.find(ctx) {
        None => Ok(None),
        Some(e) => e.u().map(Some).ok_or_else(|| format!("field {} is not an unsigned integer", ctx)),
    }
}

fn only_tags(t: &Tlv, allowed: &[u8], what: &str) -> Result<(), String> {
    let mut seen = Vec::new();
    for c in t.children() {
        match c.tag {
            Tag::Ctx(x) if allowed.contains(&x) => {
                if seen.contains(&x) {
                    return Err(format!("{}: field {} repeated", what, x));
                }
                seen.push(x);
            }
            _ => return Err(format!("{}: unexpected member {}", what, c.show())),
        }
    }
    Ok(())
}

fn dec_attr_path(p: &Tlv) -> Result<(Option<u16>, Option<u32>, Option<u32>, ListIdx), String> {
    if !matches!(p.val, Val::List(_)) {
        return Err("attribute path is not a TLV list".into());
    }
    only_tags(p, &[0, 1, 2, 3, 4, 5], "AttributePathIB")?;
    let li = match p.find(5) {
        None => ListIdx::Absent,
        Some(e) if e.val == Val::Null => ListIdx::Null,
        Some(e) => ListIdx::Idx(e.u().ok_or("list index not an integer")? as u16),
    };
    Ok((
        opt_u(p, 2)?.map(|v| v as u16),
        opt_u(p, 3)?.map(|v| v as u32),
        opt_u(p, 4)?.map(|v| v as u32),
        li,
    ))
}

fn dec_status(s: &Tlv) -> Result<(u16, Option<u16>), String> {
    if !matches!(s.val, Val::Struct(_)) {
        return Err("StatusIB is not a structure".into());
    }
    let code = opt_u(s, 0)?.ok_or("StatusIB without status")? as u16;
    Ok((code, opt_u(s, 1)?.map(|v| v as u16)))
}

fn dec_attr_report(r: &Tlv) -> Result<AttrItem, String> {
    if !matches!(r.val, Val::Struct(_)) || r.children().len() != 1 {
        return Err(format!("AttributeReportIB must be a structure with exactly one member: {}", r.show()));
    }
    let enc_len = r.to_bytes().len();
    let inner = &r.children()[0];
    match inner.tag {
        Tag::Ctx(0) => {
            only_tags(inner, &[0, 1], "AttributeStatusIB")?;
            let (ep, cl, attr, li) = dec_attr_path(inner.find(0).ok_or("AttributeStatusIB without path")?)?;
            let (code, cs) = dec_status(inner.find(1).ok_or("AttributeStatusIB without status")?)?;
            Ok(AttrItem { ep, cl, attr, list_index: li, kind: ItemKind::Status { code, cluster_status: cs }, enc_len })
        }
        Tag::Ctx(1) => {
            only_tags(inner, &[0, 1, 2], "AttributeDataIB")?;
            let (ep, cl, attr, li) = dec_attr_path(inner.find(1).ok_or("AttributeDataIB without path")?)?;
            let dv = opt_u(inner, 0)?.map(|v| v as u32);
            let val = inner.find(2).ok_or("AttributeDataIB without data")?.val.clone();
            Ok(AttrItem { ep, cl, attr, list_index: li, kind: ItemKind::Data { dataver: dv, val }, enc_len })
        }
        _ => Err(format!("AttributeReportIB with unknown member {}", inner.show())),
    }
}

fn dec_event_path(p: &Tlv) -> Result<(Option<u16>, Option<u32>, Option<u32>), String> {
    if !matches!(p.val, Val::List(_)) {
        return Err("event path is not a TLV list".into());
    }
    only_tags(p, &[0, 1, 2, 3, 4], "EventPathIB")?;
    Ok((
        opt_u(p, 1)?.map(|v| v as u16),
        opt_u(p, 2)?.map(|v| v as u32),
        opt_u(p, 3)?.map(|v| v as u32),
    ))
}

fn dec_event_report(r: &Tlv) -> Result<EventItem, String> {
    if !matches!(r.val, Val::Struct(_)) || r.children().len() != 1 {
        return Err(format!("EventReportIB must be a structure with exactly one member: {}", r.show()));
    }
    let enc_len = r.to_bytes().len();
    let inner = &r.children()[0];
    match inner.tag {
        Tag::Ctx(0) => {
            let (ep, cl, ev) = dec_event_path(inner.find(0).ok_or("EventStatusIB without path")?)?;
            let (code, _) = dec_status(inner.find(1).ok_or("EventStatusIB without status")?)?;
            Ok(EventItem { ep, cl, ev, kind: EvKind::Status { code }, enc_len })
        }
        Tag::Ctx(1) => {
            only_tags(inner, &[0, 1, 2, 3, 4, 5, 6, 7], "EventDataIB")?;
            let (ep, cl, ev) = dec_event_path(inner.find(0).ok_or("EventDataIB without path")?)?;
            let number = opt_u(inner, 1)?.ok_or("EventDataIB without event number")?;
            let prio = opt_u(inner, 2)?.ok_or("EventDataIB without priority")? as u8;
            let ts = [3u8, 4, 5, 6].iter().filter(|t| inner.find(**t).is_some()).count();
            if ts != 1 {
                return Err(format!("EventDataIB with {} timestamps", ts));
            }
            Ok(EventItem {
                ep,
                cl,
                ev,
                kind: EvKind::Data { number, prio, val: inner.find(7).map(|d| d.val.clone()) },
                enc_len,
            })
        }
        _ => Err(format!("EventReportIB with unknown member {}", inner.show())),
    }
}

pub fn decode_report(t: &Tlv) -> Result<Report, String> {
    if !matches!(t.val, Val::Struct(_)) || t.tag != Tag::Anon {
        return Err("ReportDataMessage is not an anonymous structure".into());
    }
    only_tags(t, &[0, 1, 2, 3, 4, 0xff], "ReportDataMessage")?;
    let mut r = Report {
        sub_id: opt_u(t, 0)?.map(|v| v as u32),
        rev: opt_u(t, 0xff)?,
        ..Default::default()
    };
    if let Some(a) = t.find(1) {
        if !matches!(a.val, Val::Array(_)) {
            return Err("AttributeReports is not an array".into());
        }
        r.attrs = Some(a.children().iter().map(dec_attr_report).collect::<Result<Vec<_>, _>>()?);
    }
    if let Some(a) = t.find(2) {
        if !matches!(a.val, Val::Array(_)) {
            return Err("EventReports is not an array".into());
        }
        r.events = Some(a.children().iter().map(dec_event_report).collect::<Result<Vec<_>, _>>()?);
    }
    if let Some(m) = t.find(3) {
        r.more_chunks = m.b().ok_or("MoreChunkedMessages is not a boolean")?;
    }
    if let Some(m) = t.find(4) {
        r.suppress = m.b().ok_or("SuppressResponse is not a boolean")?;
    }
    Ok(r)
}

pub fn decode_status_resp(t: &Tlv) -> Result<u16, String> {
    if !matches!(t.val, Val::Struct(_)) {
        return Err("StatusResponse is not a structure".into());
    }
    only_tags(t, &[0, 0xff], "StatusResponseMessage")?;
    Ok(opt_u(t, 0)?.ok_or("StatusResponse without status")? as u16)
}

pub fn decode_write_resp(t: &Tlv) -> Result<Vec<AttrItem>, String> {
    if !matches!(t.val, Val::Struct(_)) {
        return Err("WriteResponse is not a structure".into());
    }
    only_tags(t, &[0, 0xff], "WriteResponseMessage")?;
    let arr = t.find(0).ok_or("WriteResponse without WriteResponses")?;
    if !matches!(arr.val, Val::Array(_)) {
        return Err("WriteResponses is not an array".into());
    }
    let mut out = Vec::new();
    for s in arr.children() {
        if !matches!(s.val, Val::Struct(_)) {
            return Err("AttributeStatusIB is not a structure".into());
        }
        only_tags(s, &[0, 1], "AttributeStatusIB")?;
        let (ep, cl, attr, li) = dec_attr_path(s.find(0).ok_or("AttributeStatusIB without path")?)?;
        let (code, cs) = dec_status(s.find(1).ok_or("AttributeStatusIB without status")?)?;
        out.push(AttrItem {
            ep,
            cl,
            attr,
            list_index: li,
            kind: ItemKind::Status { code, cluster_status: cs },
            enc_len: s.to_bytes().len(),
        });
    }
    Ok(out)
}

#[derive(Clone, Debug, PartialEq)]
pub enum CmdKind {
    Data { val: Option<Val> },
    Status { code: u16 },
}

#[derive(Clone, Debug, PartialEq)]
pub struct CmdItem {
    pub ep: Option<u16>,
    pub cl: Option<u32>,
    pub cmd: Option<u32>,
    pub cmd_ref: Option<u16>,
    pub kind: CmdKind,
}

#[derive(Clone, Debug, Default)]
pub struct InvokeResponse {
    pub suppress: Option<bool>,
    pub items: Option<Vec<CmdItem>>,
    pub more_chunks: bool,
}

fn dec_cmd_path(p: &Tlv) -> Result<(Option<u16>, Option<u32>, Option<u32>), String> {
    if !matches!(p.val, Val::List(_)) {
        return Err("command path is not a TLV list".into());
    }
    only_tags(p, &[0, 1, 2], "CommandPathIB")?;
    Ok((
        opt_u(p, 0)?.map(|v| v as u16),
        opt_u(p, 1)?.map(|v| v as u32),
        opt_u(p, 2)?.map(|v| v as u32),
    ))
}

pub fn decode_invoke_resp(t: &Tlv) -> Result<InvokeResponse, String> {
    if !matches!(t.val, Val::Struct(_)) {
        return Err("InvokeResponse is not a structure".into());
    }
    only_tags(t, &[0, 1, 2, 0xff], "InvokeResponseMessage")?;
    let mut r = InvokeResponse {
        suppress: t.find(0).and_then(|b| b.b()),
        ..Default::default()
    };
    if let Some(m) = t.find(2) {
        r.more_chunks = m.b().ok_or("MoreChunkedMessages is not a boolean")?;
    }
    if let Some(arr) = t.find(1) {
        if !matches!(arr.val, Val::Array(_)) {
            return Err("InvokeResponses is not an array".into());
        }
        let mut items = Vec::new();
        for ib in arr.children() {
            if !matches!(ib.val, Val::Struct(_)) || ib.children().len() != 1 {
                return Err("InvokeResponseIB must have exactly one member".into());
            }
            let inner = &ib.children()[0];
            match inner.tag {
                Tag::Ctx(0) => {
                    only_tags(inner, &[0, 1, 2], "CommandDataIB")?;
                    let (ep, cl, cmd) = dec_cmd_path(inner.find(0).ok_or("CommandDataIB without path")?)?;
                    items.push(CmdItem {
                        ep,
                        cl,
                        cmd,
                        cmd_ref: opt_u(inner, 2)?.map(|v| v as u16),
                        kind: CmdKind::Data { val: inner.find(1).map(|v| v.val.clone()) },
                    });
                }
                Tag::Ctx(1) => {
                    only_tags(inner, &[0, 1, 2], "CommandStatusIB")?;
                    let (ep, cl, cmd) = dec_cmd_path(inner.find(0).ok_or("CommandStatusIB without path")?)?;
                    let (code, _) = dec_status(inner.find(1).ok_or("CommandStatusIB without status")?)?;
                    items.push(CmdItem {
                        ep,
                        cl,
                        cmd,
                        cmd_ref: opt_u(inner, 2)?.map(|v| v as u16),
                        kind: CmdKind::Status { code },
                    });
                }
                _ => return Err("InvokeResponseIB with unknown member".into()),
            }
        }
        r.items = Some(items);
    }
    Ok(r)
}

// ---------------------------------------------------------------------------------------------
// Request encoders
// ---------------------------------------------------------------------------------------------

#[derive(Clone, Debug, PartialEq, Eq, Hash)]
pub struct PathReq {
    pub ep: Option<u16>,
    pub cl: Option<u32>,
    pub leaf: Option<u32>,
    pub list_index: ListIdx,
}

impl PathReq {
    pub fn new(ep: Option<u16>, cl: Option<u32>, leaf: Option<u32>) -> Self {
        Self { ep, cl, leaf, list_index: ListIdx::Absent }
    }
    pub fn is_wildcard(&self) -> bool {
        self.ep.is_none() || self.cl.is_none() || self.leaf.is_none()
    }
    pub fn show(&self) -> String {
        let f = |v: Option<u64>| v.map(|x| format!("{:#x}", x)).unwrap_or_else(|| "*".into());
        let li = match self.list_index {
            ListIdx::Absent => String::new(),
            ListIdx::Null => "[null]".into(),
            ListIdx::Idx(i) => format!("[{}]", i),
        };
        format!("{}/{}/{}{}", f(self.ep.map(|v| v as u64)), f(self.cl.map(|v| v as u64)), f(self.leaf.map(|v| v as u64)), li)
    }
    /// Shape class for `distinct`: which positions are wildcards.
    pub fn shape(&self) -> u8 {
        (self.ep.is_none() as u8) | ((self.cl.is_none() as u8) << 1) | ((self.leaf.is_none() as u8) << 2)
    }
}

pub fn enc_attr_path(tag: Tag, p: &PathReq) -> Tlv {
    let mut c = Vec::new();
    if let Some(e) = p.ep {
        c.push(Tlv::ctx(2, Val::U(e as u64)));
    }
    if let Some(e) = p.cl {
        c.push(Tlv::ctx(3, Val::U(e as u64)));
    }
    if let Some(e) = p.leaf {
        c.push(Tlv::ctx(4, Val::U(e as u64)));
    }
    match p.list_index {
        ListIdx::Absent => {}
        ListIdx::Null => c.push(Tlv::ctx(5, Val::Null)),
        ListIdx::Idx(i) => c.push(Tlv::ctx(5, Val::U(i as u64))),
    }
    Tlv::new(tag, Val::List(c))
}

pub fn enc_event_path(tag: Tag, p: &PathReq) -> Tlv {
    let mut c = Vec::new();
    if let Some(e) = p.ep {
        c.push(Tlv::ctx(1, Val::U(e as u64)));
    }
    if let Some(e) = p.cl {
        c.push(Tlv::ctx(2, Val::U(e as u64)));
    }
    if let Some(e) = p.leaf {
        c.push(Tlv::ctx(3, Val::U(e as u64)));
    }
    Tlv::new(tag, Val::List(c))
}

pub fn enc_cmd_path(tag: Tag, p: &PathReq) -> Tlv {
    let mut c = Vec::new();
    if let Some(e) = p.ep {
        c.push(Tlv::ctx(0, Val::U(e as u64)));
    }
    if let Some(e) = p.cl {
        c.push(Tlv::ctx(1, Val::U(e as u64)));
    }
    if let Some(e) = p.leaf {
        c.push(Tlv::ctx(2, Val::U(e as u64)));
    }
    Tlv::new(tag, Val::List(c))
}

#[derive(Clone, Debug, Default)]
pub struct ReadRequest {
    pub attr_paths: Option<Vec<PathReq>>,
    pub event_paths: Option<Vec<PathReq>>,
    pub event_min: Option<Vec<u64>>,
    pub fabric_filtered: bool,
    /// (endpoint, cluster, data version)
    pub dataver_filters: Option<Vec<(u16, u32, u32)>>,
}

fn enc_read_common(r: &ReadRequest, tags: (u8, u8, u8, u8, u8), c: &mut Vec<Tlv>) {
    if let Some(p) = &r.attr_paths {
        c.push(Tlv::ctx(tags.0, Val::Array(p.iter().map(|p| enc_attr_path(Tag::Anon, p)).collect())));
    }
    if let Some(p) = &r.event_paths {
        c.push(Tlv::ctx(tags.1, Val::Array(p.iter().map(|p| enc_event_path(Tag::Anon, p)).collect())));
    }
    if let Some(f) = &r.event_min {
        c.push(Tlv::ctx(
            tags.2,
            Val::Array(f.iter().map(|m| Tlv::anon(Val::Struct(vec![Tlv::ctx(1, Val::U(*m))]))).collect()),
        ));
    }
    c.push(Tlv::ctx(tags.3, Val::Bool(r.fabric_filtered)));
    if let Some(f) = &r.dataver_filters {
        c.push(Tlv::ctx(
            tags.4,
            Val::Array(
                f.iter()
                    .map(|(e, cl, dv)| {
                        Tlv::anon(Val::Struct(vec![
                            Tlv::ctx(0, Val::List(vec![Tlv::ctx(1, Val::U(*e as u64)), Tlv::ctx(2, Val::U(*cl as u64))])),
                            Tlv::ctx(1, Val::U(*dv as u64)),
                        ]))
                    })
                    .collect(),
            ),
        ));
    }
}

pub fn enc_read_request(r: &ReadRequest) -> Vec<u8> {
    let mut c = Vec::new();
    enc_read_common(r, (0, 1, 2, 3, 4), &mut c);
    c.push(Tlv::ctx(0xff, Val::U(13)));
    Tlv::anon(Val::Struct(c)).to_bytes()
}

pub fn enc_subscribe_request(r: &ReadRequest, keep: bool, min_int: u16, max_int: u16) -> Vec<u8> {
    let mut c = vec![
        Tlv::ctx(0, Val::Bool(keep)),
        Tlv::ctx(1, Val::U(min_int as u64)),
        Tlv::ctx(2, Val::U(max_int as u64)),
    ];
    enc_read_common(r, (3, 4, 5, 7, 8), &mut c);
    c.push(Tlv::ctx(0xff, Val::U(13)));
    Tlv::anon(Val::Struct(c)).to_bytes()
}

#[derive(Clone, Debug)]
pub struct WriteItem {
    pub path: PathReq,
    pub data_ver: Option<u32>,
    pub data: Val,
}

/// One WriteRequestMessage. `more_chunks`: the MoreChunkedMessages field (context tag 3);
/// `None` leaves the field out (single-message write), `Some(true)` announces further
/// WriteRequest messages of the same write interaction on this exchange.
pub fn enc_write_request(items: &[WriteItem], timed_flag: bool, more_chunks: Option<bool>) -> Vec<u8> {
    let arr = items
        .iter()
        .map(|w| {
            let mut c = Vec::new();
            if let Some(dv) = w.data_ver {
                c.push(Tlv::ctx(0, Val::U(dv as u64)));
            }
            c.push(enc_attr_path(Tag::Ctx(1), &w.path));
            c.push(Tlv::ctx(2, w.data.clone()));
            Tlv::anon(Val::Struct(c))
        })
        .collect();
    let mut c = vec![Tlv::ctx(0, Val::Bool(false)), Tlv::ctx(1, Val::Bool(timed_flag)), Tlv::ctx(2, Val::Array(arr))];
    if let Some(m) = more_chunks {
        c.push(Tlv::ctx(3, Val::Bool(m)));
    }
    c.push(Tlv::ctx(0xff, Val::U(13)));
    Tlv::anon(Val::Struct(c)).to_bytes()
}

#[derive(Clone, Debug)]
pub struct InvokeItem {
    pub path: PathReq,
    pub cmd_ref: Option<u16>,
    pub data: Val,
}

pub fn enc_invoke_request(items: &[InvokeItem], timed_flag: bool) -> Vec<u8> {
    let arr = items
        .iter()
        .map(|w| {
            let mut c = vec![enc_cmd_path(Tag::Ctx(0), &w.path), Tlv::ctx(1, w.data.clone())];
            if let Some(r) = w.cmd_ref {
                c.push(Tlv::ctx(2, Val::U(r as u64)));
            }
            Tlv::anon(Val::Struct(c))
        })
        .collect();
    Tlv::anon(Val::Struct(vec![
        Tlv::ctx(0, Val::Bool(false)),
        Tlv::ctx(1, Val::Bool(timed_flag)),
        Tlv::ctx(2, Val::Array(arr)),
        Tlv::ctx(0xff, Val::U(13)),
    ]))
    .to_bytes()
}

pub fn enc_timed_request(timeout_ms: u16) -> Vec<u8> {
    Tlv::anon(Val::Struct(vec![Tlv::ctx(0, Val::U(timeout_ms as u64)), Tlv::ctx(0xff, Val::U(13))])).to_bytes()
}

pub fn enc_status_response(code: u16) -> Vec<u8> {
    Tlv::anon(Val::Struct(vec![Tlv::ctx(0, Val::U(code as u64)), Tlv::ctx(0xff, Val::U(13))])).to_bytes()
}

// ---------------------------------------------------------------------------------------------
// Access-control reference (C05), from the statement
// ---------------------------------------------------------------------------------------------

#[derive(Clone, Copy, Debug, PartialEq, Eq, Hash, PartialOrd, Ord)]
pub enum Priv {
    View,
    ProxyView,
    Operate,
    Manage,
    Administer,
}

impl Priv {
    fn rank(self) -> u8 {
        match self {
            Priv::View | Priv::ProxyView => 1,
            Priv::Operate => 2,
            Priv::Manage => 3,
            Priv::Administer => 4,
        }
    }
}

/// `granted ⊇ required`: Administer ⊇ Manage ⊇ Operate ⊇ View, ProxyView ⊇ View.
pub fn priv_includes(granted: Priv, required: Priv) -> bool {
    match (granted, required) {
        (Priv::ProxyView, r) => matches!(r, Priv::View | Priv::ProxyView),
        (_, Priv::ProxyView) => false,
        (g, r) => g.rank() >= r.rank(),
    }
}

#[derive(Clone, Copy, Debug, PartialEq, Eq, Hash)]
pub enum Auth {
    Pase,
    Case,
    Group,
}

#[derive(Clone, Debug, PartialEq, Eq)]
pub struct TargetRef {
    pub ep: Option<u16>,
    pub cl: Option<u32>,
    pub dt: Option<u32>,
}

#[derive(Clone, Debug)]
pub struct AclRef {
    pub fab_idx: u8,
    pub privilege: Priv,
    pub auth: Auth,
    pub subjects: Vec<u64>,
    pub targets: Vec<TargetRef>,
}

#[derive(Clone, Debug, Default)]
pub struct DeviceAcl {
    /// Fabric indices that exist on the device.
    pub fabrics: Vec<u8>,
    pub entries: Vec<AclRef>,
}

#[derive(Clone, Debug)]
pub struct Requester {
    pub kind: &'static str,
    pub auth: Option<Auth>,
    pub fab_idx: u8,
    /// CASE: peer node id; Group: group id.
    pub subject: u64,
    /// CASE Authenticated Tags of the requester's NOC: (id << 16 | version).
    pub cats: Vec<u32>,
    /// Group requester: endpoints that are members of the group.
    pub group_endpoints: Vec<u16>,
}

pub const CAT_PREFIX: u64 = 0xFFFF_FFFD_0000_0000;

fn is_cat_subject(s: u64) -> bool {
    (s & 0xFFFF_FFFF_0000_0000) == CAT_PREFIX
}

fn subject_matches(entry_subject: u64, r: &Requester, auth: Auth) -> bool {
    match auth {
        Auth::Case => {
            if entry_subject == r.subject {
                return true;
            }
            if is_cat_subject(entry_subject) {
                let id = ((entry_subject >> 16) & 0xffff) as u32;
                let ver = (entry_subject & 0xffff) as u32;
                return r.cats.iter().any(|c| *c != 0 && (c >> 16) == id && (c & 0xffff) >= ver);
            }
            false
        }
        Auth::Group => entry_subject == r.subject,
        Auth::Pase => false,
    }
}

/// Does the access-control algorithm grant `required` on (endpoint, cluster) to the requester?
pub fn acl_allows(acl: &DeviceAcl, r: &Requester, ep: u16, cl: u32, device_types: &[u32], required: Priv) -> bool {
    let Some(auth) = r.auth else {
        return false;
    };
    if auth == Auth::Pase {
        return true;
    }
    if r.fab_idx == 0 || !acl.fabrics.contains(&r.fab_idx) {
        return false;
    }
    if auth == Auth::Group && !r.group_endpoints.contains(&ep) {
        return false;
    }
    acl.entries.iter().any(|e| {
        e.fab_idx == r.fab_idx
            && e.auth == auth
            && (e.subjects.is_empty() || e.subjects.iter().any(|s| subject_matches(*s, r, auth)))
            && (e.targets.is_empty()
                || e.targets.iter().any(|t| {
                    t.ep.map(|x| x == ep).unwrap_or(true)
                        && t.cl.map(|x| x == cl).unwrap_or(true)
                        && t.dt.map(|x| device_types.contains(&x)).unwrap_or(true)
                }))
            && priv_includes(e.privilege, required)
    })
}

// ---------------------------------------------------------------------------------------------
// Node description + access declarations
// ---------------------------------------------------------------------------------------------

/// Bits of an access declaration, as documented by the public `rs_matter::dm::Access` type.
pub mod acc {
    pub const NEED_VIEW: u16 = 0x0001;
    pub const NEED_OPERATE: u16 = 0x0002;
    pub const NEED_MANAGE: u16 = 0x0004;
    pub const NEED_ADMIN: u16 = 0x0008;
    pub const READ: u16 = 0x0010;
    pub const WRITE: u16 = 0x0020;
    pub const FAB_SCOPED: u16 = 0x0040;
    pub const FAB_SENSITIVE: u16 = 0x0080;
    pub const TIMED_ONLY: u16 = 0x0100;
}

pub mod qual {
    pub const NULLABLE: u8 = 0x08;
    pub const OPTIONAL: u8 = 0x10;
    pub const ARRAY: u8 = 0x20;
}

#[derive(Clone, Copy, Debug, PartialEq, Eq, Hash)]
pub enum Op {
    Read,
    Write,
    Invoke,
}

/// The privilege an access declaration requires for `op`: the declaration lists the privilege
/// levels that suffice; the lowest one listed is the requirement. View never suffices for a
/// write or an invocation. `None`: the declaration names no sufficient privilege at all.
pub fn required_priv(access: u16, op: Op) -> Option<Priv> {
    let order: &[(u16, Priv)] = match op {
        Op::Read => &[
            (acc::NEED_VIEW, Priv::View),
            (acc::NEED_OPERATE, Priv::Operate),
            (acc::NEED_MANAGE, Priv::Manage),
            (acc::NEED_ADMIN, Priv::Administer),
        ],
        _ => &[
            (acc::NEED_OPERATE, Priv::Operate),
            (acc::NEED_MANAGE, Priv::Manage),
            (acc::NEED_ADMIN, Priv::Administer),
        ],
    };
    order.iter().find(|(b, _)| access & b != 0).map(|(_, p)| *p)
}

pub fn declares(access: u16, op: Op) -> bool {
    match op {
        Op::Read => access & acc::READ != 0,
        Op::Write | Op::Invoke => access & acc::WRITE != 0,
    }
}

#[derive(Clone, Debug, PartialEq)]
pub enum Shape {
    /// Unsigned scalar of 1, 2, 4 or 8 value bytes.
    U(u8),
    Bool,
    Null,
    Octets(usize),
    Utf8(usize),
    /// List of `count` elements.
    List { count: usize, elem: Elem },
}

#[derive(Clone, Debug, PartialEq)]
pub enum Elem {
    U(u8),
    Octets(usize),
    /// struct { 0: u32, 1: octets(len) }
    Struct(usize),
}

#[derive(Clone, Debug)]
pub struct AttrSpec {
    pub id: u32,
    pub access: u16,
    pub quality: u8,
    pub shape: Shape,
}

impl AttrSpec {
    pub fn is_global(&self) -> bool {
        is_global_attr(self.id)
    }
}

pub fn is_global_attr(id: u32) -> bool {
    (0xFFF8..=0xFFFF).contains(&id)
}

#[derive(Clone, Debug)]
pub struct CmdSpec {
    pub id: u32,
    pub resp_id: Option<u32>,
    pub access: u16,
}

#[derive(Clone, Debug)]
pub struct EventSpec {
    pub id: u32,
    pub access: u16,
}

#[derive(Clone, Debug)]
pub struct ClusterSpec {
    pub id: u32,
    pub revision: u16,
    pub feature_map: u32,
    pub attrs: Vec<AttrSpec>,
    pub cmds: Vec<CmdSpec>,
    pub events: Vec<EventSpec>,
    /// Attributes of OPTIONAL quality are declared but not supported by this instance.
    pub required_only: bool,
    /// A real rs-matter system cluster (served by rs-matter's own handler, values not modelled).
    pub system: bool,
}

impl ClusterSpec {
    pub fn attr(&self, id: u32) -> Option<&AttrSpec> {
        self.live_attrs().find(|a| a.id == id)
    }
    pub fn live_attrs(&self) -> impl Iterator<Item = &AttrSpec> {
        self.attrs
            .iter()
            .filter(move |a| !(self.required_only && a.quality & qual::OPTIONAL != 0))
    }
    pub fn cmd(&self, id: u32) -> Option<&CmdSpec> {
        self.cmds.iter().find(|c| c.id == id)
    }
    pub fn event(&self, id: u32) -> Option<&EventSpec> {
        self.events.iter().find(|c| c.id == id)
    }
}

#[derive(Clone, Debug)]
pub struct EndpointSpec {
    pub id: u16,
    pub device_types: Vec<u32>,
    pub clusters: Vec<ClusterSpec>,
}

impl EndpointSpec {
    pub fn cluster(&self, id: u32) -> Option<&ClusterSpec> {
        self.clusters.iter().find(|c| c.id == id)
    }
}

#[derive(Clone, Debug, Default)]
pub struct NodeSpec {
    pub endpoints: Vec<EndpointSpec>,
}

impl NodeSpec {
    pub fn endpoint(&self, id: u16) -> Option<&EndpointSpec> {
        self.endpoints.iter().find(|e| e.id == id)
    }
    pub fn cluster(&self, ep: u16, cl: u32) -> Option<&ClusterSpec> {
        self.endpoint(ep).and_then(|e| e.cluster(cl))
    }
    pub fn attr(&self, ep: u16, cl: u32, a: u32) -> Option<&AttrSpec> {
        self.cluster(ep, cl).and_then(|c| c.attr(a))
    }
    /// Shape class for `distinct`.
    pub fn shape_class(&self) -> String {
        let ncl: usize = self.endpoints.iter().map(|e| e.clusters.len()).sum();
        let nat: usize = self.endpoints.iter().flat_map(|e| e.clusters.iter()).map(|c| c.attrs.len()).sum();
        format!("e{}c{}a{}", self.endpoints.len(), ncl.min(12), (nat / 8).min(12))
    }
}

// ---------------------------------------------------------------------------------------------
// Reference expansion
// ---------------------------------------------------------------------------------------------

#[derive(Clone, Debug, PartialEq)]
pub enum Expect {
    /// Attribute data for this concrete element (value judged by the caller).
    Data { ep: u16, cl: u32, leaf: u32 },
    /// Concrete path: exactly one status of one of the allowed classes, and no effect.
    /// `primary` is the class / code the Matter rules name first.
    Status { path: PathReq, allowed: Vec<Class>, primary: Class, primary_code: Option<u16> },
    /// Successful write / invoke of this concrete element: one success status (or command
    /// response) and exactly one handler call.
    Done { ep: u16, cl: u32, leaf: u32 },
}

#[derive(Clone, Debug, Default)]
pub struct PathExpect {
    pub items: Vec<Expect>,
    /// The statement leaves the outcome for this request path open: only the "nothing beyond
    /// the permitted set" half of the oracle applies.
    pub open: Option<&'static str>,
}

#[derive(Clone, Debug)]
pub struct ElementInfo {
    pub exists: bool,
    pub declares_op: bool,
    pub permitted: bool,
    pub timed_only: bool,
    pub fab_scoped: bool,
    pub access: u16,
}

/// Is `op` on the concrete element permitted for the requester (exists + declared + ACL)?
pub fn element_info(node: &NodeSpec, acl: &DeviceAcl, r: &Requester, op: Op, ep: u16, cl: u32, leaf: u32) -> ElementInfo {
    let mut info = ElementInfo {
        exists: false,
        declares_op: false,
        permitted: false,
        timed_only: false,
        fab_scoped: false,
        access: 0,
    };
    let Some(e) = node.endpoint(ep) else { return info };
    let Some(c) = e.cluster(cl) else { return info };
    let access = match op {
        Op::Read | Op::Write => match c.attr(leaf) {
            Some(a) => a.access,
            None => return info,
        },
        Op::Invoke => match c.cmd(leaf) {
            Some(a) => a.access,
            None => return info,
        },
    };
    info.exists = true;
    info.access = access;
    info.declares_op = declares(access, op);
    info.timed_only = access & acc::TIMED_ONLY != 0;
    info.fab_scoped = access & acc::FAB_SCOPED != 0;
    info.permitted = match required_priv(access, op) {
        Some(p) => acl_allows(acl, r, ep, cl, &e.device_types, p),
        // A declaration that names no sufficient privilege: only the PASE commissioner,
        // which the algorithm always lets through, can be argued either way -> caller treats as open.
        None => false,
    };
    info
}

/// Would the requester pass the ACL check for View on (ep, cl)? Used for "absent vs access" leeway.
fn has_view(node: &NodeSpec, acl: &DeviceAcl, r: &Requester, ep: u16, cl: u32) -> bool {
    let dts = node.endpoint(ep).map(|e| e.device_types.clone()).unwrap_or_default();
    acl_allows(acl, r, ep, cl, &dts, Priv::View)
}

fn absent_status(node: &NodeSpec, acl: &DeviceAcl, r: &Requester, p: &PathReq, op: Op) -> Expect {
    let (ep, cl, leaf) = (p.ep.unwrap(), p.cl.unwrap(), p.leaf.unwrap());
    let code = if node.endpoint(ep).is_none() {
        ST_UNSUPPORTED_ENDPOINT
    } else if node.cluster(ep, cl).is_none() {
        ST_UNSUPPORTED_CLUSTER
    } else if op == Op::Invoke {
        ST_UNSUPPORTED_COMMAND
    } else {
        let _ = leaf;
        ST_UNSUPPORTED_ATTRIBUTE
    };
    let mut allowed = vec![Class::Absent];
    // The Matter rules let a node answer "access denied" for an absent element when the
    // requester has no privilege on the path at all (existence is not disclosed).
    if !has_view(node, acl, r, ep, cl) {
        allowed.push(Class::Access);
    }
    Expect::Status { path: p.clone(), allowed, primary: Class::Absent, primary_code: Some(code) }
}

pub struct ReadCtx<'a> {
    pub node: &'a NodeSpec,
    pub acl: &'a DeviceAcl,
    pub requester: &'a Requester,
    /// (ep, cl) -> filter version; data of a cluster whose current version equals it is omitted.
    pub dataver_filters: &'a [(u16, u32, u32)],
    pub current_dataver: &'a dyn Fn(u16, u32) -> u32,
}

impl ReadCtx<'_> {
    fn filtered(&self, ep: u16, cl: u32) -> bool {
        // first matching filter decides (duplicates are generated with equal versions only)
        self.dataver_filters
            .iter()
            .find(|(e, c, _)| *e == ep && *c == cl)
            .map(|(_, _, v)| *v == (self.current_dataver)(ep, cl))
            .unwrap_or(false)
    }
}

pub fn expand_read(ctx: &ReadCtx<'_>, paths: &[PathReq]) -> Vec<PathExpect> {
    paths.iter().map(|p| expand_read_path(ctx, p)).collect()
}

fn expand_read_path(ctx: &ReadCtx<'_>, p: &PathReq) -> PathExpect {
    let mut out = PathExpect::default();
    let (node, acl, r) = (ctx.node, ctx.acl, ctx.requester);
    if p.list_index != ListIdx::Absent {
        out.open = Some("list-index-in-read-path");
    }
    if !p.is_wildcard() {
        let (ep, cl, leaf) = (p.ep.unwrap(), p.cl.unwrap(), p.leaf.unwrap());
        let info = element_info(node, acl, r, Op::Read, ep, cl, leaf);
        if !info.exists {
            out.items.push(absent_status(node, acl, r, p, Op::Read));
        } else if required_priv(info.access, Op::Read).is_none() {
            // declaration names no privilege: statement silent on how a PASE requester fares
            if r.auth == Some(Auth::Pase) {
                out.open = Some("declaration-without-privilege");
            } else {
                out.items.push(Expect::Status {
                    path: p.clone(),
                    allowed: vec![Class::Access, Class::UnsupportedRw],
                    primary: if info.declares_op { Class::Access } else { Class::UnsupportedRw },
                    primary_code: None,
                });
            }
        } else if !info.declares_op {
            let mut allowed = vec![Class::UnsupportedRw];
            if !info.permitted {
                allowed.push(Class::Access);
            }
            out.items.push(Expect::Status { path: p.clone(), allowed, primary: Class::UnsupportedRw, primary_code: None });
        } else if !info.permitted {
            out.items.push(Expect::Status {
                path: p.clone(),
                allowed: vec![Class::Access],
                primary: Class::Access,
                primary_code: Some(0x7e),
            });
        } else if ctx.filtered(ep, cl) {
            // data-version filter: nothing is generated for this path
        } else {
            out.items.push(Expect::Data { ep, cl, leaf });
        }
        return out;
    }
    // Wildcard. A wildcard cluster with a concrete non-global attribute is not a valid path.
    if p.cl.is_none() {
        if let Some(a) = p.leaf {
            if !is_global_attr(a) {
                out.open = Some("wildcard-cluster-with-non-global-attribute");
                return out;
            }
        }
    }
    for e in &node.endpoints {
        if p.ep.map(|x| x != e.id).unwrap_or(false) {
            continue;
        }
        for c in &e.clusters {
            if p.cl.map(|x| x != c.id).unwrap_or(false) {
                continue;
            }
            for a in c.live_attrs() {
                if p.leaf.map(|x| x != a.id).unwrap_or(false) {
                    continue;
                }
                let info = element_info(node, acl, r, Op::Read, e.id, c.id, a.id);
                if required_priv(a.access, Op::Read).is_none() && r.auth == Some(Auth::Pase) && info.declares_op {
                    // outcome open for this element only: mark the whole path open
                    out.open = Some("declaration-without-privilege");
                    continue;
                }
                if info.declares_op && info.permitted && !ctx.filtered(e.id, c.id) {
                    out.items.push(Expect::Data { ep: e.id, cl: c.id, leaf: a.id });
                }
            }
        }
    }
    out
}

/// The set of concrete elements on which `op` may be performed for this requester
/// (exists, declares the operation, ACL grants the required privilege). Timed / fabric-scope
/// conditions are applied by the caller.
pub fn permitted_set(node: &NodeSpec, acl: &DeviceAcl, r: &Requester, op: Op) -> Vec<(u16, u32, u32)> {
    let mut out = Vec::new();
    for e in &node.endpoints {
        for c in &e.clusters {
            let leaves: Vec<(u32, u16)> = match op {
                Op::Invoke => c.cmds.iter().map(|x| (x.id, x.access)).collect(),
                _ => c.live_attrs().map(|x| (x.id, x.access)).collect(),
            };
            for (id, access) in leaves {
                let ok = match required_priv(access, op) {
                    Some(p) => acl_allows(acl, r, e.id, c.id, &e.device_types, p),
                    None => r.auth == Some(Auth::Pase),
                };
                let decl = declares(access, op) || (op == Op::Invoke && r.auth == Some(Auth::Pase));
                if ok && decl {
                    out.push((e.id, c.id, id));
                }
            }
        }
    }
    out
}

pub struct ActCtx<'a> {
    pub node: &'a NodeSpec,
    pub acl: &'a DeviceAcl,
    pub requester: &'a Requester,
    /// The action arrives inside a timed interaction that has not expired.
    pub timed_live: bool,
    pub current_dataver: &'a dyn Fn(u16, u32) -> u32,
}

pub fn expand_write(ctx: &ActCtx<'_>, items: &[WriteItem]) -> Vec<PathExpect> {
    items.iter().map(|w| expand_write_item(ctx, w)).collect()
}

fn act_status(ctx: &ActCtx<'_>, p: &PathReq, op: Op, info: &ElementInfo) -> Option<Expect> {
    // Returns the expected refusal for an existing concrete element, or None if it may act.
    let no_fabric = info.fab_scoped && ctx.requester.fab_idx == 0 && op == Op::Invoke;
    let needs_timed = info.timed_only && !ctx.timed_live;
    let undeclared = !info.declares_op && op == Op::Write;
    let denied = !info.permitted || no_fabric;
    let mut allowed = Vec::new();
    if undeclared {
        allowed.push(Class::UnsupportedRw);
    }
    if denied {
        allowed.push(Class::Access);
    }
    if needs_timed {
        allowed.push(Class::NeedsTimed);
    }
    if allowed.is_empty() {
        return None;
    }
    // Precedence named by the Matter rules: existence, then access, then writability / timed.
    let primary = if denied {
        Class::Access
    } else if undeclared {
        Class::UnsupportedRw
    } else {
        Class::NeedsTimed
    };
    Some(Expect::Status { path: p.clone(), allowed, primary, primary_code: None })
}

fn expand_write_item(ctx: &ActCtx<'_>, w: &WriteItem) -> PathExpect {
    let mut out = PathExpect::default();
    let p = &w.path;
    let (node, acl, r) = (ctx.node, ctx.acl, ctx.requester);
    if p.cl.is_none() || p.leaf.is_none() {
        out.open = Some("write-with-wildcard-cluster-or-attribute");
        return out;
    }
    let (cl, leaf) = (p.cl.unwrap(), p.leaf.unwrap());
    let one = |ep: u16, concrete: bool, out: &mut PathExpect| {
        let info = element_info(node, acl, r, Op::Write, ep, cl, leaf);
        if !info.exists {
            if concrete {
                out.items.push(absent_status(node, acl, r, p, Op::Write));
            }
            return;
        }
        if required_priv(info.access, Op::Write).is_none() && r.auth == Some(Auth::Pase) {
            out.open = Some("declaration-without-privilege");
            return;
        }
        match act_status(ctx, p, Op::Write, &info) {
            Some(st) => {
                if concrete {
                    out.items.push(st);
                }
            }
            None => {
                let a = node.attr(ep, cl, leaf).unwrap();
                let is_list = a.quality & qual::ARRAY != 0;
                if let Some(dv) = w.data_ver {
                    if dv != (ctx.current_dataver)(ep, cl) {
                        if concrete {
                            out.items.push(Expect::Status {
                                path: p.clone(),
                                allowed: vec![Class::VersionMismatch],
                                primary: Class::VersionMismatch,
                                primary_code: Some(0x92),
                            });
                        }
                        return;
                    }
                }
                match p.list_index {
                    ListIdx::Absent => {}
                    ListIdx::Null if is_list => {}
                    _ => {
                        // list index on a non-list attribute / concrete index: left open
                        out.open = Some("write-with-list-index");
                        return;
                    }
                }
                out.items.push(Expect::Done { ep, cl, leaf });
            }
        }
    };
    match p.ep {
        Some(ep) => one(ep, true, &mut out),
        None => {
            for e in &node.endpoints {
                one(e.id, false, &mut out);
            }
        }
    }
    out
}

pub fn expand_invoke(ctx: &ActCtx<'_>, items: &[InvokeItem]) -> Vec<PathExpect> {
    items
        .iter()
        .map(|w| {
            let mut out = PathExpect::default();
            let p = &w.path;
            let (node, acl, r) = (ctx.node, ctx.acl, ctx.requester);
            if p.cl.is_none() || p.leaf.is_none() {
                out.open = Some("invoke-with-wildcard-cluster-or-command");
                return out;
            }
            let (cl, leaf) = (p.cl.unwrap(), p.leaf.unwrap());
            let one = |ep: u16, concrete: bool, out: &mut PathExpect| {
                let info = element_info(node, acl, r, Op::Invoke, ep, cl, leaf);
                if !info.exists {
                    if concrete {
                        out.items.push(absent_status(node, acl, r, p, Op::Invoke));
                    }
                    return;
                }
                let no_priv = required_priv(info.access, Op::Invoke).is_none();
                if (no_priv || !info.declares_op) && !(info.fab_scoped && r.fab_idx == 0) {
                    // contradictory declaration: (a) no privilege named, or (b) privilege named
                    // but the invoke operation itself not declared. Outcome open, except that a
                    // fabric-scoped command is refused to a fabric-less requester in any case.
                    if r.auth == Some(Auth::Pase) || (!no_priv && info.permitted) {
                        out.open = Some("contradictory-command-declaration");
                        return;
                    }
                }
                match act_status(ctx, p, Op::Invoke, &info) {
                    Some(st) => {
                        if concrete {
                            out.items.push(st);
                        }
                    }
                    None => out.items.push(Expect::Done { ep, cl, leaf }),
                }
            };
            match p.ep {
                Some(ep) => one(ep, true, &mut out),
                None => {
                    // a unicast invoke with a wildcard endpoint is not a valid action; what the
                    // node answers is open, but nothing outside the permitted set may execute
                    out.open = Some("invoke-with-wildcard-endpoint");
                    for e in &node.endpoints {
                        one(e.id, false, &mut out);
                    }
                }
            }
            out
        })
        .collect()
}

// ---------------------------------------------------------------------------------------------
// Events
// ---------------------------------------------------------------------------------------------

#[derive(Clone, Debug)]
pub struct EmittedEvent {
    pub number: u64,
    pub ep: u16,
    pub cl: u32,
    pub ev: u32,
    pub prio: u8,
    /// FabricIndex carried in the payload (fabric-sensitive event), if any.
    pub fabric: Option<u8>,
    pub payload: Val,
}

pub struct EventCtx<'a> {
    pub node: &'a NodeSpec,
    pub acl: &'a DeviceAcl,
    pub requester: &'a Requester,
    pub event_min: &'a [u64],
    pub fabric_filtered: bool,
}

fn event_permitted(ctx: &EventCtx<'_>, ep: u16, cl: u32, ev: u32) -> Option<bool> {
    let e = ctx.node.endpoint(ep)?;
    let c = e.cluster(cl)?;
    let s = c.event(ev)?;
    Some(match required_priv(s.access, Op::Read) {
        Some(p) => declares(s.access, Op::Read) && acl_allows(ctx.acl, ctx.requester, ep, cl, &e.device_types, p)
            || ctx.requester.auth == Some(Auth::Pase),
        None => ctx.requester.auth == Some(Auth::Pase),
    })
}

/// Expected statuses for concrete event paths, and the expected event numbers in ascending order.
pub fn expand_events(ctx: &EventCtx<'_>, paths: &[PathReq], emitted: &[EmittedEvent]) -> (Vec<Expect>, Vec<u64>) {
    let mut statuses = Vec::new();
    let mut live_paths: Vec<&PathReq> = Vec::new();
    for p in paths {
        if p.is_wildcard() {
            live_paths.push(p);
            continue;
        }
        let (ep, cl, ev) = (p.ep.unwrap(), p.cl.unwrap(), p.leaf.unwrap());
        match event_permitted(ctx, ep, cl, ev) {
            None => {
                let mut allowed = vec![Class::Absent];
                if !has_view(ctx.node, ctx.acl, ctx.requester, ep, cl) {
                    allowed.push(Class::Access);
                }
                statuses.push(Expect::Status { path: p.clone(), allowed, primary: Class::Absent, primary_code: None });
            }
            Some(false) => statuses.push(Expect::Status {
                path: p.clone(),
                allowed: vec![Class::Access],
                primary: Class::Access,
                primary_code: Some(0x7e),
            }),
            Some(true) => live_paths.push(p),
        }
    }
    let min = ctx.event_min.iter().copied().max().unwrap_or(0);
    let mut nums = Vec::new();
    for e in emitted {
        if e.number < min {
            continue;
        }
        if ctx.fabric_filtered {
            if let Some(f) = e.fabric {
                if f != ctx.requester.fab_idx {
                    continue;
                }
            }
        }
        if event_permitted(ctx, e.ep, e.cl, e.ev) != Some(true) {
            continue;
        }
        let hit = live_paths.iter().any(|p| {
            p.ep.map(|x| x == e.ep).unwrap_or(true)
                && p.cl.map(|x| x == e.cl).unwrap_or(true)
                && p.leaf.map(|x| x == e.ev).unwrap_or(true)
        });
        if hit {
            nums.push(e.number);
        }
    }
    nums.sort();
    (statuses, nums)
}

// ---------------------------------------------------------------------------------------------
// Probe values: pure function of (endpoint, cluster, attribute, version)
// ---------------------------------------------------------------------------------------------

fn mix(mut x: u64) -> u64 {
    x ^= x >> 33;
    x = x.wrapping_mul(0xff51_afd7_ed55_8ccd);
    x ^= x >> 33;
    x = x.wrapping_mul(0xc4ce_b9fe_1a85_ec53);
    x ^ (x >> 33)
}

pub fn value_seed(ep: u16, cl: u32, attr: u32, version: u32) -> u64 {
    mix(((ep as u64) << 48) ^ ((cl as u64) << 24) ^ (attr as u64) ^ ((version as u64) << 40) ^ 0x9e37_79b9)
}

pub fn gen_bytes(seed: u64, n: usize) -> Vec<u8> {
    let mut out = Vec::with_capacity(n);
    let mut s = seed;
    while out.len() < n {
        s = mix(s.wrapping_add(0x9e37_79b9_7f4a_7c15));
        for b in s.to_le_bytes() {
            if out.len() < n {
                out.push(b);
            }
        }
    }
    out
}

pub fn gen_utf8(seed: u64, n: usize) -> Vec<u8> {
    gen_bytes(seed, n).into_iter().map(|b| b'a' + (b % 26)).collect()
}

/// A scalar whose encoding occupies exactly `width` value bytes (top byte non-zero).
pub fn gen_uint(seed: u64, width: u8) -> u64 {
    let s = mix(seed ^ 0x55);
    match width {
        1 => s & 0xff,
        2 => 0x100 | (s & 0xffff),
        4 => 0x1_0000 | (s & 0xffff_ffff),
        _ => 0x1_0000_0000 | s,
    }
}

pub fn elem_value(seed: u64, idx: usize, elem: &Elem) -> Val {
    let s = mix(seed ^ (idx as u64).wrapping_mul(0x1234_5678_9abc_def1));
    match elem {
        Elem::U(w) => Val::U(gen_uint(s, *w)),
        Elem::Octets(n) => Val::Bytes(gen_bytes(s, *n)),
        Elem::Struct(n) => Val::Struct(vec![Tlv::ctx(0, Val::U(gen_uint(s, 4))), Tlv::ctx(1, Val::Bytes(gen_bytes(s ^ 1, *n)))]),
    }
}

pub fn probe_value(ep: u16, cl: u32, attr: u32, version: u32, shape: &Shape) -> Val {
    let s = value_seed(ep, cl, attr, version);
    match shape {
        Shape::U(w) => Val::U(gen_uint(s, *w)),
        Shape::Bool => Val::Bool(s & 1 == 1),
        Shape::Null => Val::Null,
        Shape::Octets(n) => Val::Bytes(gen_bytes(s, *n)),
        Shape::Utf8(n) => Val::Utf8(gen_utf8(s, *n)),
        Shape::List { count, elem } => Val::Array((0..*count).map(|i| Tlv::anon(elem_value(s, i, elem))).collect()),
    }
}

/// Values of the global attributes as the Matter rules define them for a cluster description.
pub fn global_value(c: &ClusterSpec, attr: u32) -> Option<Val> {
    let arr = |v: Vec<u32>| Val::Array(v.into_iter().map(|x| Tlv::anon(Val::U(x as u64))).collect());
    Some(match attr {
        0xFFF8 => {
            let mut v: Vec<u32> = c.cmds.iter().filter_map(|c| c.resp_id).collect();
            v.sort();
            v.dedup();
            arr(v)
        }
        0xFFF9 => arr(c.cmds.iter().map(|c| c.id).collect()),
        0xFFFA => arr(c.events.iter().map(|c| c.id).collect()),
        0xFFFB => arr(c.live_attrs().map(|c| c.id).collect()),
        0xFFFC => Val::U(c.feature_map as u64),
        0xFFFD => Val::U(c.revision as u64),
        _ => return None,
    })
}

pub fn val_hash(v: &Val) -> u64 {
    let mut b = Vec::new();
    Tlv::anon(v.clone()).encode(&mut b);
    crate::sim::rng::Fnv::of(&b)
}

/// Multiset difference helper: returns (missing from `got`, extra in `got`).
pub fn multiset_diff<T: Ord + Clone>(exp: &[T], got: &[T]) -> (Vec<T>, Vec<T>) {
    let mut m: BTreeMap<T, i64> = BTreeMap::new();
    for e in exp {
        *m.entry(e.clone()).or_insert(0) += 1;
    }
    for g in got {
        *m.entry(g.clone()).or_insert(0) -= 1;
    }
    let mut missing = Vec::new();
    let mut extra = Vec::new();
    for (k, n) in m {
        for _ in 0..n.max(0) {
            missing.push(k.clone());
        }
        for _ in 0..(-n).max(0) {
            extra.push(k.clone());
        }
    }
    (missing, extra)
}
