//! C15 — a nonce is never used for two different messages.
//!
//! The passive wire monitor (`sim::tapmon`) and the snapshot monitor (`sim::snapmon`) are
//! linked into every full-stack workload (C01 C02 C03 C07 C08 C09 C11 C13 ...), where a
//! violation is reported under the C15 signature. This check adds the retransmission-heavy
//! schedules of its own:
//!  (a) CASE handshakes in which each handshake message (Sigma1/2/3, Sigma2Resume, status) is
//!      forced through 1..4 retransmissions, with 0-40 % additional random loss - this is
//!      where a rebuilt (not byte-identical) retransmission of a message carrying a
//!      randomised signature would show;
//!  (b) complete commissionings and administrative traffic over PASE and CASE (ArmFailSafe ..
//!      CommissioningComplete, reads, writes, timed invokes, session resumption) under 10-35 %
//!      random loss, so that requests, responses, status responses and stand-alone
//!      acknowledgements are retransmitted while new messages (piggy-back acknowledgement
//!      candidates) keep arriving.
//! Oracle: same (sender, destination, session id, counter) => same bytes; per-session send
//! counter never decreases across snapshots; local session ids unique among live secure
//! sessions; exchange ids unique per session and role.

use serde_json::json;

use crate::mon::c01::{self, CredDefect, Params, WireFault};
use crate::mon::commis::{self, Ctx as SCtx, Step, WorldParams};
use crate::report::{Ctx, Report};
use crate::sim::rng::{subseed, Fnv, Rng};
use crate::sim::snapmon::SnapMonitor;

fn case_params(rng: &mut Rng) -> Params {
    let ncats = rng.usize(3);
    Params {
        seed: rng.u64(),
        with_icac: rng.bool(),
        cats: (0..ncats).map(|k| ((0x200 + k as u32) << 16) | 1).collect(),
        defect_side_initiator: false,
        defect: CredDefect::None,
        wire: WireFault::DropFirst {
            nth: rng.below(3) as u8,
            from_initiator: rng.bool(),
            copies: 1 + rng.below(4) as u8,
        },
        extra_fabrics: rng.below(2) as u8,
        chaos: *rng.pick(&[0u8, 0, 15, 30, 40]),
        shuffle: true,
    }
}

fn admin_steps(rng: &mut Rng) -> Vec<Step> {
    let mut s = vec![
        Step::Arm { ctx: SCtx::Pase, secs: 120 },
        Step::Csr { ctx: SCtx::Pase, update: false },
        Step::AddRoot { ctx: SCtx::Pase, fab_b: false },
        Step::AddNoc { ctx: SCtx::Pase, fab_b: false },
        Step::AddWifi { ctx: SCtx::Pase, n: 1 },
        Step::Case { fab_b: false },
        Step::Complete { ctx: SCtx::CaseA },
    ];
    let extra = 3 + rng.usize(8);
    for i in 0..extra {
        s.push(match rng.below(6) {
            0 => Step::WriteLabel { ctx: SCtx::CaseA, n: i as u8 },
            1 => Step::WriteAcl { ctx: SCtx::CaseA, n: (i % 3) as u8 },
            2 => Step::Probe { ctx: SCtx::CaseA },
            3 => Step::OpenWindow { ctx: SCtx::CaseA },
            4 => Step::Revoke { ctx: SCtx::CaseA },
            _ => Step::Case { fab_b: false },
        });
    }
    s.push(Step::Sleep { ms: 3000 });
    s
}

pub fn run(ctx: &Ctx) -> Report {
    let mut rep = Report::new(
        "C15",
        "Retransmission-heavy schedules: (a) CASE handshakes with each handshake message dropped 1-4 times plus random loss; \
         (b) commissioning + administrative IM traffic under 10-35 % loss; (c) application ping-pong and streams over mirrored \
         CASE / PASE / unsecured sessions under the MRP adversaries of C09. A scenario is non-trivial if at least one byte-identical \
         retransmission of a secured or handshake datagram was observed; distinct = (family, fault parameters, number of datagrams, \
         number of retransmissions) tuples.",
    );
    crate::util::quiet_panics();
    rep.assumptions.push("without the keys the wire tap identifies a session by (sender, destination, peer-assigned session id): counter order on the wire is not judged (see sim::tapmon); monotonicity is judged on session-table snapshots".into());
    rep.floor("secured_datagrams", 3000);
    rep.floor("byte_identical_retransmissions", 300);
    rep.floor("handshake_retransmissions_forced", 100);
    rep.floor("snapshots_checked", 500);
    rep.floor("family:mrp", 200);
    rep.floor("exchange_id_space_wrapped", 2);
    rep.floor("family:case", 200);
    rep.floor("family:admin", 200);

    let shard_seed = ctx.shard_seed();

    // (d) exchange identifiers over more allocations than the identifier space holds
    if ctx.replay.as_ref().map(|r| r["family"].as_str() == Some("wrap")).unwrap_or(ctx.replay.is_none()) {
        let cases: u64 = if ctx.replay.is_some() { 1 } else if ctx.thorough { 4 } else if ctx.shard < 4 { 1 } else { 0 };
        for k in 0..cases {
            let (seed, hold) = match &ctx.replay {
                Some(r) => (
                    r["seed"].as_str().and_then(|s| s.parse().ok()).unwrap_or(0),
                    r["hold"].as_u64().unwrap_or(1) as usize,
                ),
                None => (subseed(shard_seed, &[0xD0, k]), 1 + ((ctx.shard + k) % 2) as usize),
            };
            let o = crate::mon::c15_wrap::run_wrap_case(seed, hold);
            rep.evaluations += 1;
            rep.count("family:wrap");
            rep.count_n("exchange_ids_allocated", o.allocations);
            rep.count_n("exchange_table_snapshots_near_wrap", o.snapshots);
            if o.allocations > 65_536 {
                rep.count("exchange_id_space_wrapped");
            }
            if let Some(e) = &o.error {
                rep.inconclusive(&format!("wrap-case:{}", e.split(' ').next().unwrap_or("")));
            }
            for v in &o.violations {
                rep.violation(
                    "identifier-uniqueness",
                    "C15/ids/exchange-id-not-unique/after-identifier-wrap",
                    v.clone(),
                    json!({"check":"C15","family":"wrap","seed": seed.to_string(), "hold": hold}),
                );
            }
        }
        if ctx.replay.is_some() {
            return rep;
        }
    }
    let replay_idx = ctx.replay.as_ref().map(|r| {
        (
            r["shard_seed"].as_str().and_then(|s| s.parse::<u64>().ok()).unwrap_or(0),
            r["index"].as_u64().unwrap_or(0),
        )
    });
    let n = if replay_idx.is_some() { 1 } else { ctx.share(960, 48_000) };
    for k in 0..n {
        let (seed, idx) = match replay_idx {
            Some((s, i)) => (s, i),
            None => (shard_seed, k * ctx.nshards + ctx.shard),
        };
        let mut rng = Rng::new(subseed(seed, &[idx]));
        let replay = json!({"check":"C15","shard_seed": seed.to_string(), "index": idx});
        let mut snap = SnapMonitor::new();
        rep.evaluations += 1;
        let (viol, stats, family, datagrams): (Vec<String>, (u64, u64), &str, u64) = if idx % 3 == 2 {
            // (c) application ping-pong / streams over mirrored CASE, PASE and unsecured sessions
            // under the scripted and random MRP adversaries of C09 (stale acknowledgements
            // overtaken by responses, duplicates after acks, interface back-pressure, ...)
            let p = crate::mon::c09::gen_params(&mut rng, idx);
            let o = crate::mon::c09::run_case(&p);
            if let Some(msg) = &o.panic {
                rep.violation("no-panic", &format!("C15/panic/{}", crate::util::panic_class(msg)), format!("panic {} params {:?}", msg, p), replay.clone());
                continue;
            }
            if o.setup_error.is_some() {
                rep.inconclusive("setup-failed(mrp world)");
                continue;
            }
            let mut seen: std::collections::HashMap<(usize, u64), u32> = std::collections::HashMap::new();
            let mut secured = 0u64;
            let mut retrans = 0u64;
            for t in &o.txs {
                if t.w.is_some() {
                    secured += 1;
                }
                let c = seen.entry((t.src, t.hash)).or_insert(0);
                if *c > 0 {
                    retrans += 1;
                }
                *c += 1;
            }
            (o.tap_violations.clone(), (secured, retrans), "mrp", o.txs.len() as u64)
        } else if idx % 3 == 0 {
            let p = case_params(&mut rng);
            let o = c01::run_case(&p);
            if let Some(msg) = &o.panic {
                rep.violation("no-panic", &format!("C15/panic/{}", crate::util::panic_class(msg)), format!("panic {} params {:?}", msg, p), replay.clone());
                continue;
            }
            snap.observe(0, &o.init_sessions);
            snap.observe(1, &o.resp_sessions);
            if o.max_copies > 1 {
                rep.count_n("handshake_retransmissions_forced", (o.max_copies - 1) as u64);
            }
            (o.tap_violations.clone(), o.tap_stats, "case", o.datagrams as u64)
        } else {
            let steps = admin_steps(&mut rng);
            let p = WorldParams {
                seed: rng.u64(),
                steps,
                shuffle: true,
                kv_fail_at: None,
                chaos: *rng.pick(&[10u8, 20, 35]),
            };
            let r = commis::run_world(&p);
            if let Some(msg) = &r.panic {
                rep.violation("no-panic", &format!("C15/panic/{}", crate::util::panic_class(msg)), format!("panic {}", msg), replay.clone());
                continue;
            }
            if r.setup_failed {
                rep.inconclusive("setup-failed(certificate generator)");
                continue;
            }
            for l in &r.log {
                snap.observe(1 + 10 * l.incarnation as usize, &l.dev.sessions);
            }
            (r.tap_violations.clone(), r.tap_stats, "admin", r.datagrams)
        };
        rep.count_n("secured_datagrams", stats.0);
        rep.count_n("byte_identical_retransmissions", stats.1);
        rep.count_n("datagrams_observed", datagrams);
        rep.count_n("snapshots_checked", snap.snapshots);
        rep.count(&format!("family:{}", family));
        if stats.1 > 0 {
            let mut f = Fnv::new();
            f.add(format!("{}|{}|{}|{}", family, idx, datagrams, stats.1).as_bytes());
            rep.distinct.insert(f.0);
        }
        for v in viol {
            rep.violation(
                "nonce-uniqueness",
                &format!("C15/tap/{}/{}", v.split(':').next().unwrap_or("x"), family),
                format!("passive wire monitor: {}", v),
                replay.clone(),
            );
        }
        for v in &snap.violations {
            rep.violation(
                "snapshot-invariants",
                &format!("C15/snapshot/{}/{}", v.split(':').next().unwrap_or("x"), family),
                format!("snapshot monitor: {}", v),
                replay.clone(),
            );
        }
        if k < 2 {
            rep.sample(json!({"family": family, "index": idx, "datagrams": datagrams, "secured": stats.0, "retransmissions": stats.1}));
        }
    }
    rep
}
