//! Probe data model: an `AsyncHandler + Metadata` whose `Node` is generated at run time from
//! an `im_ref::NodeSpec`, whose attribute values are a pure function of
//! (endpoint, cluster, attribute, version) with a configurable encoded size, whose per-cluster
//! data versions are controllable, and which logs every read / write / invoke it receives.
//!
//! The real rs-matter root-endpoint system handlers are chained in front of it, so that a
//! node description may carry real system clusters (ACL, Operational Credentials) on
//! endpoint 0 next to the probe clusters.

#![allow(dead_code)]

use std::cell::{Cell, RefCell};
use std::collections::HashMap;
use std::rc::Rc;

use rs_matter::acl::AuthMode;
use rs_matter::dm::endpoints::{EthSysHandler, EthSysHandlerBuilder};
use rs_matter::dm::{
    Access, AsyncHandler, Attribute, Cluster, Command, DeviceType, Endpoint, Event, HandlerContext, InvokeContext,
    InvokeReply, LifecycleOp, MatchContext, Metadata, Node, Quality, ReadContext, ReadReply, Reply, WriteContext,
};
use rs_matter::error::{Error, ErrorCode};
use rs_matter::tlv::{TLVElement, TLVTag, TLVWrite};

use super::im_ref::{
    self, qual, AttrSpec, ClusterSpec, CmdSpec, Elem, EndpointSpec, EventSpec, ListIdx, NodeSpec, Shape, Tlv, Val,
};
use crate::sim::clock;
use crate::sim::rng::Rng;

/// Probe cluster ids live above this bound; everything below on endpoint 0 is a real system cluster.
pub const PROBE_CLUSTER_BASE: u32 = 0xFFF1_0000;

#[derive(Clone, Copy, Debug, PartialEq, Eq)]
pub enum CallOp {
    Read,
    Write,
    Invoke,
}

#[derive(Clone, Debug)]
pub struct Call {
    pub op: CallOp,
    pub ep: u16,
    pub cl: u32,
    pub leaf: u32,
    pub list_index: ListIdx,
    pub list_chunked: bool,
    /// FNV of the TLV value handed to a write / invoke (0 for reads).
    pub data_hash: u64,
    /// Accessor identity as rs-matter presents it to the handler.
    pub fab_idx: u8,
    pub auth: Option<u8>,
    pub peer_node: Option<u64>,
    /// Did the element exist in the node that was current when the call arrived?
    pub exists_now: bool,
    /// The handler's own verdict: Ok / error code name.
    pub result: Result<(), String>,
    pub t: u64,
    /// Index of the controller step during which the call arrived.
    pub step: u32,
}

pub struct ProbeInner {
    node: Cell<&'static Node<'static>>,
    spec: RefCell<Rc<NodeSpec>>,
    shapes: RefCell<HashMap<(u16, u32, u32), Shape>>,
    versions: RefCell<HashMap<(u16, u32, u32), u32>>,
    datavers: RefCell<HashMap<(u16, u32), u32>>,
    pub log: RefCell<Vec<Call>>,
    pub step: Cell<u32>,
    /// Swap to this node after that many further read calls (composition change inside one answer).
    swap_after_reads: RefCell<Option<(u32, Rc<NodeSpec>, &'static Node<'static>)>>,
    pub reads_seen: Cell<u64>,
    /// Every composition change: (controller step during which it took effect, new composition).
    pub swaps: RefCell<Vec<(u32, Rc<NodeSpec>)>>,
}

#[derive(Clone)]
pub struct Probe(pub Rc<ProbeInner>);

/// Frozen view of the probe's state (what the reference must use for a step).
#[derive(Clone, Debug)]
pub struct ProbeSnap {
    pub spec: Rc<NodeSpec>,
    shapes: HashMap<(u16, u32, u32), Shape>,
    versions: HashMap<(u16, u32, u32), u32>,
    datavers: HashMap<(u16, u32), u32>,
}

pub fn default_dataver(ep: u16, cl: u32) -> u32 {
    (im_ref::value_seed(ep, cl, 0, 0) as u32) | 1
}

impl ProbeSnap {
    pub fn dataver(&self, ep: u16, cl: u32) -> u32 {
        self.datavers.get(&(ep, cl)).copied().unwrap_or_else(|| default_dataver(ep, cl))
    }
    pub fn shape(&self, ep: u16, cl: u32, attr: u32) -> Option<Shape> {
        if let Some(s) = self.shapes.get(&(ep, cl, attr)) {
            return Some(s.clone());
        }
        self.spec.attr(ep, cl, attr).map(|a| a.shape.clone())
    }
    pub fn version(&self, ep: u16, cl: u32, attr: u32) -> u32 {
        self.versions.get(&(ep, cl, attr)).copied().unwrap_or(0)
    }
    /// The value the reference expects for this attribute (None: not modelled).
    pub fn expected_value(&self, ep: u16, cl: u32, attr: u32) -> Option<Val> {
        self.expected_value_in(&self.spec, ep, cl, attr)
    }
    pub fn expected_value_in(&self, spec: &NodeSpec, ep: u16, cl: u32, attr: u32) -> Option<Val> {
        let c = spec.cluster(ep, cl)?;
        if c.system {
            return None;
        }
        if im_ref::is_global_attr(attr) {
            return im_ref::global_value(c, attr);
        }
        let shape = match self.shapes.get(&(ep, cl, attr)) {
            Some(s) => s.clone(),
            None => c.attr(attr)?.shape.clone(),
        };
        Some(im_ref::probe_value(ep, cl, attr, self.version(ep, cl, attr), &shape))
    }
}

fn leak<T>(v: Vec<T>) -> &'static [T] {
    Box::leak(v.into_boxed_slice())
}

fn with_all_attrs(_: &Attribute, _: u16, _: u32) -> bool {
    true
}
fn with_required_attrs(a: &Attribute, _: u16, _: u32) -> bool {
    !a.quality.contains(Quality::OPTIONAL)
}
fn with_all_cmds(_: &Command, _: u16, _: u32) -> bool {
    true
}
fn with_all_events(_: &Event, _: u16, _: u32) -> bool {
    true
}

/// Real system clusters that may be placed on endpoint 0: (metadata, spec).
pub fn system_clusters() -> Vec<Cluster<'static>> {
    use rs_matter::dm::clusters::{acl, desc, noc};
    vec![
        <desc::DescHandler as desc::ClusterHandler>::CLUSTER,
        <acl::AclHandler as acl::ClusterHandler>::CLUSTER,
        <noc::NocHandler as noc::ClusterHandler>::CLUSTER,
    ]
}

pub const CLUSTER_ACL: u32 = 0x1f;
pub const CLUSTER_NOC: u32 = 0x3e;
pub const CLUSTER_DESC: u32 = 0x1d;

/// Description of a real cluster's metadata in reference terms (values not modelled).
pub fn spec_of_system_cluster(c: &Cluster<'static>) -> ClusterSpec {
    ClusterSpec {
        id: c.id,
        revision: c.revision,
        feature_map: c.feature_map,
        attrs: c
            .attributes
            .iter()
            .filter(|a| (c.with_attrs)(a, c.revision, c.feature_map))
            .map(|a| AttrSpec { id: a.id, access: a.access.bits(), quality: a.quality.bits(), shape: Shape::Null })
            .collect(),
        cmds: c
            .commands
            .iter()
            .filter(|a| (c.with_cmds)(a, c.revision, c.feature_map))
            .map(|a| CmdSpec { id: a.id, resp_id: a.resp_id, access: a.access.bits() })
            .collect(),
        events: c
            .events
            .iter()
            .filter(|a| (c.with_events)(a, c.revision, c.feature_map))
            .map(|a| EventSpec { id: a.id, access: a.access.bits() })
            .collect(),
        required_only: false,
        system: true,
    }
}

/// Build the rs-matter `Node` for a description (leaked to 'static: test process).
pub fn build_node(spec: &NodeSpec) -> &'static Node<'static> {
    let sys = system_clusters();
    let mut eps: Vec<Endpoint<'static>> = Vec::new();
    for e in &spec.endpoints {
        let mut cls: Vec<Cluster<'static>> = Vec::new();
        for c in &e.clusters {
            if c.system {
                if let Some(sc) = sys.iter().find(|s| s.id == c.id) {
                    cls.push(sc.clone());
                }
                continue;
            }
            let attrs: Vec<Attribute> = c
                .attrs
                .iter()
                .map(|a| {
                    Attribute::new(a.id, Access::from_bits_retain(a.access), Quality::from_bits_retain(a.quality))
                })
                .collect();
            let cmds: Vec<Command> = c
                .cmds
                .iter()
                .map(|a| Command::new(a.id, a.resp_id, Access::from_bits_retain(a.access)))
                .collect();
            let evs: Vec<Event> = c.events.iter().map(|a| Event::new(a.id, Access::from_bits_retain(a.access))).collect();
            cls.push(Cluster::new(
                c.id,
                c.revision,
                c.feature_map,
                leak(attrs),
                leak(cmds),
                leak(evs),
                if c.required_only { with_required_attrs } else { with_all_attrs },
                with_all_cmds,
                with_all_events,
            ));
        }
        let dts: Vec<DeviceType> = e.device_types.iter().map(|d| DeviceType { dtype: *d as u16, drev: 1 }).collect();
        eps.push(Endpoint::new(e.id, leak(dts), leak(cls)));
    }
    Box::leak(Box::new(Node { endpoints: leak(eps) }))
}

impl Probe {
    pub fn new(spec: Rc<NodeSpec>) -> Self {
        let node = build_node(&spec);
        Probe(Rc::new(ProbeInner {
            node: Cell::new(node),
            spec: RefCell::new(spec),
            shapes: RefCell::new(HashMap::new()),
            versions: RefCell::new(HashMap::new()),
            datavers: RefCell::new(HashMap::new()),
            log: RefCell::new(Vec::new()),
            step: Cell::new(0),
            swap_after_reads: RefCell::new(None),
            reads_seen: Cell::new(0),
            swaps: RefCell::new(Vec::new()),
        }))
    }

    pub fn spec(&self) -> Rc<NodeSpec> {
        self.0.spec.borrow().clone()
    }

    pub fn snapshot(&self) -> ProbeSnap {
        ProbeSnap {
            spec: self.spec(),
            shapes: self.0.shapes.borrow().clone(),
            versions: self.0.versions.borrow().clone(),
            datavers: self.0.datavers.borrow().clone(),
        }
    }

    /// Swap the node composition now.
    pub fn swap(&self, spec: Rc<NodeSpec>) {
        let node = build_node(&spec);
        self.0.node.set(node);
        self.0.swaps.borrow_mut().push((self.0.step.get(), spec.clone()));
        *self.0.spec.borrow_mut() = spec;
    }

    /// Swap the node composition after `n` further attribute-read calls.
    pub fn swap_after_reads(&self, n: u32, spec: Rc<NodeSpec>) {
        let node = build_node(&spec);
        *self.0.swap_after_reads.borrow_mut() = Some((n, spec, node));
    }

    pub fn set_shape(&self, ep: u16, cl: u32, attr: u32, s: Shape) {
        self.0.shapes.borrow_mut().insert((ep, cl, attr), s);
    }

    pub fn clear_shapes(&self) {
        self.0.shapes.borrow_mut().clear();
    }

    pub fn shape(&self, ep: u16, cl: u32, attr: u32) -> Option<Shape> {
        if let Some(s) = self.0.shapes.borrow().get(&(ep, cl, attr)) {
            return Some(s.clone());
        }
        self.0.spec.borrow().attr(ep, cl, attr).map(|a| a.shape.clone())
    }

    pub fn version(&self, ep: u16, cl: u32, attr: u32) -> u32 {
        self.0.versions.borrow().get(&(ep, cl, attr)).copied().unwrap_or(0)
    }

    pub fn bump_version(&self, ep: u16, cl: u32, attr: u32) -> u32 {
        let mut v = self.0.versions.borrow_mut();
        let e = v.entry((ep, cl, attr)).or_insert(0);
        *e += 1;
        *e
    }

    pub fn dataver(&self, ep: u16, cl: u32) -> u32 {
        self.0
            .datavers
            .borrow()
            .get(&(ep, cl))
            .copied()
            .unwrap_or_else(|| default_dataver(ep, cl))
    }

    pub fn set_dataver(&self, ep: u16, cl: u32, v: u32) {
        self.0.datavers.borrow_mut().insert((ep, cl), v);
    }

    /// The value the reference expects for this attribute right now.
    pub fn expected_value(&self, ep: u16, cl: u32, attr: u32) -> Option<Val> {
        let spec = self.0.spec.borrow();
        let c = spec.cluster(ep, cl)?;
        if c.system {
            return None;
        }
        if im_ref::is_global_attr(attr) {
            return im_ref::global_value(c, attr);
        }
        let shape = self.shape(ep, cl, attr)?;
        Some(im_ref::probe_value(ep, cl, attr, self.version(ep, cl, attr), &shape))
    }

    pub fn take_log(&self) -> Vec<Call> {
        core::mem::take(&mut *self.0.log.borrow_mut())
    }

    pub fn log_len(&self) -> usize {
        self.0.log.borrow().len()
    }

    fn accessor_id(ctx: &impl rs_matter::dm::OperationContext) -> (Option<u8>, Option<u64>) {
        match ctx.accessor() {
            Ok(a) => (
                a.auth_mode().map(|m| match m {
                    AuthMode::Pase => 1,
                    AuthMode::Case => 2,
                    AuthMode::Group => 3,
                }),
                a.peer_node_id(),
            ),
            Err(_) => (None, None),
        }
    }

    fn do_read(&self, ctx: &impl ReadContext, reply: impl ReadReply) -> Result<(), Error> {
        let attr = ctx.attr();
        let (ep, cl, id) = (attr.endpoint_id, attr.cluster_id, attr.attr_id);
        let spec = self.spec();
        let Some(c) = spec.cluster(ep, cl) else {
            return Err(if spec.endpoint(ep).is_none() {
                ErrorCode::EndpointNotFound
            } else {
                ErrorCode::ClusterNotFound
            }
            .into());
        };
        let Some(aspec) = c.attr(id) else {
            return Err(ErrorCode::AttributeNotFound.into());
        };
        let dv = self.dataver(ep, cl);
        let Some(mut writer) = reply.with_dataver(dv)? else {
            return Ok(());
        };
        if attr.is_system() {
            // Global attributes straight from the cluster metadata, as a real handler does.
            return self.0.node.get().endpoint(ep).and_then(|e| e.cluster(cl)).ok_or(ErrorCode::ClusterNotFound)?.read(attr, writer);
        }
        let shape = self.shape(ep, cl, id).unwrap_or(aspec.shape.clone());
        let version = self.version(ep, cl, id);
        let val = im_ref::probe_value(ep, cl, id, version, &shape);
        let li = attr.list_index.clone().map(|l| l.into_option());
        let tag = writer.tag().clone();
        {
            let mut tw = writer.writer();
            match (&val, li) {
                (Val::Array(items), None) => {
                    tw.start_array(&tag)?;
                    for it in items {
                        write_val(&mut tw, &TLVTag::Anonymous, &it.val)?;
                    }
                    tw.end_container()?;
                }
                (Val::Array(_), Some(None)) => {
                    tw.start_array(&tag)?;
                    tw.end_container()?;
                }
                (Val::Array(items), Some(Some(i))) => {
                    let it = items.get(i as usize).ok_or(ErrorCode::ConstraintError)?;
                    write_val(&mut tw, &tag, &it.val)?;
                }
                (_, Some(_)) => {
                    // list index on a non-list attribute
                    return Err(ErrorCode::InvalidAction.into());
                }
                (v, None) => write_val(&mut tw, &tag, v)?,
            }
        }
        writer.complete()
    }
}

fn write_val<W: TLVWrite>(tw: &mut W, tag: &TLVTag, v: &Val) -> Result<(), Error> {
    match v {
        Val::U(x) => {
            if *x <= u8::MAX as u64 {
                tw.u8(tag, *x as u8)
            } else if *x <= u16::MAX as u64 {
                tw.u16(tag, *x as u16)
            } else if *x <= u32::MAX as u64 {
                tw.u32(tag, *x as u32)
            } else {
                tw.u64(tag, *x)
            }
        }
        Val::I(x) => tw.i64(tag, *x),
        Val::Bool(b) => tw.bool(tag, *b),
        Val::Null => tw.null(tag),
        Val::Bytes(b) => tw.str(tag, b),
        Val::Utf8(b) => tw.utf8(tag, core::str::from_utf8(b).unwrap_or("")),
        Val::Struct(c) => {
            tw.start_struct(tag)?;
            for e in c {
                let t = match e.tag {
                    im_ref::Tag::Ctx(x) => TLVTag::Context(x),
                    _ => TLVTag::Anonymous,
                };
                write_val(tw, &t, &e.val)?;
            }
            tw.end_container()
        }
        Val::Array(c) => {
            tw.start_array(tag)?;
            for e in c {
                write_val(tw, &TLVTag::Anonymous, &e.val)?;
            }
            tw.end_container()
        }
        _ => Err(ErrorCode::Invalid.into()),
    }
}

fn li_of(attr: &rs_matter::dm::AttrDetails) -> ListIdx {
    match attr.list_index.clone().map(|l| l.into_option()) {
        None => ListIdx::Absent,
        Some(None) => ListIdx::Null,
        Some(Some(i)) => ListIdx::Idx(i),
    }
}

fn err_name(e: &Error) -> String {
    format!("{:?}", e.code())
}

fn hash_elem(e: &TLVElement<'_>) -> u64 {
    // hash of the value handed to the handler (independent re-parse of the raw TLV)
    match Tlv::parse_prefix(e.raw_data()) {
        Ok((t, _)) => im_ref::val_hash(&t.val),
        Err(_) => 0,
    }
}

impl AsyncHandler for Probe {
    fn read_awaits(&self, _ctx: impl ReadContext) -> bool {
        false
    }
    fn write_awaits(&self, _ctx: impl WriteContext) -> bool {
        false
    }
    fn invoke_awaits(&self, _ctx: impl InvokeContext) -> bool {
        false
    }

    async fn read(&self, ctx: impl ReadContext, reply: impl ReadReply) -> Result<(), Error> {
        // pending composition change?
        let due = {
            let mut s = self.0.swap_after_reads.borrow_mut();
            match s.as_mut() {
                Some((n, _, _)) if *n == 0 => s.take(),
                Some((n, _, _)) => {
                    *n -= 1;
                    None
                }
                None => None,
            }
        };
        if let Some((_, spec, node)) = due {
            self.0.node.set(node);
            self.0.swaps.borrow_mut().push((self.0.step.get(), spec.clone()));
            *self.0.spec.borrow_mut() = spec;
        }
        self.0.reads_seen.set(self.0.reads_seen.get() + 1);
        let attr = ctx.attr();
        let (auth, peer) = Self::accessor_id(&ctx);
        let exists_now = self.spec().attr(attr.endpoint_id, attr.cluster_id, attr.attr_id).is_some();
        let mut call = Call {
            op: CallOp::Read,
            ep: attr.endpoint_id,
            cl: attr.cluster_id,
            leaf: attr.attr_id,
            list_index: li_of(attr),
            list_chunked: attr.list_chunked,
            data_hash: 0,
            fab_idx: attr.fab_idx,
            auth,
            peer_node: peer,
            exists_now,
            result: Ok(()),
            t: clock::now(),
            step: self.0.step.get(),
        };
        let r = self.do_read(&ctx, reply);
        if let Err(e) = &r {
            call.result = Err(err_name(e));
        }
        self.0.log.borrow_mut().push(call);
        r
    }

    async fn write(&self, ctx: impl WriteContext) -> Result<(), Error> {
        let attr = ctx.attr();
        let (ep, cl, id) = (attr.endpoint_id, attr.cluster_id, attr.attr_id);
        let (auth, peer) = Self::accessor_id(&ctx);
        let spec = self.spec();
        let aspec = spec.attr(ep, cl, id).cloned();
        let mut call = Call {
            op: CallOp::Write,
            ep,
            cl,
            leaf: id,
            list_index: li_of(attr),
            list_chunked: attr.list_chunked,
            data_hash: hash_elem(ctx.data()),
            fab_idx: attr.fab_idx,
            auth,
            peer_node: peer,
            exists_now: aspec.is_some(),
            result: Ok(()),
            t: clock::now(),
            step: self.0.step.get(),
        };
        let r: Result<(), Error> = (|| {
            let Some(a) = aspec else {
                return Err(ErrorCode::AttributeNotFound.into());
            };
            attr.check_dataver(self.dataver(ep, cl))?;
            let is_list = a.quality & qual::ARRAY != 0;
            match li_of(attr) {
                ListIdx::Absent => Ok(()),
                ListIdx::Null if is_list => Ok(()),
                _ => Err(ErrorCode::InvalidAction.into()),
            }
        })();
        if let Err(e) = &r {
            call.result = Err(err_name(e));
        }
        self.0.log.borrow_mut().push(call);
        r
    }

    async fn invoke(&self, ctx: impl InvokeContext, reply: impl InvokeReply) -> Result<(), Error> {
        let cmd = ctx.cmd();
        let (ep, cl, id) = (cmd.endpoint_id, cmd.cluster_id, cmd.cmd_id);
        let (auth, peer) = Self::accessor_id(&ctx);
        let spec = self.spec();
        let cspec = spec.cluster(ep, cl).and_then(|c| c.cmd(id)).cloned();
        let mut call = Call {
            op: CallOp::Invoke,
            ep,
            cl,
            leaf: id,
            list_index: ListIdx::Absent,
            list_chunked: false,
            data_hash: hash_elem(ctx.data()),
            fab_idx: cmd.fab_idx,
            auth,
            peer_node: peer,
            exists_now: cspec.is_some(),
            result: Ok(()),
            t: clock::now(),
            step: self.0.step.get(),
        };
        let r: Result<(), Error> = (|| {
            let Some(c) = cspec else {
                return Err(ErrorCode::CommandNotFound.into());
            };
            if let Some(resp) = c.resp_id {
                let mut writer = reply.with_command(resp)?;
                let tag = writer.tag().clone();
                {
                    let mut tw = writer.writer();
                    tw.start_struct(&tag)?;
                    tw.u32(&TLVTag::Context(0), id ^ 0x5a5a)?;
                    tw.end_container()?;
                }
                writer.complete()
            } else {
                Ok(())
            }
        })();
        if let Err(e) = &r {
            call.result = Err(err_name(e));
        }
        self.0.log.borrow_mut().push(call);
        r
    }

    fn bump_dataver(&self, ctx: impl MatchContext) {
        let spec = self.spec();
        for e in &spec.endpoints {
            if ctx.endpt().map(|x| x != e.id).unwrap_or(false) {
                continue;
            }
            for c in &e.clusters {
                if c.system || ctx.cluster().map(|x| x != c.id).unwrap_or(false) {
                    continue;
                }
                let v = self.dataver(e.id, c.id).wrapping_add(1);
                self.set_dataver(e.id, c.id, v);
            }
        }
    }
}

impl Metadata for Probe {
    fn access<F, R>(&self, f: F) -> R
    where
        F: FnOnce(&Node<'_>) -> R,
    {
        f(self.0.node.get())
    }
}

/// The data model handed to `InteractionModel`: real root-endpoint system handlers for the
/// system clusters on endpoint 0, the probe for everything else.
pub struct ProbeDm {
    pub probe: Probe,
    sys: EthSysHandler<'static>,
}

impl ProbeDm {
    pub fn new(probe: Probe, rng: Rng) -> Self {
        Self { probe, sys: EthSysHandlerBuilder::new().build(rng) }
    }

    fn is_sys(ep: u16, cl: u32) -> bool {
        ep == 0 && cl < PROBE_CLUSTER_BASE
    }
}

impl AsyncHandler for ProbeDm {
    fn read_awaits(&self, _ctx: impl ReadContext) -> bool {
        false
    }
    fn write_awaits(&self, _ctx: impl WriteContext) -> bool {
        false
    }
    fn invoke_awaits(&self, _ctx: impl InvokeContext) -> bool {
        false
    }

    async fn read(&self, ctx: impl ReadContext, reply: impl ReadReply) -> Result<(), Error> {
        let a = ctx.attr();
        if Self::is_sys(a.endpoint_id, a.cluster_id) {
            self.sys.read(ctx, reply).await
        } else {
            self.probe.read(ctx, reply).await
        }
    }

    async fn write(&self, ctx: impl WriteContext) -> Result<(), Error> {
        let a = ctx.attr();
        if Self::is_sys(a.endpoint_id, a.cluster_id) {
            self.sys.write(ctx).await
        } else {
            self.probe.write(ctx).await
        }
    }

    async fn invoke(&self, ctx: impl InvokeContext, reply: impl InvokeReply) -> Result<(), Error> {
        let c = ctx.cmd();
        if Self::is_sys(c.endpoint_id, c.cluster_id) {
            self.sys.invoke(ctx, reply).await
        } else {
            self.probe.invoke(ctx, reply).await
        }
    }

    fn bump_dataver(&self, ctx: impl MatchContext) {
        let sys = match (ctx.endpt(), ctx.cluster()) {
            (Some(e), Some(c)) => Self::is_sys(e, c),
            _ => false,
        };
        if sys {
            self.sys.bump_dataver(ctx)
        } else {
            self.probe.bump_dataver(ctx)
        }
    }

    fn lifecycle(&self, ctx: impl HandlerContext, op: LifecycleOp) -> Result<(), Error> {
        self.sys.lifecycle(ctx, op)
    }
}

impl Metadata for ProbeDm {
    fn access<F, R>(&self, f: F) -> R
    where
        F: FnOnce(&Node<'_>) -> R,
    {
        self.probe.access(f)
    }
}

// ---------------------------------------------------------------------------------------------
// Node generator
// ---------------------------------------------------------------------------------------------

#[derive(Clone, Debug)]
pub struct GenCfg {
    pub max_endpoints: usize,
    pub max_clusters: usize,
    pub max_attrs: usize,
    pub max_cmds: usize,
    pub max_events: usize,
    /// Put real system clusters (Descriptor, ACL, Operational Credentials) on endpoint 0.
    pub sys_root: bool,
    /// Percentage of elements with contradictory / empty access declarations.
    pub weird_pct: u32,
    /// Upper bound for octet string / element sizes.
    pub max_value_len: usize,
}

impl Default for GenCfg {
    fn default() -> Self {
        Self {
            max_endpoints: 6,
            max_clusters: 5,
            max_attrs: 8,
            max_cmds: 4,
            max_events: 3,
            sys_root: false,
            weird_pct: 12,
            max_value_len: 40,
        }
    }
}

pub fn gen_access(rng: &mut Rng, op_bits: u16, weird_pct: u32) -> u16 {
    use im_ref::acc::*;
    if rng.chance(weird_pct, 100) {
        // arbitrary, possibly contradictory or empty
        return match rng.below(5) {
            0 => 0,
            1 => op_bits,                 // operation without any privilege
            2 => NEED_VIEW | NEED_ADMIN,  // privilege without an operation
            3 => (rng.u32() as u16) & 0x01ff,
            _ => READ | WRITE | NEED_VIEW, // write with only View named
        };
    }
    let mut a = op_bits;
    // privilege: for read V/O/M/A, for write O/M/A (all sufficient levels listed, as the real clusters do)
    if op_bits & READ != 0 {
        a |= match rng.below(6) {
            0 | 1 | 2 => NEED_VIEW,
            3 => NEED_OPERATE,
            4 => NEED_MANAGE,
            _ => NEED_ADMIN,
        };
    }
    if op_bits & WRITE != 0 {
        a |= match rng.below(4) {
            0 => NEED_OPERATE | NEED_MANAGE | NEED_ADMIN,
            1 | 2 => NEED_MANAGE | NEED_ADMIN,
            _ => NEED_ADMIN,
        };
    }
    if rng.chance(1, 5) {
        a |= TIMED_ONLY;
    }
    if rng.chance(1, 5) {
        a |= FAB_SCOPED;
    }
    if rng.chance(1, 10) {
        a |= FAB_SENSITIVE;
    }
    a
}

pub fn gen_shape(rng: &mut Rng, list: bool, max_len: usize) -> Shape {
    if list {
        let elem = match rng.below(3) {
            0 => Elem::U(*rng.pick(&[1u8, 2, 4, 8])),
            1 => Elem::Octets(rng.usize(max_len + 1)),
            _ => Elem::Struct(rng.usize(max_len + 1)),
        };
        return Shape::List { count: rng.usize(7), elem };
    }
    match rng.below(8) {
        0 | 1 | 2 => Shape::U(*rng.pick(&[1u8, 2, 4, 8])),
        3 => Shape::Bool,
        4 => Shape::Null,
        5 => Shape::Utf8(rng.usize(max_len + 1)),
        _ => Shape::Octets(rng.usize(max_len + 1)),
    }
}

pub fn global_attrs() -> Vec<AttrSpec> {
    use im_ref::acc::*;
    let rv = READ | NEED_VIEW;
    vec![
        AttrSpec { id: 0xFFF8, access: rv, quality: qual::ARRAY, shape: Shape::Null },
        AttrSpec { id: 0xFFF9, access: rv, quality: qual::ARRAY, shape: Shape::Null },
        AttrSpec { id: 0xFFFA, access: rv, quality: qual::ARRAY, shape: Shape::Null },
        AttrSpec { id: 0xFFFB, access: rv, quality: qual::ARRAY, shape: Shape::Null },
        AttrSpec { id: 0xFFFC, access: rv, quality: 0, shape: Shape::Null },
        AttrSpec { id: 0xFFFD, access: rv, quality: 0, shape: Shape::Null },
    ]
}

pub fn gen_cluster(rng: &mut Rng, id: u32, cfg: &GenCfg) -> ClusterSpec {
    use im_ref::acc::*;
    let na = rng.usize(cfg.max_attrs + 1);
    let mut attrs = Vec::new();
    let mut ids: Vec<u32> = (0..24).collect();
    rng.shuffle(&mut ids);
    for k in 0..na {
        let list = rng.chance(1, 4);
        let op = match rng.below(6) {
            0 | 1 | 2 => READ,
            3 | 4 => READ | WRITE,
            _ => WRITE,
        };
        let mut q = 0u8;
        if list {
            q |= qual::ARRAY;
        }
        if rng.chance(1, 5) {
            q |= qual::NULLABLE;
        }
        if rng.chance(1, 6) {
            q |= qual::OPTIONAL;
        }
        attrs.push(AttrSpec {
            id: ids[k],
            access: gen_access(rng, op, cfg.weird_pct),
            quality: q,
            shape: gen_shape(rng, list, cfg.max_value_len),
        });
    }
    if rng.chance(4, 5) {
        attrs.extend(global_attrs());
    }
    let nc = rng.usize(cfg.max_cmds + 1);
    let cmds = (0..nc)
        .map(|k| CmdSpec {
            id: k as u32 * 2,
            resp_id: if rng.bool() { Some(k as u32 * 2 + 1) } else { None },
            access: gen_access(rng, WRITE, cfg.weird_pct),
        })
        .collect();
    let ne = rng.usize(cfg.max_events + 1);
    let events = (0..ne)
        .map(|k| EventSpec {
            id: k as u32,
            access: if rng.chance(cfg.weird_pct, 100) {
                (rng.u32() as u16) & 0x01ff
            } else {
                READ | *rng.pick(&[NEED_VIEW, NEED_VIEW, NEED_OPERATE, NEED_MANAGE, NEED_ADMIN])
            },
        })
        .collect();
    ClusterSpec {
        id,
        revision: 1 + rng.below(5) as u16,
        feature_map: rng.below(16) as u32,
        attrs,
        cmds,
        events,
        required_only: rng.chance(1, 4),
        system: false,
    }
}

pub fn gen_node(rng: &mut Rng, cfg: &GenCfg) -> NodeSpec {
    let ne = 1 + rng.usize(cfg.max_endpoints);
    let mut ep_ids: Vec<u16> = vec![0];
    let mut next = 0u16;
    for _ in 1..ne {
        next += 1 + rng.below(3) as u16;
        ep_ids.push(next);
    }
    if !cfg.sys_root && rng.chance(1, 4) {
        // node without endpoint 0 in the probe range
        ep_ids[0] = 0;
    }
    let mut endpoints = Vec::new();
    for (k, id) in ep_ids.iter().enumerate() {
        let ncl = 1 + rng.usize(cfg.max_clusters);
        let mut clusters = Vec::new();
        if k == 0 && cfg.sys_root {
            for sc in system_clusters() {
                clusters.push(spec_of_system_cluster(&sc));
            }
        }
        // cluster ids: a small pool so that the same cluster id appears on several endpoints
        let mut pool: Vec<u32> = (0..6).map(|i| PROBE_CLUSTER_BASE + i).collect();
        rng.shuffle(&mut pool);
        for cid in pool.into_iter().take(ncl) {
            clusters.push(gen_cluster(rng, cid, cfg));
        }
        let ndt = rng.usize(3);
        let device_types = (0..ndt).map(|_| 0x100 + rng.below(4) as u32).collect();
        endpoints.push(EndpointSpec { id: *id, device_types, clusters });
    }
    NodeSpec { endpoints }
}

/// A variant of `base` that respects the `Node` invariants (endpoints sorted, an endpoint's
/// shape stable for its lifetime): some endpoints removed, some new ones added.
pub fn gen_variant(rng: &mut Rng, base: &NodeSpec, cfg: &GenCfg, new_ids_from: u16) -> NodeSpec {
    let mut eps: Vec<EndpointSpec> = Vec::new();
    for (k, e) in base.endpoints.iter().enumerate() {
        if k == 0 && cfg.sys_root {
            eps.push(e.clone());
            continue;
        }
        if rng.chance(2, 3) {
            eps.push(e.clone());
        }
    }
    let extra = gen_node(rng, &GenCfg { sys_root: false, ..cfg.clone() });
    for (k, mut e) in extra.endpoints.into_iter().enumerate() {
        if rng.bool() {
            // ids interleaved with the existing ones, never colliding
            // fresh ids: an endpoint id never comes back with another shape
            e.id = new_ids_from + k as u16 * 7;
            eps.push(e);
        }
    }
    eps.sort_by_key(|e| e.id);
    eps.dedup_by_key(|e| e.id);
    NodeSpec { endpoints: eps }
}
