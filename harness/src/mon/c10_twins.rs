//! C10 scenario family "twins": two or three distinct peers each open an exchange at one node
//! with the SAME exchange id (controls: different ids), on
//!   * two / three UNSECURED sessions (different source addresses and different ephemeral source
//!     node ids; variant: one shared source address, different ephemeral node ids) - all of them
//!     have local session id 0 and are told apart only by peer address / node id,
//!   * one unsecured and one secure session,
//!   * two secure sessions (the keyed hostile peers H and H2),
//! with an opening message B's acceptor slots accept (PBKDFParamRequest / CASESigma1 on unsecured
//! sessions) and a handler that then waits in `recv` for the 2nd, 3rd ... message. The peers then
//! send their follow-ups in an order / timing chosen by the scenario: the owner of peer 1's
//! exchange waiting while peer 2's follow-up arrives first (both orders), the owner of one
//! exchange busy (not receiving) or accepting late, with piggy-backed / standalone / no acks.
//!
//! Every payload is tagged with the sending peer (`Tag::src` = peer code), the session kind, the
//! exchange id and a sequence number; every handle knows the peer at the other end of ITS session
//! (`HandleInfo::peer`, read from the session's peer address / peer node id in the verif
//! snapshot). Rule R1 (c10.rs) then flags a message of peer 2 surfacing on peer 1's exchange.
//!
//! This file: the specification types, the generator and the coverage part of the judge. The
//! driver lives in `c10_world.rs` (it needs the injector's keys).

use std::collections::BTreeMap;

use rs_matter::transport::network::Address;

use crate::report::Report;
use crate::sim::rng::{Fnv, Rng};

use super::c10_world::*;

// ---------------------------------------------------------------------------------------------
// Peer codes (who is at the other end of a session / who sent a payload)
// ---------------------------------------------------------------------------------------------

pub const P_A: u8 = 0;
pub const P_B: u8 = 1;
pub const P_H: u8 = 2;
/// the second keyed hostile peer (own address, own secure session with each node; twins only)
pub const P_H2: u8 = 3;
/// unsecured twin peer k = `P_TWIN0 + k`
pub const P_TWIN0: u8 = 0x10;
pub const P_UNKNOWN: u8 = 0xFF;

/// `Tag::app` of twin payloads = `TWIN_APP0 + k`
pub const TWIN_APP0: u8 = 0xD0;

pub const H2_NODE: u64 = 0x4058;
/// Local session ids of the nodes' sessions with H2, and the ids H2 uses for itself.
pub const SIDS_H2: [u16; 2] = [0x1006, 0x2006];
pub const H2_SIDS: [u16; 2] = [0x3003, 0x3004];
pub const S_HOSTILE2: u8 = 4;

/// Source address of unsecured twin peer `k` (k = 7: the address of H2).
pub fn twin_addr(k: u8) -> Address {
    Address::Udp(core::net::SocketAddr::V6(core::net::SocketAddrV6::new(
        core::net::Ipv6Addr::new(0xfd00, 0, 0, 0, 0, 0, 0x7100, k as u16 + 1),
        5540,
        0,
        0,
    )))
}

pub fn h2_addr() -> Address {
    twin_addr(7)
}

/// Ephemeral initiator node id of unsecured twin peer `k`.
pub fn twin_node(k: u8) -> u64 {
    0x00C1_0000_0000_0100 + k as u64
}

pub fn peer_name(p: u8) -> String {
    match p {
        P_A => "node-A".into(),
        P_B => "node-B".into(),
        P_H => "hostile-peer-H".into(),
        P_H2 => "hostile-peer-H2".into(),
        P_UNKNOWN => "unknown".into(),
        x if (P_TWIN0..P_TWIN0 + 8).contains(&x) => format!("unsecured-peer-{}", x - P_TWIN0),
        x => format!("peer-{:#x}", x),
    }
}

// ---------------------------------------------------------------------------------------------
// Specification
// ---------------------------------------------------------------------------------------------

#[derive(Clone, Copy, Debug, PartialEq, Eq, Hash, PartialOrd, Ord)]
pub enum TwinKind {
    Unsec,
    /// on H's secure session with the node
    SecH,
    /// on H2's secure session with the node
    SecH2,
}

impl TwinKind {
    pub fn sess_tag(self) -> u8 {
        match self {
            TwinKind::Unsec => S_UNSEC,
            TwinKind::SecH => S_HOSTILE,
            TwinKind::SecH2 => S_HOSTILE2,
        }
    }
    fn letter(self) -> &'static str {
        match self {
            TwinKind::Unsec => "U",
            TwinKind::SecH => "S",
            TwinKind::SecH2 => "S2",
        }
    }
}

#[derive(Clone, Copy, Debug, PartialEq, Eq, Hash, PartialOrd, Ord)]
pub enum TwinAck {
    None,
    /// piggy-backed ack of the newest message the node sent to this peer
    Piggy,
    /// a standalone ack of it first, then the message without ack
    SackFirst,
    Bogus,
}

#[derive(Clone, Debug)]
pub struct TwinPeer {
    pub kind: TwinKind,
    pub exch_id: u16,
    /// index of the source address (unsecured peers; normally = the peer index)
    pub addr_k: u8,
    /// offset of the opening message from `TwinSpec::t_ms`
    pub open_ms: u32,
    pub open_op: OpClass,
    pub open_r: bool,
    /// what the handler does after the opening message (handler mode)
    pub open_mode: u8,
    pub hold_ms: u16,
}

#[derive(Clone, Debug)]
pub struct TwinStep {
    pub peer: u8,
    /// offset from `TwinSpec::t_ms`
    pub at_ms: u32,
    pub ack: TwinAck,
    pub r: bool,
    /// 0: the next handshake message (PASEPake1 / CASESigma3 by the opening opcode), 1: harness data, 2: status report
    pub op: u8,
    pub mode: u8,
    pub hold_ms: u16,
    pub last: bool,
}

#[derive(Clone, Debug)]
pub struct TwinSpec {
    pub node: u8,
    pub t_ms: u32,
    pub peers: Vec<TwinPeer>,
    pub steps: Vec<TwinStep>,
}

impl TwinSpec {
    /// Peer code of twin peer `k` (what its payloads carry in `Tag::src`).
    pub fn code(&self, k: usize) -> u8 {
        match self.peers[k].kind {
            TwinKind::Unsec => P_TWIN0 + k as u8,
            TwinKind::SecH => P_H,
            TwinKind::SecH2 => P_H2,
        }
    }
    pub fn needs_h2(&self) -> bool {
        self.peers.iter().any(|p| p.kind == TwinKind::SecH2)
    }
    pub fn combo(&self) -> String {
        self.peers.iter().map(|p| p.kind.letter()).collect::<Vec<_>>().join("+")
    }
    pub fn id_pattern(&self) -> &'static str {
        let ids: Vec<u16> = self.peers.iter().map(|p| p.exch_id).collect();
        let same = ids.iter().filter(|i| **i == ids[0]).count();
        let distinct: std::collections::BTreeSet<u16> = ids.iter().copied().collect();
        if same == ids.len() {
            "all-same"
        } else if distinct.len() == ids.len() {
            "all-different"
        } else {
            "two-same-one-different"
        }
    }
    pub fn describe(&self) -> Vec<String> {
        let mut v = vec![format!("twins at node {} from t={} ms: {} ids {}", self.node, self.t_ms, self.combo(), self.id_pattern())];
        for (k, p) in self.peers.iter().enumerate() {
            v.push(format!(
                "peer{} {} {:?} addr#{} id {:#06x} opens @+{}ms {:?} R{} handler-mode{} hold{}",
                k,
                peer_name(self.code(k)),
                p.kind,
                p.addr_k,
                p.exch_id,
                p.open_ms,
                p.open_op,
                p.open_r as u8,
                p.open_mode,
                p.hold_ms
            ));
        }
        for s in &self.steps {
            v.push(format!("follow-up peer{} @+{}ms ack{:?} R{} op{} handler-mode{} hold{} last{}", s.peer, s.at_ms, s.ack, s.r as u8, s.op, s.mode, s.hold_ms, s.last as u8));
        }
        v
    }
}

// ---------------------------------------------------------------------------------------------
// Generator
// ---------------------------------------------------------------------------------------------

const COMBOS: [&[TwinKind]; 20] = [
    &[TwinKind::Unsec, TwinKind::Unsec],
    &[TwinKind::Unsec, TwinKind::Unsec],
    &[TwinKind::Unsec, TwinKind::Unsec],
    &[TwinKind::Unsec, TwinKind::Unsec],
    &[TwinKind::Unsec, TwinKind::Unsec],
    &[TwinKind::Unsec, TwinKind::Unsec],
    &[TwinKind::Unsec, TwinKind::Unsec],
    &[TwinKind::Unsec, TwinKind::Unsec],
    &[TwinKind::Unsec, TwinKind::Unsec],
    &[TwinKind::Unsec, TwinKind::Unsec, TwinKind::Unsec],
    &[TwinKind::Unsec, TwinKind::Unsec, TwinKind::Unsec],
    &[TwinKind::Unsec, TwinKind::Unsec, TwinKind::Unsec],
    &[TwinKind::Unsec, TwinKind::SecH],
    &[TwinKind::Unsec, TwinKind::SecH],
    &[TwinKind::SecH, TwinKind::Unsec],
    &[TwinKind::Unsec, TwinKind::Unsec, TwinKind::SecH],
    &[TwinKind::SecH, TwinKind::SecH2],
    &[TwinKind::SecH, TwinKind::SecH2],
    &[TwinKind::SecH2, TwinKind::SecH],
    &[TwinKind::Unsec, TwinKind::SecH2],
];

const OPEN_MODES: [u8; 12] = [M_NEXT, M_NEXT, M_NEXT, M_NEXT, M_HOLD_NEXT, M_HOLD_NEXT, M_HOLD_NEXT, M_PONG_UNREL, M_PONG_UNREL, M_NORMAL, M_ACK_FIRST, M_HOLD];
const STEP_MODES: [u8; 10] = [M_NEXT, M_NEXT, M_NEXT, M_NEXT, M_HOLD_NEXT, M_PONG_UNREL, M_PONG_UNREL, M_NORMAL, M_HOLD_RX, M_ACK_FIRST];
const GAPS: [u32; 10] = [0, 0, 1, 3, 10, 50, 200, 500, 900, 1600];

/// `allow_secure` = the session table has room for the sessions with H and H2 next to the twin
/// peers' unsecured sessions (not so in the smallest table configuration: all peers unsecured).
pub fn gen_twins(rng: &mut Rng, allow_secure: bool) -> TwinSpec {
    let mut kinds: Vec<TwinKind> = rng.pick(&COMBOS).to_vec();
    if !allow_secure {
        for k in kinds.iter_mut() {
            *k = TwinKind::Unsec;
        }
    }
    let n = kinds.len();
    let base = 0x6000u16 + rng.below(0x0800) as u16;
    let pat = rng.below(20);
    let ids: Vec<u16> = (0..n)
        .map(|k| {
            if pat < 14 {
                base
            } else if pat < 17 {
                // control: different (adjacent) ids
                base + k as u16
            } else if n == 3 && k == (pat as usize - 17) {
                base + 0x0100
            } else {
                base
            }
        })
        .collect();
    let shared_addr = rng.chance(1, 6);
    let mut peers: Vec<TwinPeer> = Vec::new();
    let mut t = 0u32;
    for k in 0..n {
        if k > 0 {
            t += *rng.pick(&[0u32, 1, 5, 40, 150, 400, 1100]);
        }
        let unsec = kinds[k] == TwinKind::Unsec;
        peers.push(TwinPeer {
            kind: kinds[k],
            exch_id: ids[k],
            addr_k: if shared_addr { 0 } else { k as u8 },
            open_ms: t,
            open_op: if unsec { *rng.pick(&[OpClass::Pbkdf, OpClass::Pbkdf, OpClass::Sigma1]) } else { *rng.pick(&[OpClass::Data, OpClass::Data, OpClass::Sigma1, OpClass::Pbkdf, OpClass::Im]) },
            open_r: rng.chance(3, 4),
            open_mode: *rng.pick(&OPEN_MODES),
            hold_ms: *rng.pick(&[100u16, 300, 600, 1200]),
        });
    }
    // ---- follow-ups
    let mut steps: Vec<TwinStep> = Vec::new();
    let n_steps = 2 + rng.usize(5);
    let crossed = rng.chance(1, 2);
    let mut at = t;
    for s in 0..n_steps {
        // "crossed": the LAST opener's follow-up comes first (its owner has had the least time to
        // get to recv / may still be accept-pending or busy), then the others in turn
        let peer = if crossed && s < n { (n - 1 - s) as u8 } else { rng.below(n as u64) as u8 };
        at += if s == 0 { *rng.pick(&[1u32, 5, 20, 60, 200, 500]) } else { *rng.pick(&GAPS) };
        let last = s + 1 == n_steps && rng.chance(1, 3);
        steps.push(TwinStep {
            peer,
            at_ms: at,
            ack: *rng.pick(&[TwinAck::None, TwinAck::None, TwinAck::Piggy, TwinAck::Piggy, TwinAck::SackFirst, TwinAck::Bogus]),
            r: rng.chance(2, 3),
            op: *rng.pick(&[0u8, 0, 0, 1, 1, 2]),
            mode: if last { *rng.pick(&[M_DROP, M_NORMAL, M_ACK_DROP]) } else { *rng.pick(&STEP_MODES) },
            hold_ms: *rng.pick(&[100u16, 250, 400, 800]),
            last,
        });
    }
    TwinSpec {
        node: if rng.chance(3, 4) { 1 } else { 0 },
        t_ms: 100 + rng.below(3000) as u32,
        peers,
        steps,
    }
}

// ---------------------------------------------------------------------------------------------
// Judge (coverage; the misroute rule itself is R1 in c10.rs)
// ---------------------------------------------------------------------------------------------

#[derive(Clone, Copy, PartialEq)]
enum K {
    Wait,
    Recv,
    Other,
}

struct TwinHandle {
    hid: u32,
    k: usize,
    exch_id: u16,
    open: u64,
    close: u64,
    tl: Vec<(u64, K)>,
}

impl TwinHandle {
    fn alive_at(&self, t: u64) -> bool {
        self.open <= t && t <= self.close
    }
    /// The owner was inside `recv` at time `t`: its newest event before `t` is a `RecvWait`.
    fn waiting_at(&self, t: u64) -> bool {
        self.alive_at(t) && self.tl.iter().rev().find(|(x, _)| *x < t).map(|(_, k)| *k == K::Wait).unwrap_or(false)
    }
}

/// Coverage of the twin family; returns a hash of what was realised (for `distinct`).
pub fn judge_twins(rep: &mut Report, p: &Params, o: &Outcome, handles: &BTreeMap<u32, (u8, Option<HandleInfo>, bool)>) -> Option<u64> {
    let tw = p.twins.as_ref()?;
    let mut shape = Fnv::new();
    rep.count("twin_scenarios");
    rep.count(&format!("twin-combo:{}", tw.combo()));
    rep.count(&format!("twin-ids:{}", tw.id_pattern()));
    if tw.peers.iter().filter(|p| p.kind == TwinKind::Unsec).map(|p| p.addr_k).collect::<std::collections::BTreeSet<_>>().len() == 1
        && tw.peers.iter().filter(|p| p.kind == TwinKind::Unsec).count() > 1
    {
        rep.count("twin-unsecured-peers-share-one-address");
    }
    shape.add(tw.combo().as_bytes());
    shape.add(tw.id_pattern().as_bytes());
    for pe in &tw.peers {
        shape.add(format!("{:?}|{}|{}|{}", pe.open_op, pe.open_r, pe.open_mode, pe.addr_k).as_bytes());
    }
    for s in &tw.steps {
        shape.add(format!("{}|{:?}|{}|{}|{}", s.peer, s.ack, s.r, s.op, s.mode).as_bytes());
    }

    // ---- what was sent
    for e in &o.events {
        if let EvKind::Twin { opener, skipped, sack, kind, .. } = &e.kind {
            if let Some(s) = skipped {
                rep.count(&format!("twin-message-skipped:{}", s));
                continue;
            }
            if *sack {
                rep.count("twin_standalone_acks_sent");
            } else if *opener {
                rep.count("twin_openers_sent");
                rep.count(&format!("twin-opener-sent:{:?}", kind));
            } else {
                rep.count("twin_followups_sent");
            }
        }
    }

    // ---- the twin handles at the target node
    let mut ths: Vec<TwinHandle> = Vec::new();
    for (hid, (node, h, accepted)) in handles.iter() {
        let Some(h) = h else { continue };
        if *node != tw.node || !*accepted || h.initiator {
            continue;
        }
        let Some(k) = (0..tw.peers.len()).find(|k| tw.code(*k) == h.peer && tw.peers[*k].exch_id == h.exch_id && tw.peers[*k].kind.sess_tag() == h.sess) else {
            continue;
        };
        ths.push(TwinHandle {
            hid: *hid,
            k,
            exch_id: h.exch_id,
            open: 0,
            close: u64::MAX,
            tl: Vec::new(),
        });
    }
    let idx_of: BTreeMap<u32, usize> = ths.iter().enumerate().map(|(i, t)| (t.hid, i)).collect();
    for e in &o.events {
        let (hid, k) = match &e.kind {
            EvKind::Accept { hid, .. } => (*hid, None),
            EvKind::RecvWait { hid } => (*hid, Some(K::Wait)),
            EvKind::Recv { hid, .. } => (*hid, Some(K::Recv)),
            EvKind::SendCall { hid, .. } | EvKind::SendRet { hid, .. } => (*hid, Some(K::Other)),
            EvKind::Closed { hid, .. } => (*hid, Some(K::Other)),
            _ => continue,
        };
        let Some(i) = idx_of.get(&hid) else { continue };
        let th = &mut ths[*i];
        match (&e.kind, k) {
            (EvKind::Accept { delay, .. }, _) => {
                th.open = e.t;
                if *delay > 0 {
                    rep.count("twin_late_accepts");
                }
            }
            (EvKind::Closed { .. }, _) => {
                th.close = e.t;
                th.tl.push((e.t, K::Other));
            }
            (_, Some(k)) => th.tl.push((e.t, k)),
            _ => {}
        }
    }
    rep.count_n("twin_exchanges_accepted", ths.len() as u64);
    for th in &ths {
        rep.count(&format!("twin-exchange-accepted:{:?}", tw.peers[th.k].kind));
    }

    // ---- concurrent pairs
    for a in 0..ths.len() {
        for b in a + 1..ths.len() {
            let (x, y) = (&ths[a], &ths[b]);
            if x.k == y.k {
                continue;
            }
            let overlap = x.open.max(y.open) <= x.close.min(y.close);
            if !overlap {
                continue;
            }
            let mut kinds = [tw.peers[x.k].kind, tw.peers[y.k].kind];
            kinds.sort();
            let class = match kinds {
                [TwinKind::Unsec, TwinKind::Unsec] => "unsecured+unsecured",
                [TwinKind::Unsec, _] => "unsecured+secure",
                _ => "secure+secure",
            };
            if x.exch_id == y.exch_id {
                rep.count("twin_same_id_pairs");
                rep.count(&format!("twin-same-id-pair:{}", class));
                if class == "unsecured+unsecured" {
                    rep.count("twin_same_id_pairs_unsecured");
                }
            } else {
                rep.count("twin_diff_id_pairs");
                rep.count(&format!("twin-diff-id-pair:{}", class));
            }
        }
    }

    // ---- what surfaced, and in which situation
    let mut surfaced: BTreeMap<(u8, u16), u32> = BTreeMap::new();
    for e in &o.events {
        let EvKind::Recv { hid, tag: Some(t), .. } = &e.kind else { continue };
        if e.node != tw.node || t.dir != 0 || !(TWIN_APP0..TWIN_APP0 + 8).contains(&t.app) {
            continue;
        }
        let k = (t.app - TWIN_APP0) as usize;
        if k >= tw.peers.len() {
            continue;
        }
        *surfaced.entry((t.app, t.seq)).or_default() += 1;
        rep.count("twin_messages_surfaced");
        let known = handles.get(hid).map(|h| h.1.is_some()).unwrap_or(false);
        let follow_up = t.seq > 0;
        if follow_up && known {
            rep.count("twin_followups_checked");
        }
        shape.add(&[handles.get(hid).and_then(|h| h.1).map(|h| h.peer).unwrap_or(P_UNKNOWN), t.src, t.seq as u8]);
        // the situation: other twin handles (another peer) with the same exchange id at that moment
        let others: Vec<&TwinHandle> = ths.iter().filter(|th| th.hid != *hid && th.k != k && th.exch_id == t.exch_id && th.alive_at(e.t)).collect();
        if others.is_empty() {
            continue;
        }
        let unsec_pair = tw.peers[k].kind == TwinKind::Unsec && others.iter().any(|th| tw.peers[th.k].kind == TwinKind::Unsec);
        let waiting = others.iter().any(|th| th.waiting_at(e.t));
        let waiting_unsec = tw.peers[k].kind == TwinKind::Unsec && others.iter().any(|th| tw.peers[th.k].kind == TwinKind::Unsec && th.waiting_at(e.t));
        if follow_up {
            rep.count("twin_followups_with_live_twin");
            if unsec_pair {
                rep.count("twin_followups_with_live_unsecured_twin");
            }
            if waiting {
                rep.count("twin_followups_while_twin_waiting");
            }
            if waiting_unsec {
                rep.count("twin_followups_while_unsecured_twin_waiting");
            }
        } else {
            rep.count("twin_openers_with_live_twin");
            if waiting {
                rep.count("twin_openers_while_twin_waiting");
            }
            if waiting_unsec {
                rep.count("twin_openers_while_unsecured_twin_waiting");
            }
        }
    }
    // sent but never surfaced: not judged here (the node may legitimately drop: no acceptor in time,
    // exchange already closed by its handler, duplicate counter, full tables)
    for e in &o.events {
        if let EvKind::Twin { k, seq, skipped: None, sack: false, .. } = &e.kind {
            if !surfaced.contains_key(&(TWIN_APP0 + *k, *seq)) {
                rep.count(if *seq == 0 { "twin-opener-never-surfaced(unjudged)" } else { "twin-followup-never-surfaced(unjudged)" });
            }
        }
    }
    Some(shape.0)
}
