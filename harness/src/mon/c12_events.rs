//! C12 driver for event numbers: a real `InteractionModel` over a real `InteractionModelState`,
//! events emitted through the public `EventEmitter::emit_event`, restart = fresh `Matter` +
//! fresh IM state + `Matter::startup` + `InteractionModel::startup` on the same KV image.

use core::future::Future;
use core::pin::pin;
use core::task::{Context, Poll, Waker};

use rs_matter::crypto::Crypto;
use rs_matter::dm::clusters::net_comm::DummyNetworks;
use rs_matter::dm::{EmptyHandler, EventEmitter, Node};
use rs_matter::im::events::EVENT_DATA_TAG;
use rs_matter::im::{EventPriority, InteractionModel, InteractionModelState};
use rs_matter::persist::EVENT_EPOCH_KEY;
use rs_matter::tlv::ToTLV;
use rs_matter::transport::exchange::MatterBuffers;

use crate::sim::kv::{KvMap, KvOpKind, SimKv};
use crate::sim::node;
use crate::sim::rng::Rng;

use super::c12::{Hist, Op, RunOut, Yield};

/// Independent TLV writer for an anonymous unsigned integer (Matter TLV: control byte
/// 0x04..0x07 = unsigned 1/2/4/8 bytes, anonymous tag, little endian).
pub fn tlv_uint(v: u64, wide: bool) -> Vec<u8> {
    if wide || v > u32::MAX as u64 {
        let mut o = vec![0x07];
        o.extend_from_slice(&v.to_le_bytes());
        o
    } else if v > u16::MAX as u64 {
        let mut o = vec![0x06];
        o.extend_from_slice(&(v as u32).to_le_bytes());
        o
    } else if v > u8::MAX as u64 {
        let mut o = vec![0x05];
        o.extend_from_slice(&(v as u16).to_le_bytes());
        o
    } else {
        vec![0x04, v as u8]
    }
}

pub fn tlv_uint_decode(b: &[u8]) -> Option<u64> {
    let (&c, rest) = b.split_first()?;
    let n = match c {
        0x04 => 1,
        0x05 => 2,
        0x06 => 4,
        0x07 => 8,
        _ => return None,
    };
    if rest.len() < n {
        return None;
    }
    let mut a = [0u8; 8];
    a[..n].copy_from_slice(&rest[..n]);
    Some(u64::from_le_bytes(a))
}

fn durable(kv: &SimKv) -> Option<u64> {
    kv.get(EVENT_EPOCH_KEY).and_then(|v| tlv_uint_decode(&v))
}

fn poll_once<F: Future>(f: F) -> Option<F::Output> {
    let mut f = pin!(f);
    let mut cx = Context::from_waker(Waker::noop());
    match f.as_mut().poll(&mut cx) {
        Poll::Ready(v) => Some(v),
        Poll::Pending => None,
    }
}

enum End {
    Restart,
    Crash,
    Done,
    Abort,
}

fn incarnation<C: Crypto>(h: &Hist, kv: &SimKv, crypto: &C, op_i: &mut usize, inc: u32, out: &mut RunOut) -> End {
    let matter = node::new_matter();
    if let Err(e) = matter.startup(matter.kv(kv.clone())) {
        out.inconclusive = Some(format!("matter-startup-error-{:?}", e.code()));
        return End::Abort;
    }
    let buffers: Box<MatterBuffers> = Box::new(MatterBuffers::new());
    let state: Box<InteractionModelState<DummyNetworks>> = Box::new(InteractionModelState::new(DummyNetworks));
    state.suppress_start_up_event();
    let kva = matter.kv(kv.clone());
    let node = Node::new(&[]);
    let dm = InteractionModel::new(&*matter, crypto, &*buffers, (node, EmptyHandler), &kva, &*state);
    match poll_once(dm.startup()) {
        Some(Ok(())) => {}
        Some(Err(e)) => {
            out.inconclusive = Some(format!("im-startup-error-{:?}", e.code()));
            return End::Abort;
        }
        None => {
            out.inconclusive = Some("im-startup-pending".into());
            return End::Abort;
        }
    }
    let reseeded = kv.get(EVENT_EPOCH_KEY).is_none();
    out.t(format!("inc {} startup: stored epoch {:?}", inc, durable(kv)));
    let mut failed_pending = false;

    while *op_i < h.ops.len() {
        let op = h.ops[*op_i].clone();
        let this_op = *op_i;
        *op_i += 1;
        match op {
            Op::Restart => {
                out.t(format!("inc {} op#{} restart", inc, this_op));
                return End::Restart;
            }
            Op::FailNextStore => kv.fail_at(Some(kv.mut_count() + 1)),
            Op::Invalidate(_) => {}
            Op::Use(n) => {
                let from = out.yields.len();
                for _ in 0..n {
                    let k = kv.mut_count() + 1;
                    let crash = h.crash.filter(|c| c.at_store == k);
                    if matches!(crash, Some(c) if !c.after) {
                        kv.fail_at(Some(k));
                    }
                    let r = dm.emit_event(0, 0x28, 0, EventPriority::Info, |mut tw| {
                        0x41u8.to_tlv(&EVENT_DATA_TAG, &mut tw)
                    });
                    let stored = kv.mut_count() >= k;
                    if stored {
                        if let Some(c) = crash {
                            summarize(out, inc, this_op, &op, from);
                            out.t(format!(
                                "inc {} CRASH {} store #{} inside emit_event (its result {:?} is never seen)",
                                inc,
                                if c.after { "after" } else { "before" },
                                k,
                                r.as_ref().map_err(|e| e.code())
                            ));
                            out.unused += 1;
                            return End::Crash;
                        }
                    }
                    match r {
                        Ok(v) => {
                            if stored {
                                failed_pending = false;
                            }
                            out.yields.push(Yield {
                                value: v,
                                inc,
                                op: this_op,
                                durable: durable(kv),
                                mut_idx: kv.mut_count(),
                                failed_pending,
                                reseeded,
                            });
                        }
                        Err(e) => {
                            if stored {
                                failed_pending = true;
                                out.t(format!(
                                    "inc {} op#{}: emit_event -> Err({:?}) because store #{} FAILED",
                                    inc,
                                    this_op,
                                    e.code(),
                                    k
                                ));
                            } else {
                                out.errors += 1;
                                out.notes.push(format!("emit-error-{:?}", e.code()));
                            }
                        }
                    }
                }
                summarize(out, inc, this_op, &op, from);
            }
        }
    }
    End::Done
}

fn summarize(out: &mut RunOut, inc: u32, op_i: usize, op: &Op, from: usize) {
    let ys = &out.yields[from..];
    let line = if ys.is_empty() {
        format!("inc {} op#{} {:?}: no event number returned", inc, op_i, op)
    } else {
        format!(
            "inc {} op#{} {:?}: emit_event returned {} number(s) {}..={} (stored epoch at first {:?}, at last {:?})",
            inc,
            op_i,
            op,
            ys.len(),
            ys[0].value,
            ys[ys.len() - 1].value,
            ys[0].durable,
            ys[ys.len() - 1].durable
        )
    };
    out.t(line);
}

pub fn run(h: &Hist) -> RunOut {
    let mut out = RunOut::default();
    let mut map = KvMap::new();
    if let Some(b) = h.start {
        // Encoding read from `EventsInner::load`: one anonymous TLV unsigned integer.
        map.insert(EVENT_EPOCH_KEY, tlv_uint(b, h.wide_tlv));
    }
    let kv = SimKv::from_map(map, true);
    let crypto = node::crypto(Rng::new(h.seed));
    let mut op_i = 0usize;
    let mut inc = 0u32;
    loop {
        match incarnation(h, &kv, &crypto, &mut op_i, inc, &mut out) {
            End::Restart => {
                out.restarts += 1;
                inc += 1;
            }
            End::Crash => {
                out.crashed = true;
                inc += 1;
            }
            End::Done | End::Abort => break,
        }
    }
    out.kvlog = kv.log();
    out.stores = kv.mut_count();
    out.failed_stores = out
        .kvlog
        .iter()
        .filter(|o| o.kind != KvOpKind::Load && o.failed)
        .count();
    out
}
